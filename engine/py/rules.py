"""Rule kinds (K1..K13) evaluated over the fact base, and the run/report machinery."""
import json
import os
import re
import time

from cfg import cfg_of, op_str, pl_str, rv_str, term_str
from facts import norm
from flow import Taint, Tracker, callee_matches, op_local, prep, rv_operands, field_reads


def pat_match(npath, pats):
    for p in pats:
        if p.startswith("*"):
            if npath.endswith(p[1:]):
                return True
        elif npath == p:
            return True
    return False


class Violation:
    def __init__(self, prop, rule, key, msg, file=None, line=None, function=None, trace=None):
        self.prop = prop
        self.rule = rule
        self.key = key  # stable: no line numbers
        self.msg = msg
        self.file = file
        self.line = line
        self.function = function
        self.trace = trace or []

    def ident(self):
        return "%s|%s|%s" % (self.prop, self.rule, self.key)

    def to_json(self):
        return {"property": self.prop, "rule": self.rule, "key": self.key, "message": self.msg,
                "file": self.file, "line": self.line, "function": self.function, "trace": self.trace}


# ------------------------------------------------------------------ sinks and guards

ELEMENTWISE = ("Iterator::for_each", "Iterator::try_for_each", "Iterator::map", "Iterator::filter_map", "Iterator::flat_map", "Iterator::inspect",
               "Iterator::fold", "Iterator::try_fold", "Option::map", "Option::and_then", "Option::inspect", "Result::map", "Result::and_then", "Result::inspect")


class CallSink:
    """call of one of `pats` — in the body itself, or as the body of a closure handed to an element-wise combinator
    (`keys.iter().for_each(|k| self.remove(k))` performs the call where `for k in keys { self.remove(k) }` does): then the combinator's
    call block stands for it (`closure_sites` tells which blocks those are)."""

    def __init__(self, *pats, arg_local_pred=None, in_closures=True):
        self.pats = pats
        self.in_closures = in_closures
        self.closure_sites = {}

    def blocks(self, body):
        prep(body)
        out = []
        self.closure_sites = {}
        for b in body.blocks:
            t = b["term"]
            if b["cleanup"] or t["k"] != "call":
                continue
            if callee_matches(t, self.pats):
                out.append(b["id"])
            elif self.in_closures and (t.get("ngen") or t.get("ncallee") or "").endswith(ELEMENTWISE):
                try:
                    cls = closures_passed(body._facts, body, t)
                except Exception:
                    cls = []
                for cl in cls:
                    prep(cl)
                    if any(x["term"]["k"] == "call" and not x["cleanup"] and callee_matches(x["term"], self.pats) for x in cl.blocks):
                        out.append(b["id"])
                        self.closure_sites[b["id"]] = cl
                        break
        return out

    def descr(self):
        return "call " + "|".join(p.lstrip("*") for p in self.pats)


class AggSink:
    """construction of ADT literal `adt`(::variant)"""

    def __init__(self, adt, variant=None, dest_local=None, dest_ty=None, computed=False):
        self.adt = adt
        self.variant = variant
        self.dest_local = dest_local
        self.dest_ty = dest_ty  # substring that the destination local's type must contain
        self.computed = computed  # also the branch form of a forwarded Result/Option return (inline.normalise_result_returns)

    def blocks(self, body):
        out = []
        for b in body.blocks:
            if b["cleanup"]:
                continue
            for s in b["stmts"]:
                rv = s["rv"]
                if s.get("norm") and not self.computed:
                    continue
                if rv["k"] == "agg" and rv["ak"] == "adt" and pat_match(norm(rv["adt"]), [self.adt]) and \
                        (self.variant is None or rv["variant"] == self.variant):
                    if self.dest_local is not None and s["d"][0] != self.dest_local:
                        continue
                    if self.dest_ty is not None and self.dest_ty not in body.locals.get(str(s["d"][0]), ""):
                        continue
                    out.append(b["id"])
                    break
        return out

    def descr(self):
        return "construct %s%s" % (self.adt.lstrip("*"), "::" + self.variant if self.variant else "")


def returned_directly(body, x):
    """is the bool held in local `x` (or computed by comparison site `x`) the function's return value?  Bodies are loaded with their
    bool returns in branch form (inline.normalise_bool_returns): `_0 = a >= b` reads `x = a >= b; switch x { 0 => _0 = false, _ => _0 = true }`."""
    d = x["d"] if isinstance(x, dict) else x
    if isinstance(d, list):
        d = d[0] if len(d) == 1 else None
    if d == 0:
        return True
    if d is None:
        return False
    flows = Taint(body).closure({d})
    if 0 in flows:
        return True
    for b in body.blocks:
        t = b["term"]
        if t["k"] == "switch" and t.get("bool_return") and t["on"][0] in ("mv", "cp") and len(t["on"][1]) == 1 and t["on"][1][0] in flows:
            return True
    # `if v { true } else { false }`, `match v { true => true, .. }`, a verdict handed back by an inlined helper …: evaluate the body
    # as a function of this one comparison
    if isinstance(x, dict) and "bb" in x and body.nblocks <= 400:
        try:
            tt = closure_truth_table(body, lambda b_, cs: ("V", True) if (cs["bb"], cs["d"]) == (x["bb"], x["d"]) else None)
        except Exception:
            tt = None
        if tt is not None and tt[0] == ["V"] and all(v == dict(k)["V"] for k, v in tt[1].items()):
            return True
    return False


def is_forward(body, t):
    """does call terminator `t` hand its result on as the function's return value (`_0 = g(..)`, shown in branch form after
    inline.normalise_*_returns: `x = g(..); switch (discriminant) x { … _0 = Variant(..) … }`)?"""
    d = t.get("d") or []
    if d == [0]:
        return True
    if len(d) != 1:
        return False
    x = d[0]
    for b in body.blocks:
        tt = b["term"]
        if tt["k"] != "switch":
            continue
        if tt.get("bool_return") and tt["on"][0] in ("mv", "cp") and tt["on"][1] == [x]:
            return True
        if tt.get("result_return") and any(s["rv"]["k"] == "discr" and s["rv"]["p"] == [x] for s in b["stmts"]):
            return True
    return False


class RetSink:
    """assignment of the return place `_0`:  kind 'Ok' | 'Some' | 'true' | 'false' | 'Err' | 'None'.
    For the bool kinds: by default only the constants written in the source (`return true`); with computed=True also the sites where a
    computed bool that is returned turns out `true` / `false` (the branch form of `_0 = <expr>`)."""

    def __init__(self, kind, computed=False):
        self.kind = kind
        self.computed = computed

    def blocks(self, body):
        out = []
        for b in body.blocks:
            if b["cleanup"]:
                continue
            for s in b["stmts"]:
                if s["d"] != [0]:
                    continue
                rv = s["rv"]
                if self.kind in ("true", "false"):
                    if rv["k"] == "use" and rv["a"][0] == "c" and rv["a"][1] == self.kind and (self.computed or not s.get("norm")):
                        out.append(b["id"])
                elif rv["k"] == "agg" and rv["variant"] == self.kind and (self.computed or not s.get("norm")):
                    out.append(b["id"])
        return out

    def descr(self):
        return "return %s" % self.kind


class BlockSink:
    def __init__(self, fn, descr):
        self.fn = fn
        self._d = descr

    def blocks(self, body):
        return self.fn(body)

    def descr(self):
        return self._d


def _is_future_local(body, local):
    ty = body.locals.get(str(local), "")
    return "async" in ty or "Future" in ty or "{coroutine" in ty


class CallGuard:
    """The logical result of a call to one of `pats` has accepting shape `steps`."""

    def __init__(self, pats, steps, label=None, arg_pred=None, via_wrappers=()):
        self.pats = tuple(pats) if not isinstance(pats, str) else (pats,)
        self.steps = tuple(steps) if not isinstance(steps, str) else (steps,)
        self.label = label or ("%s is %s" % ("|".join(p.lstrip("*").split("::")[-1] for p in self.pats), ".".join(self.steps)))
        self.arg_pred = arg_pred
        self.via_wrappers = via_wrappers

    def sites(self, body):
        prep(body)
        out = []
        for b in body.blocks:
            t = b["term"]
            if b["cleanup"] or t["k"] != "call":
                continue
            if callee_matches(t, self.pats) and (self.arg_pred is None or self.arg_pred(body, b, t)):
                out.append(b)
        return out

    def edges(self, body):
        tr = Tracker(body)
        n = 0
        self.seeds = set()
        for b in self.sites(body):
            t = b["term"]
            if len(t["d"]) == 1:
                fut = _is_future_local(body, t["d"][0])
                tr.seed_call_result(t["d"][0], self.steps, fut)
                if not fut and self.steps == ("true",):
                    self.seeds.add((b["id"], t["d"][0], True))
                n += 1
        tr.run()
        self.tracker = tr
        return n, tr.accept, tr.reject


class FieldOptGuard:
    """A match on an Option/Result-typed *field* (`if let Some(x) = self.field`): accepting shape `steps`."""

    def __init__(self, field, steps, label=None):
        self.field = field
        self.steps = tuple(steps) if not isinstance(steps, str) else (steps,)
        self.label = label or "%s is %s" % (field, ".".join(self.steps))

    def edges(self, body):
        tr = Tracker(body)
        n = 0
        for b in body.blocks:
            if b["cleanup"]:
                continue
            for s in b["stmts"]:
                rv = s["rv"]
                if rv["k"] == "discr" and rv["p"][-1] == "." + self.field and len(s["d"]) == 1:
                    tr.seed_discr(s["d"][0], self.steps)
                    n += 1
                elif rv["k"] in ("use", "ref") and len(s["d"]) == 1:
                    p = rv["a"][1] if rv["k"] == "use" and rv["a"][0] in ("cp", "mv") else rv.get("p")
                    if p and p[-1] == "." + self.field:
                        tr.seed_call_result(s["d"][0], self.steps, False)
                        n += 1
        tr.run()
        self.tracker = tr
        return n, tr.accept, tr.reject


def promoted_value(body, local):
    """what the promoted constant held (by reference) in `local` evaluates to — 'path::Enum::Variant' or a constant's text — or None"""
    import re as _re
    prep(body)
    F = body._facts
    seen = set()
    while local is not None and local not in seen:
        seen.add(local)
        nxt = None
        for b in body.blocks:
            for st in b["stmts"]:
                if st["d"] != [local]:
                    continue
                rv = st["rv"]
                if rv["k"] == "use" and rv["a"][0] == "c":
                    m = _re.match(r"^(.*)::promoted\[(\d+)\]$", rv["a"][1])
                    if not m:
                        return None
                    for hb in F.by_npath.get(norm(m.group(1)), []) or ([F.body(m.group(1))] if F.body(m.group(1)) else []):
                        try:
                            pr = F._detail_for(hb.unit)[hb.path].get("promoted") or []
                        except KeyError:
                            continue
                        i = int(m.group(2))
                        if i < len(pr):
                            return pr[i] or None
                    return None
                if rv["k"] == "use" and rv["a"][0] in ("cp", "mv") and all(e == "*" for e in rv["a"][1][1:]):
                    nxt = rv["a"][1][0]
                elif rv["k"] == "ref" and all(e == "*" for e in rv["p"][1:]):
                    nxt = rv["p"][0]
                elif rv["k"] == "agg" and rv.get("ak") == "adt" and not rv["ops"]:
                    return "%s::%s" % (rv["adt"], rv["variant"])
        local = nxt
    return None


class VariantGuard:
    """The value produced by `src(body)` (locals, closed under copies and borrows) is the enum variant `name` (index `idx`): accepting
    edges of a `match` on it (discriminant switch) and of `value == Enum::Name` / `!=` comparisons against that constant."""

    def __init__(self, src, name, idx, label=None):
        self.src, self.name, self.idx = src, name, idx
        self.label = label or "value is %s" % name

    def edges(self, body):
        prep(body)
        tr = Tracker(body)
        seeds = set(self.src(body))
        vals = Taint(body).closure(seeds)
        n = 0
        for l in seeds:
            tr.seed_call_result(l, ("%s#%d" % (self.name, self.idx),), False)
            n += 1
        for c in compare_sites(body):
            if c["op"] not in ("Eq", "Ne"):
                continue
            la, lb = op_local(c["a"]), op_local(c["b"])
            other = lb if la in vals else la if lb in vals else None
            if other is None:
                continue
            pv = promoted_value(body, other)
            if pv is None:
                continue
            n += 1
            same = pv.split("::")[-1] == self.name
            if same:
                tr.seed_bool(c["d"], c["op"] == "Eq")
            # a comparison with another variant says nothing about this one on its true side; its false side neither
        tr.run()
        self.tracker = tr
        return n, tr.accept, tr.reject


class BoolLocalGuard:
    """A boolean computed at statement/terminator found by `finder(body)` → list of (local, true_is_accept)."""

    def __init__(self, finder, label):
        self.finder = finder
        self.label = label

    def edges(self, body):
        tr = Tracker(body)
        seeds = self.finder(body)
        for l, pos in seeds:
            tr.seed_bool(l, pos)
        tr.run()
        self.tracker = tr
        return len(seeds), tr.accept, tr.reject


REL_NEG = {"Lt": "Ge", "Le": "Gt", "Gt": "Le", "Ge": "Lt", "Eq": "Ne", "Ne": "Eq"}
REL_SWAP = {"Lt": "Gt", "Le": "Ge", "Gt": "Lt", "Ge": "Le", "Eq": "Eq", "Ne": "Ne"}
CMP_METHODS = {"lt": "Lt", "le": "Le", "gt": "Gt", "ge": "Ge", "eq": "Eq", "ne": "Ne"}


def compare_sites(body, lex=False):
    """All comparison computations in the body: (block, kind, op, lhs_local, rhs_local, dest_local, line).
    Primitive comparisons are `bin` statements; others are PartialEq/PartialOrd method calls."""
    prep(body)
    out = []
    for b in body.blocks:
        if b["cleanup"]:
            continue
        for s in b["stmts"]:
            rv = s["rv"]
            if rv["k"] == "bin" and rv["op"] in REL_NEG and len(s["d"]) == 1:
                out.append({"bb": b["id"], "op": rv["op"], "a": rv["a"], "b": rv["b"], "d": s["d"][0], "line": s["l"]})
        t = b["term"]
        if t["k"] == "call" and len(t["args"]) == 2 and len(t["d"]) == 1:
            g = t["ngen"] or ""
            m = re.search(r"core::cmp::Partial(?:Eq|Ord)::(lt|le|gt|ge|eq|ne)$", g)
            if m:
                site = {"bb": b["id"], "op": CMP_METHODS[m.group(1)], "a": t["args"][0], "b": t["args"][1],
                        "d": t["d"][0], "line": t["l"], "callee": t["ncallee"]}
                out.append(site)
                # a lexicographic comparison of two tuples built in this body also says something about their first components:
                # (a0, ..) >= (b0, ..) ⇒ a0 >= b0, and its negation ⇒ a0 <= b0 (never the strict form)
                if lex and "core::tuple::<impl core::cmp::PartialOrd for (" in (t["ncallee"] or "") and m.group(1) in ("lt", "le", "gt", "ge"):
                    a0, b0 = _tuple_first(body, op_local(t["args"][0])), _tuple_first(body, op_local(t["args"][1]))
                    if a0 is not None and b0 is not None:
                        weak = {"lt": ("Le", "Ge"), "le": ("Le", "Ge"), "gt": ("Ge", "Le"), "ge": ("Ge", "Le")}[m.group(1)]
                        out.append({"bb": b["id"], "op": weak[0], "a": a0, "b": b0, "d": t["d"][0], "line": t["l"], "callee": t["ncallee"],
                                    "lex": {"true": weak[0], "false": weak[1]}})
    return out


def _tuple_first(body, local, depth=6):
    """the operand stored as component 0 of the tuple `local` (followed back through references and plain copies) holds"""
    while local is not None and depth > 0:
        depth -= 1
        defs = []
        for b in body.blocks:
            if b["cleanup"]:
                continue
            for s in b["stmts"]:
                if s["d"] == [local]:
                    defs.append(s["rv"])
            t = b["term"]
            if t["k"] == "call" and t.get("d") == [local]:
                return None
        if len(defs) != 1:
            return None
        rv = defs[0]
        if rv["k"] == "agg" and rv.get("ak") == "tuple" and rv["ops"]:
            return rv["ops"][0]
        if rv["k"] == "ref":
            p = [e for e in rv["p"][1:] if e != "*"]
            if p:
                return None
            local = rv["p"][0]
        elif rv["k"] == "use" and rv["a"][0] in ("cp", "mv"):
            p = [e for e in rv["a"][1][1:] if e != "*"]
            if p:
                return None
            local = rv["a"][1][0]
        else:
            return None
    return None


def arith_result(body, local, depth=4):
    """Is `local` (following plain copies) the result of integer arithmetic (`x + 1`, `2 * x`)?  A comparison operand that
    is, no longer states the relation between the two *sources* themselves."""
    if local is None or depth < 0:
        return False
    for b in body.blocks:
        if b["cleanup"]:
            continue
        for s in b["stmts"]:
            if s["d"] != [local]:
                continue
            rv = s["rv"]
            if rv["k"] == "bin" and rv["op"] not in REL_NEG:
                return True
            if rv["k"] == "use" and rv["a"][0] in ("cp", "mv"):
                p = rv["a"][1]
                if len(p) == 1 and arith_result(body, p[0], depth - 1):
                    return True
                if len(p) == 2 and p[1] == ".0" and arith_result(body, p[0], depth - 1):
                    return True
            if rv["k"] == "cast" and rv["a"][0] in ("cp", "mv") and len(rv["a"][1]) == 1 and arith_result(body, rv["a"][1][0], depth - 1):
                return True
        t = b["term"]
        if t["k"] == "call" and t["d"] == [local] and any(x in (t["ncallee"] or "") for x in ("::saturating_add", "::saturating_sub", "::wrapping_add", "::wrapping_sub",
                                                                                               "::checked_add", "::checked_sub", "::saturating_mul", "::wrapping_mul", "::checked_mul")):
            return True
    return False


class CmpGuard:
    """A comparison between a value derived from source A and one derived from source B; the accepting
    edge is the one on which relation `required` (about (A, B), e.g. 'Lt' = A < B) holds.

    src_a / src_b: functions body -> set of seed locals.
    """

    def __init__(self, src_a, src_b, required, label, through="table", extra=(), close=True, allow_arith=False):
        self.close = close
        self.allow_arith = allow_arith
        self.src_a = src_a
        self.src_b = src_b
        self.required = required if isinstance(required, (list, tuple, set)) else [required]
        self.label = label
        self.through = through
        self.extra = extra
        self.found = []

    def edges(self, body):
        ta = Taint(body, through=self.through, extra_transparent=self.extra)
        A = ta.closure(self.src_a(body)) if self.close else set(self.src_a(body))
        B = ta.closure(self.src_b(body)) if self.close else set(self.src_b(body))
        tr = Tracker(body)
        n = 0
        self.found = []
        self.seeds = set()
        for c in compare_sites(body, lex=True):
            if not c.get("lex") and "core::tuple::<impl core::cmp::Partial" in (c.get("callee") or ""):
                continue        # a comparison of whole tuples says nothing about a component other than the first (see the `lex` site)
            la, lb = op_local(c["a"]), op_local(c["b"])
            rel = None
            if la in A and lb in B and not (la in B and lb in A and la == lb):
                rel = c["op"]
            elif la in B and lb in A:
                rel = REL_SWAP[c["op"]]
            if rel is None:
                continue
            if not self.allow_arith and (arith_result(body, la) or arith_result(body, lb)):
                self.found.append((c["line"], rel + " (operand is an arithmetic result: not the relation between the sources)"))
                continue
            n += 1
            self.found.append((c["line"], rel))
            if c.get("lex"):
                # first components of a lexicographic tuple comparison: each edge only yields the weak relation
                swap = la in B and lb in A and not (la in A and lb in B)
                r_true = REL_SWAP[c["lex"]["true"]] if swap else c["lex"]["true"]
                r_false = REL_SWAP[c["lex"]["false"]] if swap else c["lex"]["false"]
                if r_true in self.required:
                    tr.seed_bool(c["d"], True)
                elif r_false in self.required:
                    tr.seed_bool(c["d"], False)
                continue
            if rel in self.required:
                tr.seed_bool(c["d"], True)
                self.seeds.add((c["bb"], c["d"], True))
            elif REL_NEG[rel] in self.required:
                tr.seed_bool(c["d"], False)
                self.seeds.add((c["bb"], c["d"], False))
            # else: neither edge establishes the required relation → no accepting edge from this site
        tr.run()
        self.tracker = tr
        return n, tr.accept, tr.reject


# ------------------------------------------------------------------ run object

class Run:
    def __init__(self, F, prop, tier="quick"):
        self.F = F
        self.prop = prop
        self.tier = tier
        self.violations = []
        self.instances = []  # dicts for evidence
        self.t0 = time.time()

    # -- bookkeeping
    def inst(self, rule, kind, descr, sites, ok, detail=None):
        self.instances.append({"rule": rule, "kind": kind, "what": descr, "sites": sites, "holds": ok,
                               **({"detail": detail} if detail else {})})

    def viol(self, rule, key, msg, body=None, line=None, trace=None):
        v = Violation(self.prop, rule, key, msg, file=body.file if body else None, line=line,
                      function=body.path if body else None, trace=trace)
        self.violations.append(v)
        return v

    def import_rules(self, other_prop, run_fn, only, as_prefix):
        """Evaluate the rules of another property that this one's clause rests on (`only`: rule-id prefixes of the other property) and
        report them under this property's name (`C08.admit…` → `<as_prefix>.admit…`).  The rules are written once; a property whose
        statement covers the same comparison is answerable for it too.  Known-finding keys of the other property do not carry over."""
        if getattr(self, "_imported", False):
            return      # rules are imported one level deep: the rules another property imports in turn are that property's business
        child = Run(self.F, other_prop, self.tier)
        child._imported = True
        run_fn(child)
        pre = other_prop + "."
        for i in child.instances:
            if any(i["rule"].startswith(o) for o in only):
                self.instances.append(dict(i, rule=as_prefix + "." + i["rule"][len(pre):]))
        for v in child.violations:
            if any(v.rule.startswith(o) for o in only):
                self.violations.append(Violation(self.prop, as_prefix + "." + v.rule[len(pre):], v.key, v.msg, file=v.file, line=v.line, function=v.function, trace=v.trace))

    def body(self, rule, path):
        b = self.F.body(path)
        if b is None:
            self.viol(rule, "anchor-missing:%s" % path, "anchor function not found in the analysed build: %s" % path)
        return b

    def root_path(self, body):
        return self.F.root_of(body).npath

    # -- K1
    def owner_ok(self, root, allowed, depth=3, _seen=None):
        """`root` is in the allowed set — or it is a helper reachable only through the allowed set: every workspace call of it
        (there is at least one) sits in a function that is itself allowed, up to `depth` levels.  Extracting part of an owner
        into a private helper, or inlining it back, does not change who performs the operation."""
        if pat_match(root, allowed):
            return True
        if depth <= 0:
            return False
        _seen = _seen or set()
        if root in _seen:
            return False
        _seen = _seen | {root}
        sites = [(b, c) for (b, c) in self.F.callers().get(norm(root), []) if c.get("ncallee") == norm(root) or c.get("ngen") == norm(root)]
        if not sites:
            return False
        # a function whose address is taken (passed as a value) can be called from anywhere
        rb = [b for b in self.F.by_npath.get(norm(root), [])]
        if any(b.trait for b in rb):
            return False
        return all(self.owner_ok(self.root_path(b), allowed, depth - 1, _seen) for b, c in sites)

    def who_may_call(self, rule, callee_pats, allowed, floor=1, descr=None, ignore_crates=(), ignore_macro=()):
        """Every call site whose resolved (or generic) callee matches must be in a function whose root
        item matches `allowed`."""
        sites = []
        seen = set()
        for b in self.F.bodies.values():
            if b.crate in ignore_crates:
                continue
            for c in b.calls_raw:
                if callee_matches(c, callee_pats):
                    k = (b.path, c["bb"])
                    if k in seen:
                        continue
                    seen.add(k)
                    sites.append((b, c))
        bad = 0
        for b, c in sites:
            root = self.root_path(b)
            if not self.owner_ok(root, allowed):
                bad += 1
                self.viol(rule, "caller:%s->%s" % (root, c["ncallee"]),
                          "%s is called from %s, which is not in the allowed set" % (c["ncallee"], root), b, c["line"])
        if len(sites) < floor:
            self.viol(rule, "instance-floor", "only %d call sites of %s found (floor %d)" % (len(sites), callee_pats, floor))
        self.inst(rule, "K1 who-may-call", descr or "callers of %s ⊆ allowed set" % (list(callee_pats),), len(sites),
                  bad == 0 and len(sites) >= floor,
                  {"callers": sorted({self.root_path(b) for b, _ in sites})})
        return sites

    # -- K2
    def who_may_write(self, rule, adt, field, allowed, floor=1, descr=None):
        sites = []
        for b in self.F.bodies.values():
            for m in b.field_mut_raw:
                if norm(m["adt"]) == adt and m["field"] == field:
                    sites.append((b, m))
        bad = 0
        for b, m in sites:
            root = self.root_path(b)
            if not self.owner_ok(root, allowed):
                bad += 1
                self.viol(rule, "writer:%s.%s<-%s" % (adt, field, root),
                          "field %s.%s is mutated (%s) in %s, not in the allowed set" % (adt, field, m["how"], root), b, m["line"])
        if len(sites) < floor:
            self.viol(rule, "instance-floor", "only %d write sites of %s.%s found (floor %d)" % (len(sites), adt, field, floor))
        writers = sorted({self.root_path(b) for b, _ in sites})
        self.inst(rule, "K2 who-may-write", descr or "writers of %s.%s ⊆ allowed set" % (adt, field), len(sites),
                  bad == 0 and len(sites) >= floor, {"writers": writers})
        return sites

    def writers_of(self, adt, field):
        out = {}
        for b in self.F.bodies.values():
            for m in b.field_mut_raw:
                if norm(m["adt"]) == adt and m["field"] == field:
                    out.setdefault(self.root_path(b), []).append((b, m))
        return out

    # -- K3
    def who_may_construct(self, rule, adt, variant, allowed, floor=1, descr=None, ignore_macro=("Clone", "Deserialize", "Debug")):
        sites = []
        for b in self.F.bodies.values():
            if b.mac in ignore_macro:
                continue
            for a in b.aggregates_raw:
                if a["kind"] == "adt" and norm(a["adt"]) == adt and (variant is None or a["variant"] == variant):
                    sites.append((b, a))
        bad = 0
        for b, a in sites:
            root = self.root_path(b)
            if not self.owner_ok(root, allowed):
                bad += 1
                self.viol(rule, "constructor:%s%s<-%s" % (adt, "::" + variant if variant else "", root),
                          "%s%s is constructed in %s, not in the allowed set" % (adt, "::" + variant if variant else "", root),
                          b, a["line"])
        if len(sites) < floor:
            self.viol(rule, "instance-floor", "only %d construction sites of %s::%s (floor %d)" % (len(sites), adt, variant, floor))
        self.inst(rule, "K3 who-may-construct", descr or "constructors of %s%s ⊆ allowed set" % (adt, "::" + variant if variant else ""),
                  len(sites), bad == 0 and len(sites) >= floor, {"constructors": sorted({self.root_path(b) for b, _ in sites})})
        return sites

    # -- K4
    def gate(self, rule, fn, sink, groups, descr=None, min_sinks=1, starts=(0,), per_iteration=False):
        """Every path from entry to `sink` in `fn` crosses an accepting edge of every group
        (a group is a list of guards: any-of)."""
        body = fn if not isinstance(fn, str) else self.body(rule, fn)
        if body is None:
            return False
        g = cfg_of(body)
        sinks = set(sink.blocks(body))
        all_reach = g.reach(starts)
        sinks &= all_reach
        if len(sinks) < min_sinks:
            self.viol(rule, "sink-missing:%s" % sink.descr(), "sink `%s` not found (found %d, need %d) in %s" % (sink.descr(), len(sinks), min_sinks, body.path), body)
            self.inst(rule, "K4 gate", descr or sink.descr(), 0, False)
            return False
        ok = True
        details = []
        for group in groups:
            if not isinstance(group, (list, tuple)):
                group = [group]
            cut = set()
            nsites = 0
            for gd in group:
                n, acc, _rej = gd.edges(body)
                nsites += n
                cut |= acc
                if not acc:
                    # the check may have been extracted into a same-crate helper: accept the helper's own accepting result
                    # where every accepting return of the helper is cut by the guard inside it (one-level wrapper summary)
                    wn, wacc, via = _wrapper_edges(self.F, body, gd)
                    nsites += wn
                    cut |= wacc
                    if via:
                        details.append({"guard": gd.label, "via_wrapper": via})
            for gd in group:
                # the guard as the predicate of a filtering combinator (`.filter(|x| …)`, `.find(..)`, `.any(..)`)
                try:
                    pn, pacc = _predicate_closure_edges(self.F, body, gd)
                except Exception:
                    pn, pacc = 0, set()
                if pacc:
                    nsites += pn
                    cut |= pacc
                    details.append({"guard": gd.label, "as_predicate_closure": pn})
            if len(group) > 1:
                # an any-of group may have been extracted as a whole: a helper whose accepting returns are each cut by one of the group
                wn, wacc, via = _wrapper_edges(self.F, body, list(group))
                nsites += wn
                cut |= wacc
                if via:
                    details.append({"guard": " or ".join(gd.label for gd in group), "via_wrapper": via})
            label = " or ".join(gd.label for gd in group)
            if not cut:
                ok = False
                why = "; ".join(str(getattr(gd, "via")) for gd in group if getattr(gd, "via", None))
                self.viol(rule, "guard-missing:%s" % label, "no deciding branch on guard `%s` found in %s%s" % (label, body.path, " (%s)" % why if why else ""), body, body.lines[0])
                details.append({"guard": label, "sites": nsites, "accept_edges": 0})
                continue
            reach = g.reach(starts, cut=cut)
            bad = sinks & reach
            if bad:
                # refinement: a variable that holds a guard's verdict on one path and a constant on another (`let e = if start { start().err() }
                # else { None }`) decides nothing by itself ("mixed").  But a path that avoids every accepting edge found so far stays inside
                # `reach`; a definition in a block outside it cannot be what such a path reads.  Re-run the guards with those definitions
                # ignored, until nothing changes.  Sound: the new edges are real decisions on every path that has not crossed an earlier one.
                import flow as _flow
                allb = {b["id"] for b in body.blocks if not b["cleanup"]}
                for _round in range(3):
                    dead = allb - reach
                    if not dead:
                        break
                    _flow.DEAD_BLOCKS[id(body)] = dead
                    try:
                        extra = set()
                        for gd in group:
                            try:
                                _n, acc2, _r = gd.edges(body)
                            except Exception:
                                acc2 = set()
                            extra |= {e for e in acc2 if e[0] in reach}
                    finally:
                        _flow.DEAD_BLOCKS.pop(id(body), None)
                    if extra <= cut:
                        break
                    cut |= extra
                    reach = g.reach(starts, cut=cut)
                    bad = sinks & reach
                    details.append({"guard": label, "refined_over_dead_definitions": len(dead)})
                    if not bad:
                        break
            details.append({"guard": label, "sites": nsites, "accept_edges": len(cut)})
            if per_iteration and not bad:
                # the guard must be re-evaluated on every cycle through the sink (loop bodies)
                for sk in sinks:
                    nxt = tuple(d for d, _ in g.succ[sk])
                    if sk in g.reach(nxt, cut=cut):
                        ok = False
                        self.viol(rule, "ungated-iteration:%s!%s" % (sink.descr(), label),
                                  "`%s` can be reached again in %s (next loop iteration) without re-passing `%s`" % (sink.descr(), body.path, label),
                                  body, g.term(sk).get("l"))
                        break
            if bad:
                ok = False
                p = g.path(starts, bad, cut=cut)
                self.viol(rule, "ungated:%s!%s" % (sink.descr(), label),
                          "`%s` is reachable in %s without passing the accepting side of `%s`" % (sink.descr(), body.path, label),
                          body, g.term(p[-1]).get("l"), trace=g.lines(p))
        self.inst(rule, "K4 gate", descr or "%s gated in %s" % (sink.descr(), body.npath.split("::")[-2] if body.kind == "closure" else body.npath.split("::")[-1]),
                  len(sinks), ok, {"guards": details})
        return ok

    def gate_reject(self, rule, fn, sink, guards, descr=None):
        """K4r: from every rejecting edge of each guard the sink is unreachable (guards inside loops)."""
        body = fn if not isinstance(fn, str) else self.body(rule, fn)
        if body is None:
            return False
        g = cfg_of(body)
        sinks = set(sink.blocks(body)) & g.reach((0,))
        if not sinks:
            self.viol(rule, "sink-missing:%s" % sink.descr(), "sink `%s` not found in %s" % (sink.descr(), body.path), body)
            return False
        ok = True
        details = []
        for gd in guards:
            n, acc, rej = gd.edges(body)
            details.append({"guard": gd.label, "sites": n, "reject_edges": len(rej)})
            if not rej or not acc:
                # the per-element test may sit in the closure of `try_for_each` / `try_fold` / `all`: there a rejecting edge must not
                # reach the closure's own accepting return (Ok / Continue / true), and the combinator's failure must not reach the sink
                if self._reject_in_combinator(rule, body, gd, sinks, details):
                    continue
                ok = False
                why = str(getattr(gd, "via", "") or "")
                self.viol(rule, "guard-missing:%s" % gd.label, "no deciding branch on guard `%s` found in %s%s" % (gd.label, body.path, " (%s)" % why if why else ""), body, body.lines[0])
                continue
            live = g.reach((0,))
            for (s, d) in rej:
                if s not in live:
                    continue        # a branch left behind by return threading (its block is no longer reachable from the entry)
                reach = g.reach((d,), cut=acc)
                bad = sinks & reach
                if bad:
                    ok = False
                    p = g.path((d,), bad, cut=acc)
                    self.viol(rule, "reject-reaches:%s!%s" % (sink.descr(), gd.label),
                              "`%s` is reachable in %s from the rejecting side of `%s`" % (sink.descr(), body.path, gd.label),
                              body, g.term(s).get("l"), trace=g.lines([s] + p))
                    break
        self.inst(rule, "K4r reject-edge", descr or "%s unreachable after failing guards" % sink.descr(), len(sinks), ok, {"guards": details})
        return ok

    def _reject_in_combinator(self, rule, body, gd, sinks, details):
        g = cfg_of(body)
        found = False
        for blk in body.blocks:
            t = blk["term"]
            if t["k"] != "call" or blk["cleanup"] or len(t.get("d") or []) != 1:
                continue
            gen = t.get("ngen") or t.get("ncallee") or ""
            if not gen.endswith(("Iterator::try_for_each", "Iterator::try_fold", "Iterator::all")):
                continue
            for cl in closures_passed(self.F, body, t):
                prep(cl)
                try:
                    n2, acc2, rej2 = gd.edges(cl)
                except Exception:
                    continue
                if not acc2 or not rej2:
                    continue
                gc = cfg_of(cl)
                oks = set(RetSink("Ok", computed=True).blocks(cl)) | set(RetSink("true", computed=True).blocks(cl)) | \
                    set(AggSink("core::ops::control_flow::ControlFlow", "Continue", computed=True).blocks(cl))
                if not oks or any(gc.reach((d,), cut=acc2) & oks for _, d in rej2):
                    continue
                # the combinator's own failure (Err / false) must lead away from the sink
                tr = Tracker(body)
                if gen.endswith("Iterator::all"):
                    tr.seed_bool(t["d"][0], True)
                else:
                    tr.seed_call_result(t["d"][0], ("Ok",), False)
                tr.run()
                if not tr.reject or any(g.reach((d,), cut=tr.accept) & sinks for _, d in tr.reject):
                    continue
                found = True
                details.append({"guard": gd.label, "in_combinator_closure": cl.path.split("::")[-1], "form": gen.split("::")[-1]})
        return found

    # -- K9
    def const_rel(self, rule, descr, fn):
        try:
            ok, detail = fn(self.F)
        except KeyError as e:
            ok, detail = False, "constant missing: %s" % e
            self.viol(rule, "anchor-missing:const", "constant not found: %s" % e)
            self.inst(rule, "K9 constant relation", descr, 0, False)
            return False
        if not ok:
            self.viol(rule, "const-relation", "%s does not hold: %s" % (descr, detail))
        self.inst(rule, "K9 constant relation", descr, 1, ok, {"values": detail})
        return ok

    def const(self, path):
        c = self.F.consts.get(path)
        if c is None:
            raise KeyError(path)
        return int(c["value"])


# ------------------------------------------------------------------ more kinds (methods attached to Run)

def _fmt_in(self, body):
    out = []
    for stem, c in self.F.crates.items():
        if c["crate"] != body.crate:
            continue
        for f in c["fmt"]:
            if f["file"] == body.file and body.lines[0] <= f["line"] <= body.lines[1]:
                out.append(f)
    return out


def _no_calls(self, rule, items, pats, descr, suppress=None):
    """No body of the listed items (incl. nested closures) calls a callee matching pats.
    suppress: {(root npath, ncallee): reason}."""
    suppress = suppress or {}
    n = 0
    ok = True
    used = set()
    nb = 0
    for it in items:
        bodies = self.F.item(it)
        if not bodies:
            self.viol(rule, "anchor-missing:%s" % it, "anchor function not found: %s" % it)
            ok = False
            continue
        for b in bodies:
            nb += 1
            for c in b.calls:
                if callee_matches(c, pats):
                    n += 1
                    key = (self.root_path(b), c["ncallee"])
                    if key in suppress:
                        used.add(key)
                        continue
                    ok = False
                    self.viol(rule, "forbidden-call:%s->%s" % key, "%s calls %s (%s)" % (key[0], key[1], descr), b, c["line"])
    self.inst(rule, "K8 forbidden-callee", descr, nb, ok,
              {"matched_sites": n, "suppressed": [{"fn": k[0], "callee": k[1], "reason": suppress[k]} for k in sorted(used)]})
    return ok


def _must_call(self, rule, item, pats, descr, floor=1):
    bodies = self.F.item(item)
    if not bodies:
        self.viol(rule, "anchor-missing:%s" % item, "anchor function not found: %s" % item)
        self.inst(rule, "K1 must-call", descr, 0, False)
        return []
    sites = [(b, c) for b in bodies for c in b.calls if callee_matches(c, pats)]
    ok = len(sites) >= floor
    if not ok:
        self.viol(rule, "missing-call:%s!%s" % (norm(item), "|".join(pats)), "%s does not call %s (%s)" % (item, list(pats), descr), bodies[0], bodies[0].lines[0])
    self.inst(rule, "K1 must-call", descr, len(sites), ok)
    return sites


Run.fmt_in = _fmt_in
Run.no_calls = _no_calls
Run.must_call = _must_call


def final_edges(g, edges):
    """Of the accepting (or rejecting) edges of a guard, those after which the verdict is not decided again: when a verdict is first
    stored in a bool (`let hit = matches!(..)`) and branched on later, the tracker reports both the comparison's own edge and the later
    branch; only from the later one does "what follows" mean "what follows on the accepted side"."""
    edges = list(edges)
    out = []
    for (s, d) in edges:
        r = g.reach((d,))
        if not any((s2, d2) != (s, d) and s2 in r for (s2, d2) in edges):
            out.append((s, d))
    return out or edges


def accepted_path_misses(g, acc, rej, sinks, rets):
    """Is there a path entry → return that crosses an accepting edge of the guard, never a rejecting one, and misses every `sinks` block?
    (The effect may come before or after the branch that accepts: `if e { push } … !e` decides twice on the same verdict.)"""
    sinks, rets, rej = set(sinks), set(rets), set(rej)
    before = g.reach((0,), cut=rej, avoid=sinks)
    for s_, d_ in acc:
        if s_ in sinks or s_ not in before:
            continue
        if d_ in sinks:
            continue
        if g.reach((d_,), cut=rej, avoid=sinks) & rets:
            return True
    return False


def _reaches_except(self, rule, fn, target, allowed, descr, starts=(0,), key="skipped"):
    """K5 with enumerated exits: every path from `starts` to a normal return of `fn` performs `target`, unless it left through a
    *rejecting* edge of one of the `allowed` guards (the listed, legitimate reasons to do nothing) or through a `?` error exit.
    A new early return in front of the essential step — "skip the list of a peer we have an issue with", "the key got stored meanwhile,
    drop the fetched copy" — is reported with the path."""
    body = fn if not isinstance(fn, str) else self.body(rule, fn)
    if body is None:
        return False
    prep(body)
    g = cfg_of(body)
    tg = set(target.blocks(body))
    if not tg:
        self.viol(rule, "effect-missing:%s" % target.descr(), "%s: `%s` not found" % (body.path, target.descr()), body, body.lines[0])
        self.inst(rule, "K5 must-follow (enumerated exits)", descr, 0, False)
        return False
    cut = set()
    details = []
    for gd in allowed:
        n, acc, rej = gd.edges(body)
        cut |= set(rej)
        details.append({"allowed_exit": gd.label, "sites": n, "reject_edges": len(rej)})
    errs = {b["id"] for b in body.blocks if b["term"]["k"] == "call" and not b["cleanup"] and "from_residual" in (b["term"].get("ngen") or b["term"].get("ncallee") or "")}
    rets = {b["id"] for b in body.blocks if b["term"]["k"] == "return" and not b["cleanup"]}
    bad = g.reach(tuple(starts), cut=cut, avoid=tg | errs) & rets
    ok = not bad
    if bad:
        p = g.path(tuple(starts), bad, cut=cut, avoid=tg | errs)
        self.viol(rule, "%s:%s" % (key, target.descr()), "%s can return without `%s` for a reason other than: %s" % (body.path, target.descr(), "; ".join(gd.label for gd in allowed) or "(none)"),
                  body, None, trace=g.lines(p))
    self.inst(rule, "K5 must-follow (enumerated exits)", descr, len(tg), ok, {"exits": details})
    return ok


Run.reaches_except = _reaches_except


def _must_pass(self, rule, fn, required, descr=None, from_blocks=None, exits="return"):
    """K5: every path from entry (or from `from_blocks`) to a normal return crosses a block matching each
    required sink (list of (label, sink))."""
    body = fn if not isinstance(fn, str) else self.body(rule, fn)
    if body is None:
        return False
    prep(body)
    g = cfg_of(body)
    rets = {b["id"] for b in body.blocks if b["term"]["k"] == "return" and not b["cleanup"]}
    starts = tuple(from_blocks) if from_blocks else (0,)
    ok = True
    detail = []
    for label, sink in required:
        blocks = set(sink.blocks(body))
        if not blocks:
            ok = False
            self.viol(rule, "effect-missing:%s" % label, "%s: required effect `%s` not found" % (body.path, label), body, body.lines[0])
            continue
        reach = g.reach(starts, avoid=blocks)
        bad = reach & rets
        detail.append({"effect": label, "sites": len(blocks)})
        if bad:
            ok = False
            p = g.path(starts, bad, avoid=blocks)
            self.viol(rule, "skippable:%s" % label, "%s can return without `%s`" % (body.path, label), body, None, trace=g.lines(p))
    self.inst(rule, "K5 must-follow", descr or "every path through %s performs %s" % (body.npath.split("::")[-1], ", ".join(l for l, _ in required)),
              len(required), ok, {"effects": detail})
    return ok


Run.must_pass = _must_pass


def P(index, close=False):
    """seed function: the locals holding parameter #index (0-based incl. self) of the source-level function"""
    from flow import param_locals

    def f(body):
        s = param_locals(body._facts, body, index)
        return Taint(body).closure(s) if close else s
    return f


def PL(body, index, aliases=True):
    """locals holding parameter #index; aliases=False: the parameter's own local(s) only, without the locals that merely hold the same
    value whole (needed where a variable initialised from the parameter is then changed in place: `let mut v = input; v.retain(..)`)"""
    from flow import param_locals, _param_locals
    return param_locals(body._facts, body, index) if aliases else _param_locals(body._facts, body, index)


# ------------------------------------------------------------------ "for all elements of a field" (loop or Iterator::all)

DROPPING_ADAPTORS = ("::filter", "::filter_map", "::take", "::skip", "::take_while", "::skip_while", "::step_by", "::find", "::find_map",
                     "::nth", "::last", "::first", "::flat_map", "::flatten", "::map_while", "::rev") 


def _chain_calls(F, body, local, depth=2):
    """callee names on the backward chain of `local`, following workspace helpers' returned values (depth-limited)"""
    from flow import backward_calls
    locs, calls = backward_calls(body, local)
    names = [(c["ncallee"] or c.get("ngen") or "?") for c in calls]
    fields = set()
    for b in body.blocks:
        for s in b["stmts"]:
            if s["d"][0] in locs:
                rv = s["rv"]
                p = rv["a"][1] if rv["k"] == "use" and rv["a"][0] in ("cp", "mv") else rv.get("p") if rv["k"] in ("ref", "discr") else None
                if p:
                    fields |= {e[1:] for e in p[1:] if e.startswith(".") and not e[1:].isdigit() and not e.startswith(".upv")}
    if depth > 0:
        for c in calls:
            for hb in F.by_npath.get(c["ncallee"] or "", []):
                if hb.crate == body.crate and hb.kind != "closure":
                    prep(hb)
                    n2, f2 = _chain_calls(F, hb, 0, depth - 1)
                    names += n2
                    fields |= f2
    return names, fields


def forall_over_field(self, rule, fn, field, check_pats, descr, extra_ok_checks=()):
    """Every element of `self.<field>` must pass `check` for `fn` to return true.

    Accepts two idioms: (A) a `for` loop whose body returns false on a failing check (K4r), and (B)
    `iter().all(|x| check(x))` where the closure's return value is only ever the check's verdict or `false`.
    In both, the iterated value must come from the field with no element-dropping adaptor on the way."""
    F = self.F
    body = self.body(rule, fn)
    if body is None:
        return False
    prep(body)
    g = cfg_of(body)
    ok = True
    form = None
    # consumer
    alls = [b for b in body.blocks if b["term"]["k"] == "call" and not b["cleanup"] and (b["term"]["ngen"] or "").endswith("iterator::Iterator::all")]
    loops = [b for b in body.blocks if b["term"]["k"] == "call" and not b["cleanup"] and (b["term"]["ngen"] or "").endswith("collect::IntoIterator::into_iter")]
    direct = [b for b in body.blocks if b["term"]["k"] == "call" and not b["cleanup"] and callee_matches(b["term"], check_pats)]
    src_local = None
    if direct and loops:
        form = "loop"
        gd = CallGuard(check_pats, ("true",), "every element passes %s" % check_pats[0].split("::")[-1])
        ok = self.gate_reject(rule + ".loop", body, RetSink("true"), [gd] + list(extra_ok_checks), descr=descr + " (loop form)")
        # ... and no element gets round the check (a `continue` before it): true only after every iteration passed it
        ok = self.gate(rule + ".every", body, RetSink("true"), [[ForallGuard(field, check_pats, ("true",), "every element of .%s passed %s" % (field, check_pats[0].split("::")[-1]))]],
                       descr=descr + " — no element skips the check") and ok
        # the loop whose body holds the check
        cand = [l for l in loops if direct[0]["id"] in g.reach((l["id"],))]
        src_local = op_local(cand[-1]["term"]["args"][0]) if cand else None
    elif alls:
        form = "all"
        a = alls[0]
        src_local = op_local(a["term"]["args"][0])
        # closure argument
        cl = None
        for arg in a["term"]["args"][1:]:
            ty = body.locals.get(str(op_local(arg)), "")
            for c in F.item(F.root_of(body).path):
                if c.kind == "closure" and (":%d:" % c.lines[0]) in ty:
                    cl = c
        if cl is None:
            ok = False
            self.viol(rule, "all-closure-missing", "cannot find the closure given to Iterator::all in %s" % body.path, body, a["term"]["l"])
        else:
            prep(cl)
            # the closure yields true only where the check held for the element (bodies are in branch form: `_0 = check(x)` reads
            # `v = check(x); switch v { 0 => _0 = false, _ => _0 = true }`)
            dummy = Run.__new__(Run)
            dummy.F, dummy.violations, dummy.instances, dummy.prop = F, [], [], "forall"
            cgd = CallGuard(check_pats, ("true",), "the element passes %s" % check_pats[0].split("::")[-1])
            if not _bool_verdict(dummy, "forall", cl, cgd, "forall", emit=False):
                ok = False
                self.viol(rule, "all-closure-verdict", "the closure given to all() in %s can return something other than the verdict of %s" % (body.path, check_pats[0]), cl, cl.lines[0])
            # … and the function yields true only where all(..) did
            agd = BoolLocalGuard(lambda b_, a=a: [(a["term"]["d"][0], True)], "all(..) is true")
            if not _bool_verdict(dummy, "forall", body, agd, "forall", emit=False):
                ok = False
                self.viol(rule, "all-result", "%s can return true without the all(..) verdict" % body.path, body, a["term"]["l"])
            self.inst(rule + ".all", "K4 gate", descr + " (Iterator::all form)", 1, ok)
    else:
        ok = False
        self.viol(rule, "forall-missing", "%s has neither a loop nor an all() applying %s to the elements of .%s" % (body.path, check_pats[0], field), body, body.lines[0])
    # iteration source
    if src_local is not None:
        names, fields = _chain_calls(F, body, src_local)
        dropped = [n for n in names if any(n.endswith(x) or (x + "<") in n for x in DROPPING_ADAPTORS)]
        src_ok = field in fields and not dropped
        if not src_ok:
            ok = False
            self.viol(rule, "forall-source:%s" % (dropped[0] if dropped else "not-" + field),
                      "%s does not apply the check to *every* element of .%s (%s)" % (body.path, field, "elements can be dropped by " + dropped[0] if dropped else "iterates something else"),
                      body, body.lines[0])
        self.inst(rule + ".source", "K6 flows-to", "the check ranges over all of .%s, no element-dropping adaptor on the way" % field, len(names), src_ok, {"form": form, "chain": names[:10]})
    return ok


Run.forall_over_field = forall_over_field


def _gate_here_or_in_callers(self, rule, body_path, fn_path, sink, guard, descr):
    """The sink in `body_path` must be cut by `guard` — either inside the function, or, when the check was hoisted into
    the callers, at *every* call site of `fn_path` in the workspace (the caller-side form of a wrapper summary)."""
    body = self.body(rule, body_path)
    if body is None:
        return False
    n, acc, rej = guard.edges(body)
    if acc:
        return self.gate(rule, body, sink, [[guard]], descr=descr)
    # hoisted: every caller must gate its call
    F = self.F
    sites = [(b, c) for (b, c) in F.callers().get(fn_path, []) if not b.npath.startswith(fn_path)]
    ok = bool(sites)
    ungated = []
    seen = set()
    for b, c in sites:
        if b.path in seen:
            continue
        seen.add(b.path)
        prep(b)
        g = cfg_of(b)
        n2, acc2, _ = guard.edges(b)
        calls = set(CallSink(fn_path).blocks(b))
        if not acc2 or (calls & g.reach((0,), cut=acc2)):
            ok = False
            ungated.append(b)
    for b in ungated:
        self.viol(rule, "ungated-caller:%s!%s" % (self.root_path(b).split("::")[-1], guard.label),
                  "`%s` is not checked inside %s, and its caller %s reaches the call without it" % (guard.label, fn_path.split("::")[-1], self.root_path(b)), b, b.lines[0])
    if not sites:
        self.viol(rule, "guard-missing:%s" % guard.label, "no deciding branch on guard `%s` in %s and no callers to check" % (guard.label, body.path), body, body.lines[0])
    self.inst(rule, "K4w gate (in function or in all callers)", descr + " — check hoisted into callers" , len(seen), ok, {"callers": sorted(seen)})
    return ok


Run.gate_here_or_in_callers = _gate_here_or_in_callers


def _forall_compare(self, rule, fn_body, elem_src, other_src_parent, sink, descr, relation="Eq", source_field=None, source_calls=None):
    """`sink` in fn_body is reachable only if every element satisfies `elem <relation> other`.
    Recognises (A) a loop whose body compares and leaves on mismatch (K4r) and (B) `iter().any(|e| e != other)` /
    `iter().all(|e| e == other)` whose verdict cuts the sink.  elem_src(body) / other_src_parent(body) give seed locals;
    in form (B) `other` must be captured by the closure from a value derived from other_src_parent in the parent."""
    body = fn_body
    prep(body)
    g = cfg_of(body)
    F = self.F
    # (A) comparison in the function body itself
    gd = CmpGuard(lambda b: Taint(b, through="all").closure(elem_src(b)), lambda b: Taint(b, through="all").closure(other_src_parent(b)), relation, descr, close=False)
    n, acc, rej = gd.edges(body)
    if acc and rej:
        ok = self.gate_reject(rule, body, sink, [gd], descr=descr + " (loop form)")
        if source_field is not None or source_calls is not None:
            # no element gets round the comparison
            fg = ForallGuard(source_field, None, None, "every element was compared (%s)" % descr, check=gd, source_calls=source_calls)
            ok = self.gate(rule + ".every", body, sink, [[fg]], descr=descr + " — no element skips the comparison") and ok
        return ok
    # (B) any/all with a comparing closure
    neg = REL_NEG[relation]
    for blk in body.blocks:
        t = blk["term"]
        if t["k"] != "call" or blk["cleanup"]:
            continue
        kind = "any" if (t["ngen"] or "").endswith("iterator::Iterator::any") else "all" if (t["ngen"] or "").endswith("iterator::Iterator::all") else None
        if not kind:
            continue
        cl = None
        for arg in t["args"][1:]:
            ty = body.locals.get(str(op_local(arg)), "")
            for c in F.item(F.root_of(body).path):
                if c.kind == "closure" and (":%d:" % c.lines[0]) in ty:
                    cl = c
        if cl is None:
            continue
        prep(cl)
        cs = compare_sites(cl)
        elem = Taint(cl, through="all").closure(elem_src(cl))
        hit = None
        for c in cs:
            la, lb = op_local(c["a"]), op_local(c["b"])
            if (la in elem) != (lb in elem) and returned_directly(cl, c):
                hit = c
        if hit is None:
            continue
        # the captured other side derives from other_src_parent in the parent
        cap_ok = False
        src = Taint(body, through="all").closure(other_src_parent(body))
        for b2 in body.blocks:
            for s in b2["stmts"]:
                if s["rv"]["k"] == "agg" and s["rv"]["ak"] == "closure" and s["rv"]["adt"] == cl.path and any(op_local(o) in src for o in s["rv"]["ops"]):
                    cap_ok = True
        verdict_accepts = (kind == "any" and hit["op"] == neg) or (kind == "all" and hit["op"] == relation)
        if not (cap_ok and verdict_accepts):
            continue
        tr = Tracker(body)
        tr.seed_bool(t["d"][0], kind == "all")
        tr.run()
        sinks = set(sink.blocks(body))
        ok = bool(tr.accept) and not (sinks & g.reach((0,), cut=tr.accept))
        if not ok:
            self.viol(rule, "forall-ungated:%s" % sink.descr(), "`%s` reachable in %s although some element fails `%s`" % (sink.descr(), body.path, descr), body, t["l"])
        self.inst(rule, "K4 gate (Iterator::%s form)" % kind, descr, 1, ok)
        return ok
    self.viol(rule, "guard-missing:%s" % descr, "no per-element comparison `%s` found in %s (neither a loop nor any()/all())" % (descr, body.path), body, body.lines[0])
    self.inst(rule, "K4r reject-edge", descr, 0, False)
    return False


Run.forall_compare = _forall_compare


class OrWrapperGuard:
    """K4w: `inner` holds either directly in the body, or through a call to `callee` whose own accepting returns
    (`ret_kind`, e.g. "Ok") are all cut by `inner` inside the callee (one level of wrapper summary)."""

    def __init__(self, F, inner, callee, steps=("Ok",), ret_kind="Ok"):
        self.F, self.inner, self.callee, self.steps, self.ret_kind = F, inner, callee, steps, ret_kind
        self.label = inner.label
        self.via = None

    def edges(self, body):
        n, acc, rej = self.inner.edges(body)
        if acc:
            self.via = "direct"
            return n, acc, rej
        cb = self.F.body(self.callee)
        if cb is None:
            return 0, set(), set()
        prep(cb)
        g = cfg_of(cb)
        n2, acc2, rej2 = self.inner.edges(cb)
        rets = set(RetSink(self.ret_kind).blocks(cb))
        # also returns that forward another call's verdict (`_0 = call(..)`) count as accepting returns
        fwd = {b["id"] for b in cb.blocks if b["term"]["k"] == "call" and b["term"]["d"] == [0] and not b["cleanup"]}
        if not acc2 or ((rets | fwd) & g.reach((0,), cut=acc2)):
            self.via = "wrapper %s does not enforce it on every accepting return" % self.callee.split("::")[-1]
            return n2, set(), set()
        self.via = "wrapper " + self.callee.split("::")[-1]
        return CallGuard([self.callee], self.steps, self.label).edges(body)


class FieldBoolGuard:
    """a bool *field* read (`x.is_valid`): accepting side = field is `want`"""

    def __init__(self, field, want=True, label=None):
        self.field, self.want = field, want
        self.label = label or "%s is %s" % (field, want)

    def edges(self, body):
        from flow import field_reads
        tr = Tracker(body)
        seeds = {d for d, r, p in field_reads(body, self.field) if p[-1] == "." + self.field}
        for l in seeds:
            tr.seed_bool(l, self.want)
        tr.run()
        self.tracker = tr
        return len(seeds), tr.accept, tr.reject


# ------------------------------------------------------------------ bool verdict / per-element keepers

POSITIVE = ("bool", (), False)


def _bool_verdict(self, rule, body, guard, descr, emit=True):
    """The bool-returning `body` yields `true` only when `guard` accepted: every assignment of the return place is the
    constant false, the guard's own (positive) verdict, or sits behind an accepting edge of the guard."""
    n, acc, _rej = guard.edges(body)
    tr, seeds = getattr(guard, "tracker", None), getattr(guard, "seeds", set())
    if tr is None:
        tr = Tracker(body)      # a guard that keeps no tracker: only its accepting edges are known
    g = cfg_of(body)
    free = g.reach((0,), cut=acc)
    bad, sites = [], 0
    for b in body.blocks:
        if b["cleanup"] or b["id"] not in g.reach((0,)):
            continue
        for st in b["stmts"]:
            if st["d"] != [0]:
                continue
            sites += 1
            rv = st["rv"]
            if rv["k"] == "use" and rv["a"][0] == "c" and rv["a"][1] == "false":
                continue
            if rv["k"] == "bin" and (b["id"], 0, True) in seeds:
                continue
            if rv["k"] == "use" and rv["a"][0] in ("cp", "mv") and len(rv["a"][1]) == 1:
                sts = tr.states.get(rv["a"][1][0], set())
                if sts and all(x == POSITIVE for x in sts):
                    continue
            if b["id"] not in free:
                continue
            bad.append(st["l"])
        t = b["term"]
        if t["k"] == "call" and t["d"] == [0]:
            sites += 1
            if (b["id"], 0, True) in seeds or b["id"] not in free:
                continue
            bad.append(t["l"])
    ok = n > 0 and sites > 0 and not bad
    if emit:
        if n == 0:
            self.viol(rule, "guard-missing:%s" % guard.label, "no `%s` in %s" % (guard.label, body.path), body, body.lines[0])
        for l in bad[:1]:
            self.viol(rule, "verdict:%s" % guard.label, "%s can return something other than false without `%s` having held" % (body.path, guard.label), body, l)
        self.inst(rule, "K4 gate", descr, sites, ok, {"guard": guard.label, "guard_sites": n})
    return ok


Run.bool_verdict = _bool_verdict

PER_ELEMENT_KEEPERS = ["core::iter::traits::iterator::Iterator::filter", "alloc::vec::Vec::retain", "*Vec<T, A>::retain", "*Vec<T,A>::retain"]
PUSHERS = ["alloc::vec::Vec::push", "*Vec<T, A>::push", "*BTreeSet<T, A>::insert", "alloc::collections::btree::set::BTreeSet::insert"]


def closures_passed(F, body, term):
    """closure bodies handed as arguments to the call `term` (matched through the closure type of the argument local)"""
    out = []
    for arg in term["args"]:
        if arg and arg[0] == "f":
            # a named function passed as a value stands for the closure `|x| f(x)`
            for h in F.by_npath.get(norm(arg[1]), []):
                if h.crate == body.crate and h not in out:
                    out.append(h)
            continue
        l = op_local(arg)
        ty = body.locals.get(str(l), "") if l is not None else ""
        if "closure" not in ty:
            continue
        for c in F.item(F.root_of(body).path):
            if c.kind == "closure" and (":%d:" % c.lines[0]) in ty and c not in out:
                out.append(c)
    return out


def _per_element_keep(self, rule, body, make_guard, descr):
    """Some per-element filter in `body` keeps an element only if the guard held for *that* element.

    Forms: (A) Iterator::filter / Vec::retain with a closure whose verdict is the guard's (bool_verdict); (B) a loop whose
    push/insert into the kept collection is cut by the guard on every iteration.  Returns (form, kept) where `kept` is the
    set of locals holding the filtered collection (used as a cut for flows-to rules), or (None, set()) after reporting."""
    F = self.F
    prep(body)
    ta = Taint(body, through="all")
    for kb in [b for b in body.blocks if b["term"]["k"] == "call" and not b["cleanup"] and callee_matches(b["term"], PER_ELEMENT_KEEPERS)]:
        # `.filter(Transaction::verify)`: the predicate handed over *is* the guard function — its verdict is the guard's by definition
        gd0 = make_guard("closure")
        if isinstance(gd0, CallGuard) and tuple(gd0.steps) == ("true",) and any(a and a[0] == "f" and pat_match(norm(a[1]), gd0.pats) for a in kb["term"]["args"]) \
                and "retain" not in (kb["term"]["ncallee"] or ""):
            self.inst(rule, "K4 gate", descr + " (the predicate is the guard function itself)", 1, True)
            return "closure", {kb["term"]["d"][0]}
        for cl in closures_passed(F, body, kb["term"]):
            prep(cl)
            gd = make_guard("closure")
            if gd.edges(cl)[0] == 0:
                continue
            ok = self.bool_verdict(rule, cl, gd, descr + " (filter/retain closure)")
            t = kb["term"]
            if "retain" in (t["ncallee"] or ""):
                kept = set(ta.ref_of.get(op_local(t["args"][0]), ()))
            else:
                kept = {t["d"][0]}
            return ("closure" if ok else "closure-bad"), kept
    gd = make_guard("loop")
    pushes = CallSink(*PUSHERS)
    if gd.edges(body)[0] > 0 and pushes.blocks(body):
        g = cfg_of(body)
        # only pushes inside a cycle
        loop_push = [bb for bb in pushes.blocks(body) if bb in g.reach(tuple(d for d, _ in g.succ[bb]))]
        if loop_push:
            ok = self.gate(rule, body, BlockSink(lambda b: loop_push, "push into the kept collection"), [[gd]], descr=descr + " (loop form)", per_iteration=True)
            # ... and the loop looks at *every* element: a `break` behind a failing element drops the elements after it
            for nid, (st_, common, rb) in loop_early_exits(body).items():
                if common and set(loop_push) & rb:
                    ok = False
                    self.viol(rule, "loop-stops-early", "%s: the filtering loop can be left before its source is exhausted (break): elements behind that point are dropped "
                              "without being tested" % body.path, body, g.term(nid)["l"])
            kept = set()
            for bb in loop_push:
                kept |= set(ta.ref_of.get(op_local(g.term(bb)["args"][0]), ()))
            return ("loop" if ok else "loop-bad"), kept
    gd = make_guard("loop")
    n = gd.edges(body)[0]
    self.viol(rule, "not-per-element:%s" % gd.label,
              "%s has no per-element `%s` (neither a filter/retain closure deciding on it nor a loop whose push is cut by it); %d such test(s) sit outside any "
              "per-element position, so elements can be kept unchecked" % (body.path, gd.label, n), body, body.lines[0])
    self.inst(rule, "K4 gate", descr, 0, False)
    return None, set()


Run.per_element_keep = _per_element_keep


class ForallGuard:
    """Accepting edges = those on which *every* element of `<x>.<field>` has passed `check` (logical result `steps`).

    Forms recognised: (A) a `for` loop over the field (no element-dropping adaptor between the field and the iterator)
    whose every iteration passes the check's accepting edge before the next `Iterator::next`, and which does not continue
    after a failing check — the accepting edges are the loop's exhausted-iterator exits; (B) `iter().any(|x| check(x))`
    / `iter().all(|x| check(x))` over the field with a closure that returns the check's verdict — the accepting edge is
    the `any == false` / `all == true` side (polarity chosen from `steps`)."""

    def __init__(self, field, check_pats, steps, label, check=None, source_calls=None):
        self.field = field
        self.check_pats = list(check_pats or [])
        self.steps = tuple(steps or ())
        self.label = label
        self.check = check                # any guard object instead of a call pattern (loop form only)
        self.source_calls = source_calls  # the iterated collection is the result of one of these calls (instead of a field)
        self.forms = []

    def _source_ok(self, F, body, local):
        ta = Taint(body)
        for it in ta.ref_of.get(local, {local}) | {local}:
            names, fields = _chain_calls(F, body, it)
            dropped = [n for n in names if any(n.endswith(x) or (x + "<") in n for x in DROPPING_ADAPTORS)]
            from_src = (self.field in fields) if self.source_calls is None else any(pat_match(n, self.source_calls) for n in names)
            if from_src and not dropped:
                return True
        return False

    @staticmethod
    def _accumulated(body, g, head, starts, chk, cacc, crej, exhausted):
        """(accepting, rejecting) edges of the post-loop test of a bool flag that is `true` before the loop and cleared by every failing
        iteration; empty sets when the body has no such flag."""
        inloop = {x for x in g.reach(starts) if head in g.reach((x,))} | {head}
        defs = {}
        for b in body.blocks:
            if b["cleanup"]:
                continue
            for st in b["stmts"]:
                if len(st["d"]) == 1 and str(body.locals.get(str(st["d"][0]), "")) == "bool":
                    defs.setdefault(st["d"][0], []).append((b["id"], st["rv"]))
            t = b["term"]
            if t["k"] == "call" and len(t.get("d") or []) == 1 and t["d"][0] in defs:
                defs[t["d"][0]].append((b["id"], None))
        # values of the check (positive polarity) for the `flag &= value` form
        vals = set()
        if isinstance(chk, FieldBoolGuard) and chk.want:
            from flow import field_reads
            vals = Taint(body).closure({d for d, r, p in field_reads(body, chk.field) if p[-1] == "." + chk.field})
        elif isinstance(chk, CallGuard) and tuple(chk.steps) == ("true",):
            vals = Taint(body).closure({b["term"]["d"][0] for b in body.blocks if b["term"]["k"] == "call" and not b["cleanup"] and callee_matches(b["term"], chk.pats)})
        for A, ds in defs.items():
            clears, ands, ok = set(), set(), True
            has_true_before = False
            for bid, rv in ds:
                if rv is None:
                    ok = False
                    break
                if rv["k"] == "use" and rv["a"][0] == "c" and rv["a"][1] in ("true", "false"):
                    if rv["a"][1] == "true":
                        if bid in inloop:
                            ok = False
                            break
                        has_true_before = True
                    elif bid in inloop:
                        clears.add(bid)
                    continue
                if rv["k"] == "bin" and rv.get("op") == "BitAnd" and bid in inloop:
                    la, lb = op_local(rv["a"]), op_local(rv["b"])
                    other = lb if la == A else la if lb == A else None
                    if other is not None and other in vals:
                        ands.add(bid)
                        continue
                ok = False
                break
            if not ok or not has_true_before or not (clears or ands):
                continue
            if ands and not clears:
                if head in g.reach(starts, avoid=ands):
                    continue        # an iteration can come round without folding its verdict into the flag
            else:
                if not crej or head in g.reach(starts, cut=set(cacc) | set(crej), avoid=ands):
                    continue        # an iteration can come round without the check having been decided
                if any(head in g.reach((d,), avoid=clears) for _, d in crej if d in inloop or _ in inloop):
                    continue        # a failing element does not clear the flag
            tr2 = Tracker(body)
            tr2.seed_bool(A, True)
            tr2.run()
            after = g.reach(tuple(d for _, d in exhausted))
            a_acc = {(s_, d_) for s_, d_ in tr2.accept if s_ not in inloop and s_ in after}
            a_rej = {(s_, d_) for s_, d_ in tr2.reject if s_ not in inloop and s_ in after}
            if a_acc:
                return a_acc, a_rej
        return set(), set()

    def edges(self, body):
        F = body._facts
        prep(body)
        g = cfg_of(body)
        acc, rej, n = set(), set(), 0
        self.forms = []
        chk = self.check if self.check is not None else CallGuard(self.check_pats, self.steps)
        cn, cacc, crej = chk.edges(body)
        for nb in body.blocks:
            t = nb["term"]
            if nb["cleanup"] or t["k"] != "call" or len(t["d"]) != 1:
                continue
            gen = t["ngen"] or ""
            if gen.endswith("iterator::Iterator::next"):
                if not self._source_ok(F, body, op_local(t["args"][0])):
                    continue
                tr = Tracker(body)
                tr.seed_call_result(t["d"][0], ("None",), False)
                tr.run()
                if not tr.accept or not tr.reject:
                    continue
                starts = tuple(d for _, d in tr.reject)
                if nb["id"] in g.reach(starts, cut=cacc) or any(nb["id"] in g.reach((d,)) for _, d in crej):
                    # an iteration can come round without the check having accepted, or the loop goes on after a failed check: the
                    # remaining accepted form is (D) the accumulated verdict — `let mut ok = true; for x in xs { if !check(x) { ok = false }
                    # / ok &= check(x) } if !ok { refuse }`: every iteration decides the check, a failing one clears the flag before the
                    # next element, and the accepting edges are those of the test of the flag behind the exhausted loop
                    a_acc, a_rej = self._accumulated(body, g, nb["id"], starts, chk, cacc, crej, tr.accept)
                    if a_acc:
                        n += 1
                        acc |= a_acc
                        rej |= a_rej
                        self.forms.append("accumulated")
                    continue
                n += 1
                acc |= tr.accept
                rej |= crej
                self.forms.append("loop")
            elif gen.endswith("iterator::Iterator::try_fold") or gen.endswith("iterator::Iterator::try_for_each"):
                # (C) `it.try_fold(init, |acc, x| if check(x) { Ok(..) } else { Err(..) })` / try_for_each: the combinator is Ok only if the
                # closure was Ok for every element, and the closure is Ok only behind the check's accepting edge
                if not self._source_ok(F, body, op_local(t["args"][0])):
                    continue
                good = False
                for cl in closures_passed(F, body, t):
                    prep(cl)
                    cn2, cacc2, _ = chk.edges(cl)
                    oks = set(RetSink("Ok", computed=True).blocks(cl)) | set(AggSink("core::ops::control_flow::ControlFlow", "Continue", computed=True).blocks(cl))
                    if cn2 and cacc2 and oks and not (oks & cfg_of(cl).reach((0,), cut=cacc2)):
                        good = True
                if not good:
                    continue
                tr = Tracker(body)
                tr.seed_call_result(t["d"][0], ("Ok",), False)
                tr.run()
                if tr.accept:
                    n += 1
                    acc |= tr.accept
                    rej |= tr.reject
                    self.forms.append("try_fold")
            elif self.check is None and (gen.endswith("iterator::Iterator::any") or gen.endswith("iterator::Iterator::all")):
                is_any = gen.endswith("::any")
                if not self._source_ok(F, body, op_local(t["args"][0])):
                    continue
                good = False
                for cl in closures_passed(F, body, t):
                    prep(cl)
                    direct = [b for b in cl.blocks if b["term"]["k"] == "call" and callee_matches(b["term"], self.check_pats) and is_forward(cl, b["term"])]
                    others = [st for b in cl.blocks if not b["cleanup"] for st in b["stmts"] if st["d"] == [0] and not st.get("norm")]
                    if direct and not others:
                        good = True
                if not good:
                    continue
                # any(check) is false  <=>  every element has check == false ; all(check) is true <=> every element has check == true
                want_true = self.steps == ("true",)
                if is_any and want_true or (not is_any and not want_true):
                    continue
                tr = Tracker(body)
                tr.seed_call_result(t["d"][0], ("false",) if is_any else ("true",), False)
                tr.run()
                if tr.accept:
                    n += 1
                    acc |= tr.accept
                    rej |= tr.reject
                    self.forms.append("any" if is_any else "all")
        return n, acc, rej


_WRAP_CACHE = {}


def _wrapper_edges(F, body, gd):
    """(sites, accepting edges, helper names): calls in `body` to same-crate helpers that enforce `gd` on all their accepting returns.
    `gd` may be a list of guards (an any-of group): then every accepting return of the helper is cut by one of them."""
    # a guard with an argument predicate is evaluated inside the helper as it stands (the predicate sees the helper's body: "the map
    # is self.records" reads the same there); a predicate tied to the caller's own blocks simply finds nothing in the helper
    gds = [x for x in (gd if isinstance(gd, (list, tuple)) else [gd]) if isinstance(x, CallGuard)]
    if not gds:
        return 0, set(), []
    prep(body)
    acc, n, via = set(), 0, []
    seen = set()
    allpats = [p for x in gds for p in x.pats]
    label = " or ".join(x.label for x in gds)
    for blk in body.blocks:
        t = blk["term"]
        if t["k"] != "call" or blk["cleanup"]:
            continue
        nc = t["ncallee"] or ""
        if nc in seen or not nc or callee_matches(t, allpats):
            continue
        seen.add(nc)
        cands = [h for h in F.by_npath.get(nc, []) if h.crate == body.crate and h.kind != "closure"]
        if not cands:
            continue
        hb = cands[0]
        inner = hb
        if hb.coroutine or any(c.kind == "closure" and c.parent == hb.path and c.coroutine for c in F.children.get(hb.path, [])):
            kids = [c for c in F.children.get(hb.path, []) if c.kind == "closure"]
            if len(kids) == 1:
                inner = kids[0]
        key = (inner.path, tuple((x.pats, x.steps) for x in gds), id(F))
        if key not in _WRAP_CACHE:
            res = None
            try:
                prep(inner)
                acc2 = set()
                for x in gds:
                    acc2 |= x.edges(inner)[1]
                if acc2:
                    g = cfg_of(inner)
                    free = g.reach((0,), cut=acc2)
                    for kind in ("Ok", "true", "Some"):
                        sinks = set(RetSink(kind, computed=True).blocks(inner))
                        fwd = {b["id"] for b in inner.blocks if b["term"]["k"] == "call" and b["term"]["d"] == [0] and not b["cleanup"]
                               and not callee_matches(b["term"], allpats)
                               and not (b["term"].get("ngen") or b["term"].get("ncallee") or "").endswith("FromResidual::from_residual")}   # `?`: an error exit
                        if sinks and not ((sinks | fwd) & free):
                            res = (kind,)
                            break
                    if res is None and len(gds) == 1 and not any(RetSink(k).blocks(inner) for k in ("Ok", "Some")):
                        # bool helper returning the verdict itself
                        dummy = Run.__new__(Run)
                        dummy.F, dummy.violations, dummy.instances, dummy.prop = F, [], [], "wrap"
                        if _bool_verdict(dummy, "wrap", inner, gds[0], "wrap", emit=False):
                            res = ("true",)
            except Exception:
                res = None
            _WRAP_CACHE[key] = res
        steps = _WRAP_CACHE[key]
        if steps:
            wn, wacc, _ = CallGuard([nc], steps, label).edges(body)
            if wacc:
                n += wn
                acc |= wacc
                via.append(nc.split("::")[-1])
    return n, acc, via


PREDICATE_TAKERS = (("Option::filter", "Some"), ("Iterator::find", "Some"), ("Iterator::position", "Some"), ("Iterator::rposition", "Some"),
                    ("Iterator::any", "true"), ("Option::is_some_and", "true"), ("Result::is_ok_and", "true"))


def _captured_seeds(parent, cl, parent_locals):
    """locals of closure `cl` that read a captured variable whose value, in `parent`, is one of `parent_locals`"""
    prep(parent)
    prep(cl)
    caps = set()
    for blk in parent.blocks:
        for st in blk["stmts"]:
            rv = st["rv"]
            if rv["k"] == "agg" and rv.get("ak") in ("closure", "coroutine", "coroutine_closure") and rv.get("adt") == cl.path:
                for k, o in enumerate(rv["ops"]):
                    l = op_local(o)
                    if l is not None and l in parent_locals:
                        caps.add(".upv%d" % k)
    out = set()
    if not caps:
        return out
    for blk in cl.blocks:
        for st in blk["stmts"]:
            rv = st["rv"]
            pl = rv["a"][1] if rv["k"] == "use" and rv["a"][0] in ("cp", "mv") else rv.get("p") if rv["k"] == "ref" else None
            if pl and any(e in caps for e in pl[1:]) and len(st["d"]) == 1:
                out.add(st["d"][0])
        t = blk["term"]
        if t["k"] == "call":
            for a in t["args"]:
                if a[0] in ("cp", "mv") and any(e in caps for e in a[1][1:]) and len(t.get("d") or []) == 1:
                    pass
    return out


def _guard_for_closure(gd, parent, cl):
    """the guard as it reads inside a closure of `parent`: sources may be captured variables"""
    if isinstance(gd, CmpGuard):
        def lift(src):
            def f(b, src=src):
                own = set(src(b))
                if b is cl:
                    try:
                        pl = Taint(parent, through=gd.through).closure(src(parent))
                    except Exception:
                        pl = set()
                    own |= _captured_seeds(parent, cl, pl)
                return own
            return f
        return CmpGuard(lift(gd.src_a), lift(gd.src_b), list(gd.required), gd.label, through=gd.through, extra=gd.extra, close=True, allow_arith=gd.allow_arith)
    return gd


def _predicate_closure_edges(F, body, gd):
    """Accepting edges where the guard is the predicate of a filtering combinator: `opt.filter(|x| guard(x))`, `it.find(|x| guard(x))`,
    `it.any(|x| guard(x))` — the combinator yields Some / true only for an element on which the closure, hence the guard, held."""
    if getattr(gd, "arg_pred", None) is not None:
        return 0, set()
    prep(body)
    tr = Tracker(body)
    n = 0
    for blk in body.blocks:
        t = blk["term"]
        if t["k"] != "call" or blk["cleanup"] or len(t.get("d") or []) != 1:
            continue
        nm = t.get("ngen") or t.get("ncallee") or ""
        kind = next((k for suf, k in PREDICATE_TAKERS if nm.endswith(suf)), None)
        if kind is None:
            continue
        for cl in closures_passed(F, body, t):
            try:
                g2 = _guard_for_closure(gd, body, cl)
                dummy = Run.__new__(Run)
                dummy.F, dummy.violations, dummy.instances, dummy.prop = F, [], [], "pred"
                if not _bool_verdict(dummy, "pred", cl, g2, "pred", emit=False):
                    continue
            except Exception:
                continue
            n += 1
            if kind == "true":
                tr.seed_bool(t["d"][0], True)
            else:
                tr.seed_call_result(t["d"][0], (kind,), False)
    if not n:
        return 0, set()
    tr.run()
    return n, set(tr.accept)


def loops_over(F, body, source_pred):
    """`Iterator::next` blocks of `body` whose iterator derives (through same-crate helpers) from something `source_pred(names, fields)` accepts.
    Returns [(next_block, body_entry_blocks, exit_edges)]."""
    prep(body)
    out = []
    ta = Taint(body)
    for nb in body.blocks:
        t = nb["term"]
        if nb["cleanup"] or t["k"] != "call" or not (t["ngen"] or "").endswith("iterator::Iterator::next") or len(t["d"]) != 1:
            continue
        l0 = op_local(t["args"][0])
        its = ta.ref_of.get(l0, set()) | {l0}
        names, fields, local_names = [], set(), []
        from flow import backward_calls
        for l in its:
            n_, f_ = _chain_calls(F, body, l)
            names += n_
            fields |= f_
            local_names += [(c["ncallee"] or c.get("ngen") or "?") for c in backward_calls(body, l)[1]]
        if not source_pred(names, fields):
            continue
        tr = Tracker(body)
        tr.seed_call_result(t["d"][0], ("None",), False)
        tr.run()
        if tr.accept and tr.reject:
            out.append((nb, tuple(d for _, d in tr.reject), tr.accept, local_names))
    return out


def loop_early_exits(body, nb_id=None):
    """For each `for`/`while let` loop of `body` (an `Iterator::next` block whose result is branched on): the non-cleanup blocks
    that both the exhausted side (`None`) and the loop body (without coming round to `next`) can reach, minus the pure
    drop/goto tail in front of `return` that early `return`s share with the normal exit.  Non-empty = the loop can be left by
    `break` (or an equivalent jump behind the loop) before the iterator is exhausted.  Returns {next_block_id: (starts, common)}."""
    prep(body)
    g = cfg_of(body)
    rets = {x["id"] for x in body.blocks if x["term"]["k"] == "return"}
    tail = set(rets)
    ch = True
    while ch:
        ch = False
        for x in body.blocks:
            if x["id"] in tail or x["cleanup"]:
                continue
            if x["term"]["k"] in ("goto", "drop") and not [s_ for s_ in x["stmts"] if s_["rv"]["k"] != "storage"] and g.succ[x["id"]] and all(d in tail for d, _ in g.succ[x["id"]]):
                tail.add(x["id"])
                ch = True
    out = {}
    for nb in body.blocks:
        t = nb["term"]
        if nb["cleanup"] or t["k"] != "call" or not (t.get("ngen") or "").endswith("iterator::Iterator::next") or len(t["d"]) != 1:
            continue
        if nb_id is not None and nb["id"] != nb_id:
            continue
        tr = Tracker(body)
        tr.seed_call_result(t["d"][0], ("None",), False)
        tr.run()
        if not (tr.accept and tr.reject):
            continue
        starts = tuple(d for _, d in tr.reject)
        exits = tuple(d for _, d in tr.accept)
        rn = g.reach(exits, avoid={nb["id"]})
        rb = g.reach(starts, avoid={nb["id"]})
        common = {c for c in (rn & rb) - tail if not g.blocks[c]["cleanup"]}
        out[nb["id"]] = (starts, common, rb)
    return out


def receiver_chain_calls(body, local, limit=60, stop=()):
    """callee names met going back from `local` through copies, borrows and the *receiver* (first argument) of each producing call — the
    adaptor chain of an iterator, without the provenance of the other arguments of the calls on it"""
    prep(body)
    defs = {}
    for b in body.blocks:
        if b["cleanup"]:
            continue
        for st in b["stmts"]:
            if len(st["d"]) == 1:
                defs.setdefault(st["d"][0], []).append(("s", st["rv"]))
        t = b["term"]
        if t["k"] == "call" and len(t.get("d") or []) == 1:
            defs.setdefault(t["d"][0], []).append(("c", t))
    names, seen, todo = [], set(), [local]
    stop = set(stop)
    while todo and len(seen) < limit:
        l = todo.pop()
        if l in seen or l is None:
            continue
        seen.add(l)
        if l in stop:
            continue
        for k, d in defs.get(l, ()):
            if k == "s":
                p = d["a"][1] if d["k"] == "use" and d["a"][0] in ("cp", "mv") else d.get("p") if d["k"] in ("ref",) else None
                if p:
                    todo.append(p[0])
            else:
                names.append(d.get("ncallee") or d.get("ngen") or "?")
                if d["args"] and d["args"][0][0] in ("cp", "mv"):
                    todo.append(d["args"][0][1][0])
    return names


def union_sites(F, body, src_locals=None):
    """Where `body` adds *all* elements of a source collection to a set: `set.extend(src)` — or the explicit loop
    `for x in src { set.insert(x) }` over the undiminished source with an insert on every iteration.
    Returns (mutating blocks, "done" blocks after which the union is complete, forms).  `src_locals`: restrict to sources among these
    locals (closed under flows); None = any source."""
    prep(body)
    g = cfg_of(body)
    ta = Taint(body, through="all")
    src = ta.closure(set(src_locals)) if src_locals is not None else None
    mut, done, forms = set(), set(), []
    for b in body.blocks:
        t = b["term"]
        if t["k"] == "call" and not b["cleanup"] and (t.get("ncallee") or "").endswith("::extend") and len(t["args"]) >= 2:
            if src is None or op_local(t["args"][1]) in src:
                mut.add(b["id"])
                done.add(b["id"])
                forms.append("extend")
    # `src.into_iter().fold(set, |mut acc, x| { acc.insert(x); acc })`: the fold's result is the accumulator it was given plus every element
    # of the undiminished source (the closure inserts its element on every path and hands the accumulator back)
    from flow import must_be_copy_of
    for b in body.blocks:
        t = b["term"]
        if t["k"] != "call" or b["cleanup"] or not (t.get("ngen") or "").endswith("iterator::Iterator::fold") or len(t["args"]) != 3:
            continue
        it = op_local(t["args"][0])
        if src is not None and it not in src and not (ta.ref_of.get(it, set()) & src):
            continue
        names = receiver_chain_calls(body, it)
        if [n for n in names if any(n.endswith(x) or (x + "<") in n for x in DROPPING_ADAPTORS)]:
            continue
        for cl in closures_passed(F, body, t):
            prep(cl)
            gc = cfg_of(cl)
            tac = Taint(cl)
            A_, X_ = (2, 3) if cl.kind == "closure" else (1, 2)        # a closure's first parameter is its environment
            ins = {x["id"] for x in cl.blocks if x["term"]["k"] == "call" and not x["cleanup"] and (x["term"].get("ncallee") or "").endswith("::insert")
                   and x["term"]["args"] and (A_ in tac.ref_of.get(op_local(x["term"]["args"][0]), set()) | {op_local(x["term"]["args"][0])})
                   and len(x["term"]["args"]) > 1 and op_local(x["term"]["args"][1]) in Taint(cl).closure({X_})}
            rets = {x["id"] for x in cl.blocks if x["term"]["k"] == "return" and not x["cleanup"]}
            if ins and rets and not (rets & gc.reach((0,), avoid=ins)) and must_be_copy_of(cl, 0, {A_}):
                mut.add(b["id"])
                done.add(b["id"])
                forms.append("fold-insert")
    inserts = {b["id"] for b in body.blocks if b["term"]["k"] == "call" and not b["cleanup"] and (b["term"].get("ncallee") or "").endswith("::insert")}
    if inserts:
        for nb, starts, exits, _names in loops_over(F, body, lambda names, fields: True):
            names = receiver_chain_calls(body, op_local(nb["term"]["args"][0]))
            if [n for n in names if any(n.endswith(x) or (x + "<") in n for x in DROPPING_ADAPTORS)]:
                continue
            if src is not None and op_local(nb["term"]["args"][0]) not in src and not (ta.ref_of.get(op_local(nb["term"]["args"][0]), set()) & src):
                continue
            region = g.reach(starts)
            ins_here = {i for i in inserts if i in region and nb["id"] in g.reach((i,))}
            if not ins_here or nb["id"] in g.reach(starts, avoid=ins_here):
                continue        # an iteration can come round without inserting
            mut |= ins_here
            done |= {d for _s, d in exits}
            forms.append("loop-insert")
    return mut, done, forms


def _every_iteration(self, rule, body, source_pred, sink, descr, what):
    """K5 over a loop: every iteration of the loop(s) over the given source passes a `sink` block before the next element is
    taken (no element is skipped), and no element-dropping adaptor sits between the source and the iterator."""
    prep(body)
    g = cfg_of(body)
    loops = loops_over(self.F, body, source_pred)
    sinks = set(sink.blocks(body))
    ok = bool(loops) and bool(sinks)
    if not loops:
        self.viol(rule, "loop-missing", "%s: no loop over %s found" % (body.path, what), body, body.lines[0])
    for nb, starts, _exits, names in loops:
        dropped = [n for n in names if any(n.endswith(x) or (x + "<") in n for x in DROPPING_ADAPTORS)]
        if dropped:
            ok = False
            self.viol(rule, "element-dropped:%s" % dropped[0].split("::")[-1], "%s: elements of %s can be dropped by %s before the loop" % (body.path, what, dropped[0]), body, nb["term"]["l"])
        if not sinks or nb["id"] in g.reach(starts, avoid=sinks):
            ok = False
            self.viol(rule, "element-skipped", "%s: an element of %s can be skipped (the loop comes round without `%s`)" % (body.path, what, sink.descr()), body, nb["term"]["l"])
    self.inst(rule, "K5 must-follow (per element)", descr, len(loops), ok)
    return ok


Run.every_iteration = _every_iteration


def _loop_exhaustive(self, rule, body, sink, descr, what):
    """Every loop of `body` whose iteration reaches a `sink` block (the per-element work) runs until its iterator is exhausted: it
    has no `break` — an early exit would leave the elements behind it unprocessed.  Early `return`s that share only the final
    drop/return tail are not early exits in this sense (they abandon the whole call)."""
    prep(body)
    g = cfg_of(body)
    sinks = set(sink.blocks(body))
    hit, ok = 0, True
    for nid, (starts, common, rb) in loop_early_exits(body).items():
        if not (sinks & rb):
            continue
        hit += 1
        if common:
            ok = False
            self.viol(rule, "loop-stops-early", "%s: the loop over %s can be left before all elements were handled (break): elements behind that point are skipped" % (body.path, what),
                      body, g.term(nid)["l"])
    if not sinks or not hit:
        ok = False
        self.viol(rule, "loop-missing", "%s: no loop performing `%s` per element of %s found" % (body.path, sink.descr(), what), body, body.lines[0])
    self.inst(rule, "K5 must-follow (per element)", descr, hit, ok)
    return ok


Run.loop_exhaustive = _loop_exhaustive


def _only_propagated_errors(self, rule, fn, descr, allow=()):
    """Every `Err` the function (and its closures) builds lies behind the failing side of some fallible call: the function passes
    on / converts its callees' errors and has no refusal of its own.  With the `Err` edges of all Result-returning calls cut, no
    `Result::Err` aggregate is reachable.  `allow`: (label, guard) pairs naming refusals the property itself demands."""
    F = self.F
    root = self.body(rule, fn)
    if root is None:
        return False
    ok, nsites, nbodies = True, 0, 0
    for b in F.item(root.path):
        if b.nblocks == 49 and b.kind == "closure":
            continue        # tracing callsite closure
        prep(b)
        errs = AggSink("core::result::Result", "Err").blocks(b)
        if not errs:
            continue
        nbodies += 1
        g = cfg_of(b)
        tr = Tracker(b)
        seeded = 0
        for blk in b.blocks:
            t = blk["term"]
            if blk["cleanup"] or t["k"] != "call" or len(t.get("d") or []) != 1:
                continue
            ty = str(b.locals.get(str(t["d"][0]), ""))
            fut = _is_future_local(b, t["d"][0])
            if fut or "result::Result<" in ty or ty.startswith("Result<") or "ControlFlow<" in ty:
                tr.seed_call_result(t["d"][0], ("Err",), fut)
                seeded += 1
        tr.run()
        cut = set(tr.accept)
        for lab, gd in allow:
            n_, acc_, rej_ = gd.edges(b)
            cut |= set(rej_)
        free = g.reach((0,), cut=cut)
        for e in errs:
            nsites += 1
            if e in free:
                ok = False
                self.viol(rule, "own-refusal:%s" % self.root_path(b).split("::")[-1], "%s can answer Err on a path where none of its fallible calls failed: a refusal of its own, "
                          "for an input the property requires it to handle" % b.path, b, g.term(e).get("l") or b.lines[0])
    self.inst(rule, "K4 gate (must-reach dual)", descr, nsites, ok, {"bodies_with_err": nbodies})
    return ok


Run.only_propagated_errors = _only_propagated_errors


def _whole_file_write(self, rule, fn, descr):
    """The function replaces its file whole on every write: fs::write / File::create, or OpenOptions with truncate(true) /
    create_new(true).  An OpenOptions chain that writes without truncating leaves the tail of a longer previous version."""
    from flow import backward_calls
    F = self.F
    n, ok = 0, True
    for b in F.item(fn):
        prep(b)
        for blk in b.blocks:
            t = blk["term"]
            if t["k"] != "call" or blk["cleanup"]:
                continue
            nc = t["ncallee"] or ""
            if nc in ("std::fs::write", "std::fs::File::create", "std::fs::File::create_new"):
                n += 1
            elif nc == "std::fs::OpenOptions::open":
                locs, calls = backward_calls(b, op_local(t["args"][0]))
                names = {}
                for c in calls:
                    cn = (c["ncallee"] or "").split("::")[-1]
                    names[cn] = c["args"][1][1] if len(c["args"]) > 1 and c["args"][1][0] == "c" else None
                writes = names.get("write") == "true" or names.get("append") == "true"
                if writes:
                    n += 1
                    if not (names.get("truncate") == "true" or names.get("create_new") == "true"):
                        ok = False
                        self.viol(rule, "no-truncate:%s" % fn.split("::")[-1], "%s opens its file for writing without truncate(true): saving a shorter state after a longer one leaves a stale tail that no longer parses" % fn, b, t["l"])
    if n < 1:
        ok = False
        self.viol(rule, "writer-missing:%s" % fn.split("::")[-1], "no file-writing call found in %s" % fn)
    self.inst(rule, "K1 forbidden-callee", descr, n, ok)
    return ok


Run.whole_file_write = _whole_file_write


def closure_truth_table(cl, classify, get_pats=("std::collections::hash::map::HashMap::get", "alloc::collections::btree::map::BTreeMap::get"), call_atoms=None, result_atoms=None):
    """Evaluate a small loop-free bool closure as a function of atoms.  `classify(body, cmp_site)` names the atom a comparison tests
    (e.g. "K": the keys are equal) or returns None; the result of a map `get` is the atom "S" (Some).  Returns
    ({atom: True/False, ...} as a frozenset of items → returned bool) or None if the closure cannot be interpreted."""
    prep(cl)
    g = cfg_of(cl)
    sites = {}
    for c in compare_sites(cl):
        a = classify(cl, c)
        if a is None:
            return None
        if isinstance(a, tuple):     # (atom, polarity): the comparison's result IS the atom (polarity True) or its negation
            sites[(c["bb"], c["d"])] = (a[0], "Eq" if a[1] else "Ne")
        else:
            sites[(c["bb"], c["d"])] = (a, c["op"])
    call_atoms = call_atoms or {}
    result_atoms = result_atoms or {}   # callee pattern -> atom: the call returned Ok (a Result whose discriminant is switched on)
    # calls of a local closure (`let pred = |k, t| …; map.retain(|k, _| pred(k, t))`): evaluated as a nested table over the same atoms
    nested = {}
    F_ = cl._facts
    for b_ in cl.blocks:
        t_ = b_["term"]
        if t_["k"] != "call" or b_["cleanup"] or not t_.get("args"):
            continue
        nm_ = t_.get("ngen") or t_.get("ncallee") or ""
        if not nm_.endswith(("ops::function::Fn::call", "ops::function::FnMut::call_mut", "ops::function::FnOnce::call_once")):
            continue
        inner = None
        l0 = op_local(t_["args"][0])
        ty = cl.locals.get(str(l0), "") if l0 is not None else ""
        if "closure@" in ty or "{closure" in ty:
            for c2 in F_.item(F_.root_of(cl).path):
                if c2.kind == "closure" and c2 is not cl and (":%d:" % c2.lines[0]) in ty:
                    inner = c2
        if inner is None:
            return None
        sub = closure_truth_table(inner, classify, get_pats, call_atoms, result_atoms)
        if sub is None:
            return None
        nested[b_["id"]] = sub
    atoms = sorted({a for a, _ in sites.values()} | {a for sub in nested.values() for a in sub[0]} | ({"S"} if any(b["term"]["k"] == "call" and callee_matches(b["term"], list(get_pats)) for b in cl.blocks) else set())
                   | {a for pat, a in call_atoms.items() if any(b["term"]["k"] == "call" and callee_matches(b["term"], [pat]) for b in cl.blocks)}
                   | {a for pat, a in result_atoms.items() if any(b["term"]["k"] == "call" and callee_matches(b["term"], [pat]) for b in cl.blocks)})
    if len(atoms) > 4:
        return None
    table = {}
    import itertools
    for vals in itertools.product([False, True], repeat=len(atoms)):
        env_atoms = dict(zip(atoms, vals))
        env = {}
        bb, steps = 0, 0
        result = None
        while steps < 200:
            steps += 1
            blk = cl.blocks[bb] if cl.blocks[bb]["id"] == bb else next(b for b in cl.blocks if b["id"] == bb)
            for st in blk["stmts"]:
                if len(st["d"]) != 1:
                    continue
                d, rv = st["d"][0], st["rv"]
                if rv["k"] == "bin" and (blk["id"], d) in sites:
                    a, op = sites[(blk["id"], d)]
                    env[d] = env_atoms[a] if op == "Eq" else (not env_atoms[a])
                elif rv["k"] == "use" and rv["a"][0] == "c" and rv["a"][1] in ("true", "false"):
                    env[d] = rv["a"][1] == "true"
                elif rv["k"] == "use" and rv["a"][0] in ("cp", "mv") and len(rv["a"][1]) == 1:
                    env[d] = env.get(rv["a"][1][0])
                    for kind_ in ("opt", "res"):
                        if (kind_, rv["a"][1][0]) in env:
                            env[(kind_, d)] = env[(kind_, rv["a"][1][0])]
                elif rv["k"] == "agg" and rv.get("ak") == "adt" and rv.get("adt") == "core::option::Option" and rv.get("variant") in ("Some", "None"):
                    env[("opt", d)] = rv["variant"] == "Some"     # a freshly built `Some(x)` / `None`: its discriminant is known
                    env[d] = None
                elif rv["k"] == "agg" and rv.get("ak") == "adt" and rv.get("adt") == "core::result::Result" and rv.get("variant") in ("Ok", "Err"):
                    env[("res", d)] = rv["variant"] == "Ok"
                    env[d] = None
                elif rv["k"] == "un" and rv["op"] == "Not":
                    v = env.get(op_local(rv["a"]))
                    env[d] = None if v is None else (not v)
                elif rv["k"] == "discr":
                    v = env.get(("opt", rv["p"][0]))
                    r_ = env.get(("res", rv["p"][0]))
                    if v is not None:
                        env[d] = 1 if v else 0
                    elif r_ is not None:
                        env[d] = 0 if r_ else 1     # Result: Ok = 0, Err = 1
                    else:
                        env[d] = None
                else:
                    env[d] = None
            t = blk["term"]
            if t["k"] == "return":
                result = env.get(0)
                break
            if t["k"] == "goto":
                bb = t["target"] if "target" in t else g.succ[bb][0][0]
                continue
            if t["k"] == "call":
                d = t["d"][0] if len(t.get("d") or []) == 1 else None
                if d is not None:
                    if blk["id"] in nested:
                        sa, stab = nested[blk["id"]]
                        env[d] = stab.get(frozenset((a, env_atoms[a]) for a in sa))
                    elif (blk["id"], d) in sites:
                        a, op = sites[(blk["id"], d)]
                        env[d] = env_atoms[a] if op == "Eq" else (not env_atoms[a])
                    elif callee_matches(t, list(get_pats)):
                        env[("opt", d)] = env_atoms["S"]
                    elif any(callee_matches(t, [pat]) for pat in result_atoms):
                        env[("res", d)] = env_atoms[next(a for pat, a in result_atoms.items() if callee_matches(t, [pat]))]
                    elif any(callee_matches(t, [pat]) for pat in call_atoms):
                        env[d] = env_atoms[next(a for pat, a in call_atoms.items() if callee_matches(t, [pat]))]
                    else:
                        env[d] = None
                nxt = [x for x, k in g.succ[bb] if k != "unwind"] or [x for x, _ in g.succ[bb]]
                bb = nxt[0]
                continue
            if t["k"] == "switch":
                v = env.get(op_local(t["on"]))
                if v is None:
                    return None
                iv = int(v)
                tgt = None
                for val, dst in t["targets"]:
                    if int(val) == iv:
                        tgt = dst
                bb = tgt if tgt is not None else t["otherwise"]
                continue
            if t["k"] in ("drop", "assert", "false_edge", "false_unwind"):
                nxt = [x for x, _ in g.succ[bb]]
                if not nxt:
                    return None
                bb = nxt[0]
                continue
            return None
        if result is None:
            return None
        table[frozenset(env_atoms.items())] = result
    return atoms, table


def _retain_polarity(self, rule, fn, field, expected, descr, classify):
    """K10 on a `retain` closure: the entry is kept exactly when `expected(atoms)` says so, for every combination of the atoms."""
    F = self.F
    body = self.body(rule, fn)
    if body is None:
        return False
    prep(body)
    recv = Taint(body).closure({d for d, r, p in field_reads(body, field)})
    rets = [blk for blk in body.blocks if blk["term"]["k"] == "call" and not blk["cleanup"] and (blk["term"]["ncallee"] or "").endswith("::retain") and op_local(blk["term"]["args"][0]) in recv]
    ok = bool(rets)
    if not rets:
        self.viol(rule, "retain-missing:%s.%s" % (fn.split("::")[-1], field), "%s no longer prunes %s with retain" % (fn, field), body, body.lines[0])
    for blk in rets:
        cls = closures_passed(F, body, blk["term"])
        if len(cls) != 1:
            ok = False
            self.viol(rule, "closure-missing:%s.%s" % (fn.split("::")[-1], field), "cannot find the retain closure of %s on %s" % (fn, field), body, blk["term"]["l"])
            continue
        tt = closure_truth_table(cls[0], classify)
        if tt is None:
            ok = False
            self.viol(rule, "not-evaluated:%s.%s" % (fn.split("::")[-1], field), "the retain closure of %s on %s could not be evaluated as a function of (key equal, type equal, stored)" % (fn.split("::")[-1], field), cls[0], cls[0].lines[0])
            continue
        atoms, table = tt
        for k, v in table.items():
            env = dict(k)
            if v != expected(env):
                ok = False
                self.viol(rule, "polarity:%s.%s" % (fn.split("::")[-1], field), "%s keeps/drops the wrong %s entries: with %s the entry is %s" % (
                    fn.split("::")[-1], field, ", ".join("%s=%s" % kv for kv in sorted(env.items())), "kept" if v else "dropped"), cls[0], cls[0].lines[0])
                break
    self.inst(rule, "K10 polarity", descr, len(rets), ok)
    return ok


Run.retain_polarity = _retain_polarity
