"""K8 — no panic-capable construct reachable from a parser entry point inside workspace code."""
import re

from cfg import cfg_of, op_str
from facts import norm
from flow import Taint, Tracker, callee_matches, op_local, prep
from rules import REL_NEG, REL_SWAP, Run, compare_sites

PANIC_CALLEES = [
    "core::option::Option::unwrap", "core::option::Option::expect",
    "core::result::Result::unwrap", "core::result::Result::expect",
    "core::result::Result::unwrap_err", "core::result::Result::expect_err",
    "core::panicking::panic", "core::panicking::panic_fmt", "core::panicking::panic_nounwind",
    "core::panicking::panic_explicit", "core::panicking::unreachable_display", "core::panicking::panic_display",
    "core::panicking::assert_failed", "core::panicking::panic_str_2015", "std::rt::begin_panic",
    "std::rt::panic_fmt", "core::panicking::panic_const::*",
    "core::ops::index::Index::index", "core::ops::index::IndexMut::index_mut",
    "core::slice::<impl [T]>::copy_from_slice", "core::slice::<impl [T]>::clone_from_slice",
    "core::slice::<impl [T]>::split_at", "core::slice::<impl [T]>::split_at_mut",
    "core::slice::<impl [T]>::chunks", "core::slice::<impl [T]>::chunks_exact", "core::slice::<impl [T]>::windows",
    "core::slice::<impl [T]>::swap", "core::slice::<impl [T]>::copy_within",
    "core::str::<impl str>::split_at",
    "alloc::string::String::remove", "alloc::string::String::insert", "alloc::string::String::insert_str",
    "alloc::string::String::drain", "alloc::string::String::split_off", "alloc::string::String::replace_range",
    "alloc::vec::Vec::remove", "alloc::vec::Vec::swap_remove", "alloc::vec::Vec::insert", "alloc::vec::Vec::drain",
    "alloc::vec::Vec::split_off",
    "core::cell::RefCell::borrow", "core::cell::RefCell::borrow_mut",
    "*<impl core::ops::arith::Div for ruint::Uint<BITS, LIMBS>>::div",
    "*<impl core::ops::arith::Rem for ruint::Uint<BITS, LIMBS>>::rem",
    "*<impl ruint::Uint<BITS, LIMBS>>::to", "*<impl ruint::Uint<BITS, LIMBS>>::from_limbs_slice",
    "*for core::time::Duration>::add", "*for core::time::Duration>::sub", "*for core::time::Duration>::mul",
    "*for std::time::SystemTime>::add", "*for std::time::SystemTime>::sub",
    "*for std::time::Instant>::add", "*for std::time::Instant>::sub",
    "core::time::Duration::from_secs_f64", "core::time::Duration::from_secs_f32",
    "core::time::Duration::new",
    "core::char::from_digit", "core::num::<impl u32>::pow", "core::num::<impl u64>::pow", "core::num::<impl usize>::pow",
    "core::num::<impl i32>::abs", "core::num::<impl i64>::abs",
    "core::iter::traits::iterator::Iterator::step_by",
]
ARITH_TRAIT_METHODS = {"core::ops::arith::Add::add", "core::ops::arith::Sub::sub", "core::ops::arith::Mul::mul", "core::ops::arith::AddAssign::add_assign",
                       "core::ops::arith::SubAssign::sub_assign", "core::ops::arith::MulAssign::mul_assign", "core::ops::arith::Div::div"}
PANICKING_ARITH_TYPES = ("std::time::SystemTime", "std::time::Instant", "core::time::Duration", "tokio::time::instant::Instant")
RUINT_FROM = "ruint::from::<impl ruint::Uint<BITS, LIMBS>>::from"
SAFE_UINT_FROM_TYPES = {"u8", "u16", "u32", "u64", "u128", "usize", "bool"}

SERDE_ENTRY = re.compile(r"(^|::)(from_slice|from_str|from_reader|from_value|from_read|from_read_ref|deserialize|from_bytes|decode)$")
DESER_TRAITS = ("serde::de::Deserialize", "serde::de::Visitor", "serde::de::DeserializeSeed",
                "serde::de::DeserializeOwned", "core::str::traits::FromStr", "core::convert::TryFrom")


def _pm(nc, pats):
    if not nc:
        return False
    for p in pats:
        if p.endswith("*"):
            if nc.startswith(p[:-1]):
                return True
        elif p.startswith("*"):
            if nc.endswith(p[1:]):
                return True
        elif nc == p:
            return True
    return False


def _adt_names_in(tystr, F):
    out = set()
    for m in re.finditer(r"[A-Za-z_][A-Za-z0-9_]*(?:::[A-Za-z_][A-Za-z0-9_]*)+", tystr or ""):
        if m.group(0) in F.adts:
            out.add(m.group(0))
    return out


def type_closure(F, roots):
    seen = set(roots)
    todo = list(roots)
    while todo:
        a = F.adts.get(todo.pop())
        if not a:
            continue
        for v in a["variants"]:
            for f in v["fields"]:
                for n in _adt_names_in(f["ty"], F):
                    if n not in seen:
                        seen.add(n)
                        todo.append(n)
    return seen


FMT_TRAITS = {"debug": "core::fmt::Debug", "display": "core::fmt::Display", "lower_hex": "core::fmt::LowerHex", "upper_hex": "core::fmt::UpperHex",
              "lower_exp": "core::fmt::LowerExp", "upper_exp": "core::fmt::UpperExp", "binary": "core::fmt::Binary", "octal": "core::fmt::Octal", "pointer": "core::fmt::Pointer"}


def reach_from(F, entries, stop=()):
    """Workspace bodies reachable from the entry items through resolved calls, constructed closures,
    function-item operands, unresolved workspace trait methods (all impls), and — for serde-style
    decode calls instantiated at a workspace type — the Deserialize/Visitor impls of the type closure."""
    seen = {}
    todo = []

    def add(b, why):
        if b.path not in seen:
            seen[b.path] = why
            todo.append(b)

    impl_index = {}
    for b in F.bodies.values():
        if b.trait and b.kind == "assoc_fn":
            impl_index.setdefault((b.trait, b.npath.split("::")[-1]), []).append(b)
    by_selfty_trait = {}
    for b in F.bodies.values():
        if b.trait and b.self_ty:
            by_selfty_trait.setdefault(b.trait, []).append(b)

    for e in entries:
        for b in F.item(e):
            add(b, "entry")
    while todo:
        b = todo.pop()
        for a in b.aggregates_raw:
            if a["kind"] in ("closure", "coroutine", "coroutine_closure"):
                t = F.body(a["adt"])
                if t is not None:
                    add(t, "closure of " + b.npath)
        for c in b.calls_raw:
            nc = c["ncallee"]
            if nc and _pm(nc, stop):
                continue
            if nc and nc in F.by_npath:
                for t in F.by_npath[nc]:
                    add(t, "called from " + b.npath)
                    # async fn: its coroutine body is constructed inside
            elif c["ngen"] and not c["resolved"]:
                # unresolved trait method of a workspace trait: all impls
                parts = c["ngen"].rsplit("::", 1)
                if len(parts) == 2:
                    for t in impl_index.get((parts[0], parts[1]), []):
                        add(t, "impl of %s reached from %s" % (c["ngen"], b.npath))
            # serde-style decode instantiated at workspace types
            if nc and SERDE_ENTRY.search(nc) and nc not in F.by_npath:
                roots = _adt_names_in(c["targs"], F)
                if roots:
                    clo = type_closure(F, roots)
                    for tr in DESER_TRAITS[:3]:
                        for t in by_selfty_trait.get(tr, []):
                            st = t.self_ty or ""
                            if any(a in st for a in clo):
                                for bb in F.item(t.path):
                                    add(bb, "deserialisation of %s via %s" % (sorted(roots)[0], nc))
            # formatting: `{:?}` / `{}` of a workspace type runs its Debug/Display impl (handed over as a function pointer by
            # format_args!, so there is no call edge) — also inside logging macros, whose arguments are rendered at run time
            if nc and nc.startswith("core::fmt::rt::Argument::new_"):
                tr = FMT_TRAITS.get(nc.rsplit("new_", 1)[1])
                roots = _adt_names_in(c["targs"], F) if tr else set()
                if roots:
                    clo = type_closure(F, roots)
                    for tname in (tr, "core::fmt::Debug") if tr != "core::fmt::Debug" else (tr,):
                        for t in by_selfty_trait.get(tname, []):
                            st = t.self_ty or ""
                            if any(st == a or st.startswith(a + "<") or (a + "<") in st or st.endswith(a) for a in clo) and not t.mac:
                                for bb in F.item(t.path):
                                    add(bb, "formatting of %s (%s) in %s" % (sorted(roots)[0], tname.split("::")[-1], b.npath))
        # function items passed as values
        try:
            blocks = b.blocks
        except KeyError:
            blocks = []
        for blk in blocks:
            ops = []
            for s in blk["stmts"]:
                rv = s["rv"]
                for k in ("a", "b"):
                    if k in rv and isinstance(rv[k], list):
                        ops.append(rv[k])
                ops.extend(rv.get("ops", []))
            t = blk["term"]
            if t["k"] == "call":
                ops.extend(t["args"])
            for o in ops:
                if o and o[0] == "f":
                    for tb in F.by_npath.get(norm(o[1]), []):
                        add(tb, "fn item used in " + b.npath)
    return seen


def _const_operand(o):
    return o[0] == "c"


UBITS = {"u8": 8, "u16": 16, "u32": 32, "u64": 64, "u128": 128, "usize": 64, "bool": 1}
LOG_MACROS = {"trace", "debug", "info", "warn", "error", "event", "span", "debug_span", "info_span",
              "trace_span", "warn_span", "error_span", "log", "instrument"}


def _ubound(F, body, o, depth=0):
    """Upper bound of an unsigned operand that was widened from a narrower unsigned type, else None."""
    if o[0] == "c":
        return _const_int(o, F)
    if o[0] not in ("cp", "mv") or len(o[1]) != 1 or depth > 3:
        return None
    l = o[1][0]
    defs = []
    for b in body.blocks:
        for s in b["stmts"]:
            if s["d"] == [l]:
                defs.append(("s", s["rv"]))
        t = b["term"]
        if t["k"] == "call" and t["d"] == [l]:
            defs.append(("c", t))
    if len(defs) != 1:
        return None
    k, d = defs[0]
    if k == "s":
        if d["k"] == "cast" and d["ck"].startswith("IntToInt"):
            src = d["a"]
            if src[0] in ("cp", "mv") and len(src[1]) == 1:
                ty = body.locals.get(str(src[1][0]))
                if ty in UBITS:
                    return 2 ** UBITS[ty] - 1
            return _ubound(F, body, src, depth + 1)
        if d["k"] == "use":
            return _ubound(F, body, d["a"], depth + 1)
        return None
    nc = norm(d.get("callee")) or ""
    m = re.match(r"^<(u\d+|usize) as core::convert::From<(u\d+|bool)>>::from$", nc) or \
        re.match(r"^core::convert::num::<impl core::convert::From<(u\d+|bool)> for (u\d+|usize)>::from$", nc)
    if m:
        src = m.group(2) if nc.startswith("<") else m.group(1)
        if src in UBITS:
            return 2 ** UBITS[src] - 1
    return None


def _overflow_bounded(F, body, a):
    """Overflow(Add|Mul) assert whose operands are both bounded (constants or values widened from a narrower
    unsigned type) so that the result fits the operation's type."""
    m = re.match(r"Overflow\((Add|Mul)\)", a["kind"])
    if not m or len(a["ops"]) != 2:
        return False
    try:
        blocks = body.blocks
    except KeyError:
        return False
    bounds = [_ubound(F, body, o) for o in a["ops"]]
    if any(b is None for b in bounds):
        return False
    # result type = type of the non-constant operand
    ty = None
    for o in a["ops"]:
        if o[0] in ("cp", "mv") and len(o[1]) == 1:
            ty = body.locals.get(str(o[1][0]))
    if ty not in UBITS:
        return False
    r = bounds[0] + bounds[1] if m.group(1) == "Add" else bounds[0] * bounds[1]
    return r < 2 ** UBITS[ty]


def panic_sites(F, body):
    """Candidate panic-capable sites of one body: list of dicts(kind, shape, line, bb, mac)."""
    out = []
    for a in body.asserts_raw:
        if a["kind"].startswith("ResumedAfter"):
            continue
        if a["ops"] and all(_const_operand(o) for o in a["ops"]):
            continue  # constant-folded by rustc (arithmetic_overflow is `forbid` in this workspace)
        if _overflow_bounded(F, body, a):
            continue  # operands widened from a narrower unsigned type: cannot overflow
        out.append({"kind": "assert:" + a["kind"], "shape": ",".join("const" if _const_operand(o) else "var" for o in a["ops"]),
                    "line": a["line"], "bb": a["bb"], "mac": a.get("mac"), "ops": a["ops"]})
    for c in body.calls_raw:
        nc, ng = c["ncallee"], c["ngen"]
        hit = None
        if c.get("mac") in LOG_MACROS:
            continue  # tracing/log macro internals (static callsite field lookup); user-written argument expressions keep their own span
        if _pm(nc, PANIC_CALLEES):
            hit = nc
        elif _pm(ng, PANIC_CALLEES):
            hit = ng
        elif ng in ARITH_TRAIT_METHODS and c["arg_tys"] and any(c["arg_tys"][0].lstrip("&").startswith(t) for t in PANICKING_ARITH_TYPES):
            # operator impls of std time types panic on overflow/underflow in every build profile
            hit = "%s on %s" % (ng.split("::")[-1], c["arg_tys"][0])
        elif ng in ("core::ops::arith::Div::div", "core::ops::arith::Rem::rem", "core::ops::arith::DivAssign::div_assign", "core::ops::arith::RemAssign::rem_assign") \
                and c["arg_tys"] and c["arg_tys"][0].lstrip("&").startswith("ruint::Uint"):
            hit = "%s on %s (division by zero panics)" % (ng.split("::")[-1], c["arg_tys"][0])
        elif nc == RUINT_FROM:
            at = c["arg_tys"][0] if c["arg_tys"] else "?"
            if at not in SAFE_UINT_FROM_TYPES and not c["consts"]:
                hit = nc + "(" + at + ")"
        if hit:
            shape = c["arg_tys"][0] if c["arg_tys"] else ""
            if ng in ("core::ops::index::Index::index", "core::ops::index::IndexMut::index_mut") and len(c["arg_tys"]) > 1:
                shape = "%s[%s]" % (c["arg_tys"][0], c["arg_tys"][1])
            out.append({"kind": "call:" + hit, "shape": shape, "line": c["line"], "bb": c["bb"], "mac": c.get("mac")})
    return out


# ---------------------------------------------------------------- guard recognisers

def _const_int(o, F, env=None):
    """Value of an operand when it is an integer constant (literal, named const, or a local folded in env)."""
    if o[0] == "c":
        s = o[1]
        m = re.match(r"^(-?\d+)(?:_[iu](?:8|16|32|64|128|size))?$", s)
        if m:
            return int(m.group(1))
        k = F.consts.get(s)
        if k is not None:
            try:
                return int(k["value"])
            except ValueError:
                return None
        return None
    if o[0] in ("cp", "mv") and env is not None and len(o[1]) == 1:
        return env.get(o[1][0])
    if o[0] in ("cp", "mv") and env is not None and len(o[1]) == 2 and o[1][1] == ".0":
        return env.get(("pair", o[1][0]))
    return None


def fold_consts(F, body):
    """Tiny constant folder over single-assignment locals: Add/Sub/Mul (plain and WithOverflow) of constants."""
    env = {}
    changed = True
    ndefs = {}
    for b in body.blocks:
        for s in b["stmts"]:
            if len(s["d"]) == 1:
                ndefs[s["d"][0]] = ndefs.get(s["d"][0], 0) + 1
        t = b["term"]
        if t["k"] == "call" and len(t["d"]) == 1:
            ndefs[t["d"][0]] = ndefs.get(t["d"][0], 0) + 1
    while changed:
        changed = False
        for b in body.blocks:
            for s in b["stmts"]:
                if len(s["d"]) != 1 or ndefs.get(s["d"][0]) != 1:
                    continue
                d = s["d"][0]
                rv = s["rv"]
                v = None
                key = d
                if rv["k"] == "use":
                    v = _const_int(rv["a"], F, env)
                elif rv["k"] == "cast" and rv["ck"].startswith("IntToInt"):
                    v = _const_int(rv["a"], F, env)
                elif rv["k"] == "bin":
                    a, bb_ = _const_int(rv["a"], F, env), _const_int(rv["b"], F, env)
                    if a is not None and bb_ is not None:
                        op = rv["op"]
                        base = op.replace("WithOverflow", "").replace("Unchecked", "")
                        if base == "Add":
                            v = a + bb_
                        elif base == "Sub":
                            v = a - bb_
                        elif base == "Mul":
                            v = a * bb_
                        elif base == "Div" and bb_ != 0:
                            v = a // bb_
                        elif base == "Rem" and bb_ != 0:
                            v = a % bb_
                        if v is not None and "WithOverflow" in op:
                            key = ("pair", d)
                if v is not None and env.get(key) != v:
                    env[key] = v
                    changed = True
    return env


def _len_sources(body, base_roots, taint):
    """Locals holding `len()` of a value aliasing one of base_roots."""
    out = set()
    for b in body.blocks:
        t = b["term"]
        if t["k"] == "call" and t["args"] and (t["ncallee"] or "").endswith("::len") and len(t["d"]) == 1:
            a = op_local(t["args"][0])
            if a in base_roots:
                out.add(t["d"][0])
        for s in b["stmts"]:
            rv = s["rv"]
            if rv["k"] == "un" and rv["op"] in ("PtrMetadata", "Len") and op_local(rv["a"]) in base_roots and len(s["d"]) == 1:
                out.add(s["d"][0])
            if rv["k"] == "other" and "Len" in rv.get("dbg", ""):
                pass
    return out


def sub_guarded(F, body, site):
    """Is the `a - b` overflow assert at `site` dominated by a comparison that establishes b <= a?  (`if a < b { return Err } … a - b`,
    the hand-written form of `a.checked_sub(b).ok_or(..)?`.)  Operands are matched by the local / constant they are copies of."""
    from rules import compare_sites, REL_SWAP, REL_NEG
    from flow import copy_root
    prep(body)
    g = cfg_of(body)
    env = fold_consts(F, body)
    if len(site.get("ops") or []) != 2:
        return False, "not a binary assert"

    # the assert checks the result of `SubWithOverflow(a, b)`; its operands are recorded on the assert
    def ident(o):
        k = _const_int(o, F, env)
        if k is not None:
            return ("k", k)
        if o[0] in ("cp", "mv"):
            r = copy_root(body, o)
            return ("p", tuple(r)) if r else None
        return None
    a, b = ident(site["ops"][0]), ident(site["ops"][1])
    if a is None or b is None:
        return False, "operands not identifiable"
    tr = Tracker(body)
    n = 0
    for c in compare_sites(body):
        x, y = ident(c["a"]), ident(c["b"])
        if x is None or y is None:
            continue
        rel = None
        if (x, y) == (a, b):
            rel = c["op"]                 # a REL b
        elif (x, y) == (b, a):
            rel = REL_SWAP[c["op"]]
        if rel is None:
            continue
        n += 1
        if rel in ("Ge", "Gt", "Eq"):     # a >= b, a > b, a == b  ⇒  b <= a
            tr.seed_bool(c["d"], True)
        elif REL_NEG[rel] in ("Ge", "Gt"):  # a < b / a <= b: its *false* side gives a >= b / a > b
            tr.seed_bool(c["d"], False)
    if not n:
        return False, "no comparison of the two operands"
    tr.run()
    if tr.accept and site["bb"] not in g.reach((0,), cut=tr.accept):
        return True, "dominated by a comparison establishing subtrahend <= minuend"
    return False, "a path reaches the subtraction without the comparison"


def index_guarded(F, body, site):
    """Is the indexing / bounds-check at `site` dominated by a length test that implies it is in range?

    Recognises `x[C]`, `x[..C]`, `x[C..]`, `x[A..B]` with constant bounds where every path from entry to the
    site crosses an edge on which `len(x) >= need` holds (need = C+1 for an element, max bound for a range)."""
    prep(body)
    g = cfg_of(body)
    env = fold_consts(F, body)
    blk = g.blocks[site["bb"]]
    t = blk["term"]
    need = None
    base = None
    if site["kind"].startswith("assert:BoundsCheck"):
        # ops = [len, index]
        idx = _const_int(site["ops"][1], F, env)
        if idx is None:
            return False, "index not constant"
        need = idx + 1
        lenl = op_local(site["ops"][0])
        # the len local is computed from the indexed place: find its source
        base = None
        for b in body.blocks:
            for s in b["stmts"]:
                if s["d"] == [lenl] and s["rv"]["k"] in ("un", "other", "use"):
                    base = op_local(s["rv"].get("a")) if s["rv"].get("a") else None
        if base is None:
            return False, "cannot find indexed base"
    elif t["k"] == "call" and (t["ngen"] or "").endswith("index::Index::index") or (t["k"] == "call" and (t["ngen"] or "").endswith("index::IndexMut::index_mut")):
        base = op_local(t["args"][0])
        arg = t["args"][1]
        val = _const_int(arg, F, env)
        if val is not None:
            need = val + 1
        else:
            # range aggregate?
            l = op_local(arg)
            rng = None
            for b in body.blocks:
                for s in b["stmts"]:
                    if s["d"] == [l] and s["rv"]["k"] == "agg":
                        rng = s["rv"]
            if rng is None or not rng["adt"].startswith("core::ops::range::Range"):
                return False, "index is neither a constant nor a constant range"
            bounds = [_const_int(o, F, env) for o in rng["ops"]]
            if any(x is None for x in bounds):
                return False, "range bound not constant"
            need = max(bounds) if bounds else 0
            if rng["adt"].endswith("RangeInclusive") or rng["adt"].endswith("RangeToInclusive"):
                need += 1
            if len(bounds) == 2 and bounds[0] > bounds[1]:
                return False, "constant range start > end"
    else:
        return False, "not an index site"
    if need is not None and need <= 0:
        return True, "empty constant range"
    ta = Taint(body)
    roots = ta.closure({base})
    # go backwards too: things base was derived from (refs / derefs)
    back = {base}
    changed = True
    while changed:
        changed = False
        for b in body.blocks:
            for s in b["stmts"]:
                if len(s["d"]) == 1 and s["d"][0] in back and s["rv"]["k"] in ("ref", "use", "cast"):
                    src = op_local(s["rv"].get("a") or ["cp", s["rv"].get("p")])
                    if src is not None and src not in back:
                        back.add(src)
                        changed = True
            t2 = b["term"]
            if t2["k"] == "call" and len(t2["d"]) == 1 and t2["d"][0] in back and t2["args"]:
                nc = t2["ncallee"] or ""
                if nc.endswith("Deref>::deref") or nc.endswith("::as_slice") or nc.endswith("AsRef>::as_ref") or nc.endswith("::as_bytes") \
                        or nc.endswith("::as_ref") or nc.endswith("Index<I>>::index") and False:
                    src = op_local(t2["args"][0])
                    if src is not None and src not in back:
                        back.add(src)
                        changed = True
    alias = set()
    for r in back:
        alias |= ta.closure({r})
    lens = _len_sources(body, alias, ta)
    if not lens:
        return False, "no len() of the indexed value in this function"
    lens_t = ta.closure(lens)
    tr = Tracker(body)
    nseed = 0
    for c in compare_sites(body):
        la, lb = op_local(c["a"]), op_local(c["b"])
        ca, cb = _const_int(c["a"], F, env), _const_int(c["b"], F, env)
        rel = None
        k = None
        if la in lens_t and cb is not None:
            rel, k = c["op"], cb
        elif lb in lens_t and ca is not None:
            rel, k = REL_SWAP[c["op"]], ca
        if rel is None:
            continue

        # relation rel(len, k).  On which edge does len >= need hold?
        def implies(r):
            return (r == "Ge" and k >= need) or (r == "Gt" and k >= need - 1) or (r == "Eq" and k >= need)
        if implies(rel):
            tr.seed_bool(c["d"], True)
            nseed += 1
        elif implies(REL_NEG[rel]):
            tr.seed_bool(c["d"], False)
            nseed += 1
    if not nseed:
        return False, "no length comparison implying len >= %d" % need
    tr.run()
    if not tr.accept:
        return False, "length comparison does not decide a branch"
    reach = g.reach((0,), cut=tr.accept)
    if site["bb"] in reach:
        return False, "index reachable without passing len >= %d" % need
    return True, "dominated by len >= %d" % need


# `&self.to_hex()[0..6]` in the Debug impls of the fixed-size address types: the string is the hex form of a fixed number of bytes
# (confirmed by reading each to_hex), so the constant range is always in bounds.  NetworkAddress's Debug is NOT in this table: its
# RecordKey variant slices the hex of an arbitrary-length key.
FIXED_LEN_HEX = set()
FIXED_LEN_HEX_FNS = {
    "<ant_protocol::storage::address::chunk::ChunkAddress as core::fmt::Debug>::fmt": "to_hex() = hex::encode(XorName: 32 bytes) = 64 chars >= 6",
    "<ant_protocol::storage::address::scratchpad::ScratchpadAddress as core::fmt::Debug>::fmt": "to_hex() = hex::encode(XorName: 32 bytes) = 64 chars >= 6",
    "<ant_protocol::storage::address::transaction::TransactionAddress as core::fmt::Debug>::fmt": "to_hex() = hex::encode(XorName: 32 bytes) = 64 chars >= 6",
    "<ant_registers::address::RegisterAddress as core::fmt::Debug>::fmt": "to_hex() = hex::encode(32-byte meta ++ 48-byte owner key) = 160 chars >= 6",
}


def no_panic_reach(self, rule, entries, descr=None, suppress=None, stop=(), floor_bodies=1):
    """K8.  suppress: {(root fn npath, kind, shape): reason}"""
    suppress = suppress or {}
    F = self.F
    for e in entries:
        if not F.item(e):
            self.viol(rule, "anchor-missing:%s" % e, "parser entry point not found: %s" % e)
    seen = reach_from(F, entries, stop=stop)
    nsites = 0
    discharged = []
    used = set()
    ok = True
    for p, why in seen.items():
        b = F.bodies[p] if p in F.bodies else F.body(p)
        for s in panic_sites(F, b):
            nsites += 1
            root = self.root_path(b)
            key = (root, s["kind"], s["shape"])
            if s["kind"].startswith("assert:BoundsCheck") or "index::Index" in s["kind"]:
                g_ok, g_why = index_guarded(F, b, s)
                if g_ok:
                    discharged.append({"fn": root, "site": s["kind"], "line": s["line"], "by": g_why})
                    continue
            if s["kind"].startswith("assert:Overflow(Sub"):
                try:
                    g_ok, g_why = sub_guarded(F, b, s)
                except Exception:
                    g_ok, g_why = False, ""
                if g_ok:
                    discharged.append({"fn": root, "site": s["kind"], "line": s["line"], "by": g_why})
                    continue
            if key in suppress:
                used.add(key)
                continue
            if (root, s["kind"].split(":")[-1] if False else s["kind"]) in FIXED_LEN_HEX or any(root == r for r in FIXED_LEN_HEX_FNS) and "index::Index" in s["kind"] and "String" in s["shape"]:
                discharged.append({"fn": root, "site": s["kind"], "line": s["line"], "by": FIXED_LEN_HEX_FNS.get(root, "fixed-length hex string")})
                continue
            ok = False
            self.viol(rule, "panic-site:%s|%s|%s" % key,
                      "panic-capable %s (%s) in %s is reachable from %s [%s]" % (s["kind"], s["shape"], root, entries[0], why),
                      b, s["line"])
    if len(seen) < floor_bodies:
        ok = False
        self.viol(rule, "instance-floor", "only %d bodies reachable from %s (floor %d)" % (len(seen), entries, floor_bodies))
    self.inst(rule, "K8 no-panic reach", descr or "no panic-capable site reachable from %s" % ", ".join(norm(e).split("::")[-1] for e in entries),
              len(seen), ok, {"reachable_bodies": len(seen), "candidate_sites": nsites, "discharged_by_guard": discharged,
                              "suppressed": [{"fn": k[0], "site": k[1], "shape": k[2], "reason": suppress[k]} for k in sorted(used)]})
    return ok


Run.no_panic_reach = no_panic_reach
