"""K7 — extraction of match-shaped tables (switch value → effect) from MIR."""
import re

from cfg import cfg_of
from flow import callee_matches, prep


def int_of_const(s):
    m = re.match(r"^(-?\d+)(?:_[iu](?:8|16|32|64|128|size))?$", s)
    return int(m.group(1)) if m else None


def follow(g, start, marker, limit=8):
    """Walk the linear chain starting at block `start` (goto / single successor / call continuation) and
    return the first marker value found, or None."""
    b = start
    seen = set()
    for _ in range(limit):
        if b in seen:
            return None
        seen.add(b)
        blk = g.blocks[b]
        m = marker(blk)
        if m is not None:
            return m
        ss = g.succ[b]
        if len(ss) != 1:
            return None
        b = ss[0][0]
    return None


def m_call_const(pats, arg_index):
    def f(blk):
        t = blk["term"]
        if t["k"] == "call" and callee_matches(t, pats):
            a = t["args"][arg_index]
            if a[0] == "c":
                return a[1]
            return "<non-const>"
        return None
    return f


def switch_table_const_arg(body, pats, arg_index, min_targets=2):
    """like switch_table(.., m_call_const(..)), but also reads `let tag = match x { A => 0, B => 1 }; f(tag)`: each arm's constant is
    followed through the variable into the one call after the match"""
    prep(body)
    g = cfg_of(body)
    blk = widest_switch(body, min_targets)
    if blk is None:
        return None
    t = blk["term"]

    def walk(start):
        env, b, seen = {}, start, set()
        for _ in range(12):
            if b in seen:
                return None
            seen.add(b)
            bb = g.blocks[b]
            for st in bb["stmts"]:
                if len(st["d"]) == 1:
                    rv = st["rv"]
                    if rv["k"] == "use" and rv["a"][0] == "c":
                        env[st["d"][0]] = rv["a"][1]
                    elif rv["k"] in ("use", "cast") and rv["a"][0] in ("cp", "mv") and len(rv["a"][1]) == 1 and rv["a"][1][0] in env:
                        env[st["d"][0]] = env[rv["a"][1][0]]
                    else:
                        env.pop(st["d"][0], None)
            tt = bb["term"]
            if tt["k"] == "call" and callee_matches(tt, pats):
                a = tt["args"][arg_index]
                if a[0] == "c":
                    return a[1]
                if a[0] in ("cp", "mv") and len(a[1]) == 1 and a[1][0] in env:
                    return env[a[1][0]]
                return "<non-const>"
            ss = g.succ[b]
            if len(ss) != 1:
                return None
            b = ss[0][0]
        return None
    out = {}
    for v, dst in t["targets"]:
        out[int(v)] = walk(dst)
    if g.term(t["otherwise"])["k"] != "unreachable":
        out["otherwise"] = walk(t["otherwise"])
    return out


def m_call_name(pats=None):
    def f(blk):
        t = blk["term"]
        if t["k"] == "call" and (pats is None or callee_matches(t, pats)):
            return t["ncallee"]
        return None
    return f


def m_agg_variant(adt_suffix):
    def f(blk):
        for s in blk["stmts"]:
            rv = s["rv"]
            if rv["k"] == "agg" and rv["ak"] == "adt" and rv["adt"].endswith(adt_suffix):
                return rv["variant"]
        return None
    return f


def m_const_assign():
    """first `local = const <str>` statement (e.g. match arms returning string literals)"""
    def f(blk):
        for s in blk["stmts"]:
            rv = s["rv"]
            if rv["k"] == "use" and rv["a"][0] == "c" and rv["a"][1].startswith('"'):
                return rv["a"][1].strip('"')
        return None
    return f


def widest_switch(body, min_targets=2):
    prep(body)
    g = cfg_of(body)
    best = None
    for b in body.blocks:
        t = b["term"]
        if not b["cleanup"] and t["k"] == "switch" and len(t["targets"]) >= min_targets:
            if best is None or len(t["targets"]) > len(best["term"]["targets"]):
                best = b
    return best


def switch_table(body, marker, block=None, min_targets=2):
    """{switch value (int) or 'otherwise': marker}"""
    prep(body)
    g = cfg_of(body)
    blk = block or widest_switch(body, min_targets)
    if blk is None:
        return None
    t = blk["term"]
    out = {}
    for v, dst in t["targets"]:
        out[int(v)] = follow(g, dst, marker)
    if g.term(t["otherwise"])["k"] != "unreachable":
        out["otherwise"] = follow(g, t["otherwise"], marker)
    return out


def variant_names(F, adt):
    a = F.adts.get(adt)
    if a is None:
        return None
    return {v["idx"]: v["name"] for v in a["variants"]}


def arm_targets(F, body, adt, min_frac=0.75):
    """{variant name: [target blocks]} of the match over enum `adt` in body (the widest switch whose explicit target
    count covers most of the enum's variants).  Variants handled by `otherwise` are mapped to the otherwise block."""
    names = variant_names(F, adt)
    if names is None:
        return None, None
    blk = widest_switch(body, min_targets=max(2, int(len(names) * min_frac)))
    if blk is None:
        return None, None
    t = blk["term"]
    out = {}
    for v, dst in t["targets"]:
        nm = names.get(int(v))
        if nm is not None:
            out.setdefault(nm, []).append(dst)
    g = cfg_of(body)
    if g.term(t["otherwise"])["k"] != "unreachable":
        for nm in names.values():
            if nm not in out:
                out[nm] = [t["otherwise"]]
    return out, blk["id"]


def external_enum_variants(repo, crate, relpath, enum_name):
    """{index: variant name} of a field-less-or-not enum of a third-party crate, read from the source of the version Cargo.lock pins
    (the fact files hold workspace ADTs only).  None if the source is not found."""
    import glob, os, re
    ver = None
    try:
        lock = open(os.path.join(repo, "Cargo.lock")).read()
    except OSError:
        return None
    m = re.search(r'name = "%s"\nversion = "([^"]+)"' % re.escape(crate), lock)
    if m:
        ver = m.group(1)
    cands = glob.glob(os.path.expanduser("~/.cargo/registry/src/*/%s-%s/%s" % (crate, ver or "*", relpath)))
    if not cands:
        return None
    src = open(sorted(cands)[-1]).read()
    m = re.search(r"pub enum %s\b[^{]*\{" % re.escape(enum_name), src)
    if not m:
        return None
    i, depth, body = m.end(), 1, []
    while i < len(src) and depth:
        c = src[i]
        if c == "{":
            depth += 1
        elif c == "}":
            depth -= 1
        if depth:
            body.append(c)
        i += 1
    text = re.sub(r"//[^\n]*", "", "".join(body))
    text = re.sub(r"#\[[^\]]*\]", "", text)
    names, depth, cur = [], 0, ""
    for c in text:
        if c in "({<":
            depth += 1
        elif c in ")}>":
            depth -= 1
        elif c == "," and depth == 0:
            names.append(cur)
            cur = ""
            continue
        if depth == 0 or c in "({<":
            cur += c if depth == 0 else ""
    if cur.strip():
        names.append(cur)
    out = {}
    for k, n in enumerate(x.strip() for x in names if x.strip()):
        out[k] = re.match(r"[A-Za-z_][A-Za-z0-9_]*", n).group(0)
    return out
