"""Bounded inlining of helper functions the rule tables do not name.

A rule is written against a function ("every path of `put_verified` to …").  Whether part of that function lives in a private
helper is a presentation choice of the source, not of the behaviour: extracting a block into `fn write_record_bytes(..)` or
inlining it back must not change any verdict.  So, when the detail (CFG) of a body is first loaded, every call of it that

  * is statically resolved to exactly one function of the same crate,
  * which is a plain fn / inherent method (sync: the call itself; async: the `poll` of the future its call created), not a trait
    method, not recursive, of bounded size, and
  * whose name no rule table mentions (a function a rule names is an anchor: it stays a call so that the rule can see it),

is replaced by the callee's blocks: locals and block ids renumbered, arguments bound by assignments (`_1.upvK` of an async body is
the K-th argument of the async fn), `return` turned into an assignment of the call's destination (wrapped in `Poll::Ready` for an
async body) followed by a jump to the call's continuation, `resume` into a jump to the call's unwind target.

Return threading.  A callee's `return Err(..)` and `return Ok(..)` would otherwise meet in the one continuation block and the
caller's `?` / `match` on the result would then look reachable from both — a path no execution takes, and exactly the one that
matters when the helper holds the check ("ensure_x(..)?").  So every return site whose variant is evident (`_0 = Ok/Err/Some/None
aggregate`, `_0 = const bool`, `_0 = from_residual(..)`) gets its own copy of the blocks between it and the callee's return, and
then of the caller's glue after the call (moves, `Poll::Ready` unwrapping, `Try::branch`, `discriminant`) up to the first branch
on that variant, which is resolved.  Nothing else is evaluated.

Depth is bounded (DEPTH) and so is the total growth per body.  The result is an ordinary body: every rule kind applies to it
unchanged.  Summary facts of the callee (calls, aggregates, field writes, asserts) are appended to the caller's inline-aware lists
(Body.calls …; the *_raw lists stay per function for workspace-wide scans, and the who-may rules close their allowed sets over
helpers instead: Run.owner_ok).  What was inlined is recorded in detail["inlined"]."""
import glob
import os
import re

DEPTH = 2
MAX_CALLEE_BLOCKS = 400
MAX_TOTAL_BLOCKS = 8000
MAX_THREAD_STEPS = 60
_IDX = re.compile(r"_(\d+)")

_named_text = None


def _rule_text():
    global _named_text
    if _named_text is None:
        here = os.path.dirname(os.path.dirname(os.path.dirname(os.path.abspath(__file__))))
        parts = []
        for f in sorted(glob.glob(os.path.join(here, "props", "*.py"))) + sorted(glob.glob(os.path.join(here, "engine", "py", "*.py"))):
            if f.endswith("inline.py"):
                continue
            try:
                parts.append(open(f).read())
            except OSError:
                pass
        _named_text = "\n".join(parts)
    return _named_text


_named_cache = {}


def named_by_rules(name):
    """does any rule table / engine table mention this function name?"""
    if name not in _named_cache:
        # a function a rule anchors on appears as the tail of a path ("…::name") or as a whole string completing one (`PV + "name"`), not as a dict key; the same
        # word inside a label or a comment ("writers.contains(user)") does not make a helper called `writers` an anchor
        n_ = re.escape(name)
        _named_cache[name] = re.search(r"(::%s(?![A-Za-z0-9_])|[\"']%s[\"'](?!\s*:))" % (n_, n_), _rule_text()) is not None
    return _named_cache[name]


# ------------------------------------------------------------------ renaming

class _Ren:
    def __init__(self, lo, bo, upv=None):
        self.lo, self.bo, self.upv = lo, bo, upv

    def proj(self, e):
        if isinstance(e, str) and "[_" in e:
            return _IDX.sub(lambda m: "_%d" % (int(m.group(1)) + self.lo), e)
        return e

    def place(self, p):
        if not p:
            return p
        if self.upv is not None and p[0] == 1 and len(p) > 1:
            rest = p[1:]
            if rest and rest[0] == "*":
                rest = rest[1:]
            if rest and isinstance(rest[0], str) and rest[0].startswith(".upv") and rest[0][4:].isdigit() and int(rest[0][4:]) in self.upv:
                return [self.upv[int(rest[0][4:])]] + [self.proj(e) for e in rest[1:]]
        return [p[0] + self.lo] + [self.proj(e) for e in p[1:]]

    def op(self, o):
        if isinstance(o, list) and o and o[0] in ("mv", "cp") and isinstance(o[1], list):
            return [o[0], self.place(o[1])] + list(o[2:])
        return o

    def rv(self, rv):
        rv = dict(rv)
        for k in ("a", "b"):
            if k in rv:
                rv[k] = self.op(rv[k])
        if "p" in rv and isinstance(rv["p"], list):
            rv["p"] = self.place(rv["p"])
        if "ops" in rv:
            rv["ops"] = [self.op(o) for o in rv["ops"]]
        return rv

    def term(self, t):
        t = dict(t)
        k = t["k"]
        for key in ("t", "u", "imag", "otherwise", "drop"):
            if key in t and isinstance(t[key], int):
                t[key] = t[key] + self.bo
        if k == "switch":
            t["targets"] = [[v, d + self.bo] for v, d in t["targets"]]
            t["on"] = self.op(t["on"])
        if k == "call":
            t["args"] = [self.op(a) for a in t["args"]]
            t["d"] = self.place(t["d"]) if t.get("d") else t.get("d")
            if isinstance(t.get("f"), list) and t["f"] and t["f"][0] in ("mv", "cp"):
                t["f"] = self.op(t["f"])
        if k == "drop" and "p" in t:
            t["p"] = self.place(t["p"])
        if k == "assert" and "cond" in t:
            t["cond"] = self.op(t["cond"])
        if k == "yield":
            t["v"] = self.op(t["v"])
            t["d"] = self.place(t["d"]) if t.get("d") else t.get("d")
        return t


# ------------------------------------------------------------------ eligibility

def _one(F, caller, nc):
    cands = [h for h in F.by_npath.get(nc, []) if h.unit == caller.unit] or [h for h in F.by_npath.get(nc, []) if h.crate == caller.crate]
    return cands[0] if len(cands) == 1 else None


def _eligible(F, caller, t, stack):
    from facts import norm
    if t.get("callee") is None:
        return None
    nc = t.get("ncallee") or norm(t["callee"])
    if not nc:
        return None
    if isinstance(t.get("f"), list) and t["f"] and t["f"][0] in ("mv", "cp"):
        return None         # indirect call
    h = _one(F, caller, nc)
    if h is None:
        return None
    if h.crate != caller.crate or h.kind not in ("fn", "assoc_fn") or h.coroutine or h.trait or h.mac:
        return None
    if h.path in stack or h.path == caller.path or h.nblocks > MAX_CALLEE_BLOCKS:
        return None
    if any(c.kind == "closure" and c.coroutine for c in F.children.get(h.path, [])):
        return None         # async fn: inlined where its future is polled
    if any((c.get("ncallee") or "") == h.npath for c in h.calls_raw):
        return None         # directly recursive
    if named_by_rules(h.npath.split("::")[-1]):
        return None
    return h


def _eligible_poll(F, caller, t, stack):
    """`t` polls the coroutine of an async fn of the same crate that no rule names: (coroutine body, async fn body) or None"""
    from facts import norm
    if t.get("callee") is None or len(t.get("args") or []) != 2:
        return None
    nc = t.get("ncallee") or norm(t["callee"])
    if not nc or not nc.endswith("::{closure#0}"):
        return None
    h = _one(F, caller, nc)
    if h is None or not h.coroutine or h.kind != "closure" or h.crate != caller.crate or not h.parent:
        return None
    par = F.body(h.parent)
    if par is None or par.kind not in ("fn", "assoc_fn") or par.trait or par.mac or par.coroutine:
        return None
    if h.path in stack or par.path in stack or h.path == caller.path or h.nblocks > MAX_CALLEE_BLOCKS:
        return None
    if any((c.get("ncallee") or "") in (par.npath, h.npath) for c in h.calls_raw):
        return None
    if named_by_rules(par.npath.split("::")[-1]):
        return None
    return h, par



# ------------------------------------------------------------------ Option / Result combinators with an inline closure

# callee suffix -> (enum of the receiver, discriminant of the "other" variant, what the other variant yields, payload variant)
#   yields: "false" / "true" constant, or "arg1" = the default operand handed to map_or
COMBINATORS = (("core::option::Option::is_some_and", ("0", "false", "Some")), ("core::option::Option::is_none_or", ("0", "true", "Some")),
               ("core::option::Option::map_or", ("0", "arg1", "Some")), ("core::result::Result::map_or", ("1", "arg1", "Ok")),
               ("core::result::Result::is_ok_and", ("1", "false", "Ok")), ("core::result::Result::is_err_and", ("0", "false", "Err")),
               # value-producing forms: the other variant is handed on ("none" / "same"), the closure's result is wrapped ("Some" / "Ok") or not
               ("core::option::Option::map", ("0", "none", "Some", "opt:Some")), ("core::option::Option::and_then", ("0", "none", "Some", None)),
               ("core::result::Result::map", ("1", "same", "Ok", "res:Ok")), ("core::result::Result::and_then", ("1", "same", "Ok", None)))


def _closure_agg(blocks, local):
    found = None
    for b in blocks:
        for st in b["stmts"]:
            if st["d"] == [local]:
                rv = st["rv"]
                if rv["k"] == "agg" and rv.get("ak") == "closure":
                    if found is not None:
                        return None
                    found = rv
                else:
                    return None
        t = b["term"]
        if t["k"] == "call" and t.get("d") == [local]:
            return None
    return found


def _eligible_comb(F, caller, blocks, t, stack):
    """`opt.is_some_and(|x| ..)`, `opt.is_none_or(..)`, `opt.map_or(default, |x| ..)`, `res.is_ok_and(..)` with a closure written in
    place: the match it abbreviates.  Returns (spec, closure body, closure aggregate) or None."""
    nm = t.get("ngen") or t.get("gen") or t.get("ncallee") or ""
    nm = re.sub(r"::<[^>]*>", "", nm)
    spec = next((sp for suf, sp in COMBINATORS if nm == suf or nm.endswith("::" + suf)), None)
    if spec is None or not t.get("args") or t.get("t") is None or not t.get("d"):
        return None
    a0 = t["args"][0]
    cl_op = t["args"][-1]
    if len(t["args"]) != (3 if spec[1] == "arg1" else 2):
        return None
    if t.get("mac"):
        return None
    if a0[0] in ("mv", "cp") and cl_op[0] == "f" and isinstance(cl_op[1], str):
        # `res.map(Self::new)`: a function handed over by name plays the part of `|x| Self::new(x)`
        return spec, None, {"fn": cl_op[1]}
    if a0[0] not in ("mv", "cp") or cl_op[0] not in ("mv", "cp") or len(cl_op[1]) != 1:
        return None
    agg = _closure_agg(blocks, cl_op[1][0])
    if agg is None:
        return None
    cl = F.body(agg.get("adt"))
    if cl is None or cl.kind != "closure" or cl.coroutine or cl.crate != caller.crate or cl.path in stack or cl.nblocks > MAX_CALLEE_BLOCKS:
        return None
    return spec, cl, agg


def _eligible_closure_call(F, caller, blocks, t, stack):
    """`let rank = |..| ..; … rank(a, b)`: a direct call of a closure written in this body (resolved callee = the closure body,
    arguments handed over as one tuple).  Returns (closure body, closure aggregate, argument tuple aggregate) or None."""
    nm = t.get("ngen") or t.get("gen") or ""
    if not nm.endswith(("ops::function::Fn::call", "ops::function::FnMut::call_mut", "ops::function::FnOnce::call_once")):
        return None
    if t.get("mac") or len(t.get("args") or []) != 2 or t.get("t") is None or not t.get("d"):
        return None
    from facts import norm
    cl = _one(F, caller, t.get("ncallee") or norm(t.get("callee") or ""))
    if cl is None or cl.kind != "closure" or cl.coroutine or cl.crate != caller.crate or cl.mac or cl.path in stack or cl.nblocks > 80 or cl.nblocks == 49:
        return None
    if str(cl.file or "").startswith("/"):
        return None         # a closure written by a macro of another crate (tracing callsites)
    a0, a1 = t["args"]
    if a0[0] not in ("mv", "cp") or a1[0] not in ("mv", "cp") or len(a0[1]) != 1 or len(a1[1]) != 1:
        return None
    # the callee value: the closure itself or a reference to it
    env_local = a0[1][0]
    agg = _closure_agg(blocks, env_local)
    if agg is None:
        refd = None
        for b in blocks:
            for st in b["stmts"]:
                if st["d"] == [env_local]:
                    rv = st["rv"]
                    if rv["k"] == "ref" and len(rv["p"]) == 1:
                        refd = rv["p"][0] if refd is None else -1
                    else:
                        refd = -1
        if refd is None or refd < 0:
            return None
        agg = _closure_agg(blocks, refd)
    if agg is None or agg.get("adt") != cl.path:
        return None
    tup = None
    for b in blocks:
        for st in b["stmts"]:
            if st["d"] == [a1[1][0]]:
                rv = st["rv"]
                if rv["k"] == "agg" and rv.get("ak") == "tuple" and tup is None:
                    tup = rv
                else:
                    return None
    if tup is None:
        return None
    return cl, agg, tup


_cand_cache = {}


def has_candidates(F, body):
    """summary-level test: does any call of `body` qualify for inlining?  (no detail needed)"""
    k = (id(F), body.path, body.unit)
    if k not in _cand_cache:
        res = False
        if not os.environ.get("VERIF_NO_INLINE"):
            for c in body.calls_raw:
                if c.get("indirect"):
                    continue
                if _eligible(F, body, {"callee": c["callee"], "ncallee": c["ncallee"], "f": None}, (body.path,)) is not None:
                    res = True
                    break
                cn = re.sub(r"::<[^>]*>", "", c.get("ncallee") or c.get("callee") or "")
                if any(cn == suf or cn.endswith("::" + suf) for suf, _ in COMBINATORS):
                    res = True
                    break
                if "<impl bool>::then_some" in (c.get("ncallee") or c.get("callee") or "") and not c.get("mac"):
                    res = True
                    break
                if (c.get("ngen") or "").endswith(("ops::function::Fn::call", "ops::function::FnMut::call_mut", "ops::function::FnOnce::call_once")) and not c.get("mac") \
                        and "{closure#" in (c.get("ncallee") or "") and (c.get("ncallee") or "").startswith(body.npath.split("::{closure")[0]):
                    res = True
                    break
                if body.coroutine and _eligible_poll(F, body, {"callee": c["callee"], "ncallee": c["ncallee"], "args": [0, 0]}, (body.path,)) is not None:
                    res = True
                    break
        _cand_cache[k] = res
    return _cand_cache[k]


def _shift(entries, bo):
    return [dict(e, bb=e["bb"] + bo, inlined=True) if isinstance(e.get("bb"), int) else dict(e, inlined=True) for e in entries]


def _future_args(blocks, poll_t, fn_npath):
    """the arguments of the `fn_npath(..)` call that created the future polled by `poll_t` (followed back through Pin::new_unchecked,
    `&mut`, moves and into_future)"""
    from facts import norm
    defs = {}
    for b in blocks:
        for s in b["stmts"]:
            if len(s["d"]) == 1:
                defs.setdefault(s["d"][0], []).append(("s", s["rv"]))
        t = b["term"]
        if t["k"] == "call" and len(t.get("d") or []) == 1:
            defs.setdefault(t["d"][0], []).append(("c", t))
    a0 = poll_t["args"][0]
    if a0[0] not in ("mv", "cp"):
        return None
    todo, seen, found = [a0[1][0]], set(), []
    while todo:
        l = todo.pop()
        if l in seen:
            continue
        seen.add(l)
        for k, d in defs.get(l, ()):
            if k == "s":
                if d["k"] == "use" and d["a"][0] in ("mv", "cp"):
                    todo.append(d["a"][1][0])
                elif d["k"] == "ref":
                    todo.append(d["p"][0])
            else:
                nc = d.get("ncallee") or norm(d.get("callee"))
                if nc == fn_npath:
                    found.append(d)
                elif nc and (nc.endswith("Pin::new_unchecked") or nc.endswith("Pin::new") or nc.endswith("IntoFuture>::into_future")
                             or nc.endswith("IntoFuture::into_future") or (d.get("gen") or "").endswith("IntoFuture::into_future")):
                    for a in d["args"][:1]:
                        if a[0] in ("mv", "cp"):
                            todo.append(a[1][0])
    if len(found) != 1:
        return None
    return list(found[0]["args"])


# ------------------------------------------------------------------ return threading

# tags: ("res", "Ok"|"Err") ("opt", "Some"|"None") ("bool", True|False) ("poll", inner-or-None) ("cf", "Continue"|"Break") ("int", n)
DISCR = {("res", "Ok"): 0, ("res", "Err"): 1, ("opt", "None"): 0, ("opt", "Some"): 1, ("cf", "Continue"): 0, ("cf", "Break"): 1}


def _variant_of_assignment(blk, ret_local, ret_ty):
    """the evident variant of the value this block stores into the callee's return place, if any"""
    tag = None
    for s in blk["stmts"]:
        if s["d"] == [ret_local]:
            rv = s["rv"]
            tag = None
            if rv["k"] == "agg" and rv.get("ak") == "adt":
                adt, v = rv.get("adt") or "", rv.get("variant")
                if adt == "core::result::Result" and v in ("Ok", "Err"):
                    tag = ("res", v)
                elif adt == "core::option::Option" and v in ("Some", "None"):
                    tag = ("opt", v)
            elif rv["k"] == "use" and rv["a"][0] == "c" and rv["a"][1] in ("true", "false"):
                tag = ("bool", rv["a"][1] == "true")
    t = blk["term"]
    if t["k"] == "call" and t.get("d") == [ret_local]:
        nm = (t.get("gen") or "") + " " + (t.get("callee") or "")
        tag = None
        if "FromResidual" in nm and "from_residual" in nm:
            if "result::Result" in ret_ty.split("<")[0] or ret_ty.startswith("Result<"):
                tag = ("res", "Err")
            elif "option::Option" in ret_ty.split("<")[0] or ret_ty.startswith("Option<"):
                tag = ("opt", "None")
    return tag


def _assigns(blk, local):
    return any(s["d"] and s["d"][0] == local for s in blk["stmts"]) or \
        (blk["term"]["k"] in ("call", "yield") and (blk["term"].get("d") or [None])[0] == local)


def _normal_succs(t):
    k = t["k"]
    if k in ("goto", "drop", "assert", "yield"):
        return [t["t"]]
    if k == "call":
        return [t["t"]] if t.get("t") is not None else []
    if k == "switch":
        return [d for _, d in t["targets"]] + [t["otherwise"]]
    return []


class _Threader:
    """copies chains of blocks; `alloc()` hands out fresh block ids in the body under construction"""

    def __init__(self, det, byid, alloc):
        self.det, self.byid, self.alloc = det, byid, alloc

    def new_block(self, stmts, term, cleanup=False):
        i = self.alloc()
        b = {"id": i, "cleanup": cleanup, "stmts": stmts, "term": term}
        self.det["blocks"].append(b)
        self.byid[i] = b
        return b

    def thread_caller(self, start, env, fresh=None, rename=None):
        """From caller block `start`, with `env` = {local: tag}, copy glue blocks while resolving every branch on a known tag.
        Returns the id of the first copied block, or `start` itself if no branch could be resolved.
        With `fresh` (a local allocator) the copies are put in single-assignment form: every local they define gets a new name, so
        that a constant handed down this path does not become a second definition of the variable the other paths compute."""
        rename = dict(rename or {})

        def rn_place(p):
            return [rename.get(p[0], p[0])] + list(p[1:]) if p else p

        def rn_op(o):
            return [o[0], rn_place(o[1])] + list(o[2:]) if isinstance(o, list) and o and o[0] in ("mv", "cp") and isinstance(o[1], list) else o

        def rn_stmt(s_):
            if fresh is None:
                return dict(s_)
            rv = dict(s_["rv"])
            for k_ in ("a", "b"):
                if k_ in rv:
                    rv[k_] = rn_op(rv[k_])
            if isinstance(rv.get("p"), list):
                rv["p"] = rn_place(rv["p"])
            if "ops" in rv:
                rv["ops"] = [rn_op(o) for o in rv["ops"]]
            d_ = list(s_["d"])
            if len(d_) > 1:
                d_ = rn_place(d_)
            return dict(s_, d=d_, rv=rv)

        def rn_dest(s_):
            """a copy of a tagged value gets a name of its own (never the return place, never a value computed afresh)"""
            if fresh is not None and len(s_["d"]) == 1 and s_["d"][0] != 0:
                nl = fresh(s_["d"][0])
                rename[s_["d"][0]] = nl
                s_["d"] = [nl]
                return nl
            return s_["d"][0]
        first, prev, cur = None, None, start
        steps, seen, resolved_any = 0, set(), False
        while steps < MAX_THREAD_STEPS and cur is not None and cur not in seen:
            steps += 1
            seen.add(cur)
            blk = self.byid.get(cur)
            if blk is None or blk["cleanup"]:
                break
            env = dict(env)
            rstmts = [rn_stmt(s) for s in blk["stmts"]]
            for s in rstmts:
                if len(s["d"]) != 1:
                    continue
                d, rv = s["d"][0], s["rv"]
                tag = None
                if rv["k"] == "use" and rv["a"][0] in ("mv", "cp"):
                    p = rv["a"][1]
                    src = env.get(p[0])
                    proj = [e for e in p[1:] if e != "*"]
                    if src is not None:
                        if not proj:
                            tag = src
                        elif src[0] == "poll" and len(proj) == 2 and proj[0] == "@Ready" and proj[1] == ".0":
                            tag = src[1]
                elif rv["k"] == "ref":
                    p = rv["p"]
                    src = env.get(p[0])
                    if src is not None and not [e for e in p[1:] if e != "*"]:
                        tag = src
                elif rv["k"] == "discr":
                    p = rv["p"]
                    src = env.get(p[0])
                    if src is not None and not [e for e in p[1:] if e != "*"]:
                        if src[0] == "poll":
                            tag = ("int", 0)
                        elif src in DISCR:
                            tag = ("int", DISCR[src])
                if tag is not None:
                    d = rn_dest(s)
                    env[d] = tag
                else:
                    env.pop(d, None)
                    rename.pop(d, None)
            t = blk["term"]
            nxt, newterm, stop = None, dict(t), False
            if t["k"] in ("goto", "drop", "assert"):
                nxt = t["t"]
            elif t["k"] == "call":
                nm = (t.get("gen") or "") + " " + (t.get("callee") or "")
                a0 = rn_op(t["args"][0]) if t.get("args") else None
                src = env.get(a0[1][0]) if a0 and a0[0] in ("mv", "cp") and len(a0[1]) == 1 else None
                d = t["d"][0] if len(t.get("d") or []) == 1 else None
                if d is not None:
                    env.pop(d, None)
                if src is not None and "Try" in nm and "branch" in nm and src[0] in ("res", "opt") and d is not None and t.get("t") is not None:
                    if fresh is not None:
                        # single-assignment copy of the `?`: its argument and its result get the names of this path
                        nd = fresh(d)
                        rename[d] = nd
                        newterm = dict(t, args=[rn_op(a) for a in t["args"]], d=[nd])
                        d = nd
                    env[d] = ("cf", "Continue" if src[1] in ("Ok", "Some") else "Break")
                    nxt = t["t"]
                elif fresh is not None:
                    stop = True     # single-assignment copies are only made of plain glue
                else:
                    stop = True
            elif t["k"] == "switch":
                on = rn_op(t["on"])
                src = env.get(on[1][0]) if on[0] in ("mv", "cp") and len(on[1]) == 1 else None
                val = None
                if src is not None and src[0] == "int":
                    val = src[1]
                elif src is not None and src[0] == "bool":
                    val = 1 if src[1] else 0
                if val is None:
                    stop = True
                else:
                    tgt = None
                    for v, dst in t["targets"]:
                        if str(v) == str(val):
                            tgt = dst
                    tgt = tgt if tgt is not None else t["otherwise"]
                    newterm = {"k": "goto", "t": tgt, "threaded": True}
                    nxt = tgt
                    resolved_any = True
            else:
                stop = True
            if stop:
                break
            nb = self.new_block(rstmts, newterm)
            if first is None:
                first = nb["id"]
            if prev is not None:
                prev["term"]["t"] = nb["id"]
            prev = nb
            cur = nxt
            if not env:
                break
        if not resolved_any or first is None:
            return start        # nothing gained: the copies stay unreachable
        prev["term"]["t"] = cur if cur is not None else start
        return first


def _thread_returns(thr, hraw, ren, ret_ids_new, call_t, is_async, dest_place):
    """Give each callee return site with an evident variant its own path to the caller's resolved branch."""
    if call_t.get("t") is None or len(dest_place) != 1:
        return 0
    cont = call_t["t"]
    D = dest_place[0]
    ret_local = 0 + ren.lo
    ty0 = hraw["locals"].get("0", "")
    ret_ty = str(ty0.get("ty", "")) if isinstance(ty0, dict) else str(ty0)
    new_ids = {b["id"] + ren.bo for b in hraw["blocks"]}
    sites = []
    for i in sorted(new_ids):
        blk = thr.byid.get(i)
        if blk is None or blk["cleanup"] or not _assigns(blk, ret_local):
            continue
        tag = _variant_of_assignment(blk, ret_local, ret_ty)
        if tag is not None or is_async:
            sites.append((blk, tag))
    n = 0
    for blk, tag in sites:
        succ = _normal_succs(blk["term"])
        if len(succ) != 1 or blk["term"]["k"] == "switch":
            continue
        cur, chain, ok, steps = succ[0], [], False, 0
        while steps < 40:
            steps += 1
            b2 = thr.byid.get(cur)
            if b2 is None or b2["cleanup"] or cur not in new_ids:
                break
            if cur in ret_ids_new:
                ok = True
                break
            if _assigns(b2, ret_local) or b2["term"]["k"] not in ("goto", "drop"):
                break
            chain.append(b2)
            cur = b2["term"]["t"]
        if not ok:
            continue
        retblk = thr.byid[cur]          # already rewritten: its stmts + the assignment of D, then goto cont
        target = thr.thread_caller(cont, {D: ("poll", tag) if is_async else tag})
        if target == cont:
            continue
        prev, first = None, None
        for b2 in chain + [retblk]:
            nb = thr.new_block([dict(s) for s in b2["stmts"]], dict(b2["term"]))
            if first is None:
                first = nb["id"]
            if prev is not None:
                prev["term"]["t"] = nb["id"]
            prev = nb
        prev["term"] = {"k": "goto", "t": target, "threaded_return": True}
        blk["term"]["t"] = first
        n += 1
    return n


# ------------------------------------------------------------------ the inliner


def _is_then_some(t):
    """`cond.then_some(value)`: the `if cond { Some(value) } else { None }` it abbreviates"""
    nm = t.get("ncallee") or t.get("callee") or ""
    return "<impl bool>::then_some" in nm and len(t.get("args") or []) == 2 and t.get("t") is not None and len(t.get("d") or []) == 1 \
        and not t.get("mac") and t["args"][0][0] in ("cp", "mv") and t["args"][1][0] in ("cp", "mv")
        # (`cond.then_some(()).ok_or(e)?` — a verdict turned into a Result — stays a call: the tracker carries the verdict through it)


def _expand_then_some(det, byid, state, alloc_block, blk):
    t = blk["term"]
    line = t.get("l")
    tmp = state["next_l"]
    state["next_l"] += 1
    det["locals"][str(tmp)] = "bool"
    b_some, b_none = alloc_block(), alloc_block()
    dest, cont = list(t["d"]), t["t"]
    blk["stmts"] = list(blk["stmts"]) + [{"d": [tmp], "rv": {"k": "use", "a": t["args"][0]}, "l": line}]
    blk["term"] = {"k": "switch", "on": ["mv", [tmp]], "targets": [["0", b_none]], "otherwise": b_some, "l": line, "inlined_call": "bool::then_some"}
    for bid_, st_ in ((b_some, [{"d": dest, "rv": {"k": "agg", "ak": "adt", "adt": "core::option::Option", "variant": "Some", "fields": ["0"], "ops": [t["args"][1]]}, "l": line}]),
                      (b_none, [{"d": dest, "rv": {"k": "agg", "ak": "adt", "adt": "core::option::Option", "variant": "None", "fields": [], "ops": []}, "l": line}])):
        nb = {"id": bid_, "cleanup": False, "stmts": st_, "term": {"k": "goto", "t": cont}}
        det["blocks"].append(nb)
        byid[bid_] = nb
    det["inlined"].append({"callee": "bool::then_some", "at_block": blk["id"], "line": line, "depth": 1, "blocks": 2, "async": False, "combinator": True})


def _expand_combinator(F, body, det, byid, state, alloc_block, work, blk, spec, cl, agg, depth, stack, thr):
    """replace `d = opt.is_some_and(closure)` (etc.) by `switch discriminant(opt) { other => d = const; payload => d = closure(payload) }`"""
    t = blk["term"]
    other_discr, yields, payload_variant = spec[:3]
    wrap = spec[3] if len(spec) > 3 else None
    if cl is None:
        return _expand_combinator_fn(F, body, det, byid, state, alloc_block, work, blk, spec, agg["fn"], depth, stack, thr)
    hraw = F._detail_for(cl.unit).get(cl.path)
    if hraw is None or len(byid) + len(hraw["blocks"]) > MAX_TOTAL_BLOCKS:
        return
    if hraw["argc"] != 2:
        return
    line = t.get("l")
    opt_place = list(t["args"][0][1])
    hmax_l = max([int(k) for k in hraw["locals"]] + [0])
    hmax_b = max(b["id"] for b in hraw["blocks"])
    lo = state["next_l"]
    state["next_l"] = lo + hmax_l + 1
    tmp = state["next_l"]
    state["next_l"] += 1
    det["locals"][str(tmp)] = "isize"
    upv = {}
    for k in range(len(agg["ops"])):
        upv[k] = state["next_l"]
        state["next_l"] += 1
        det["locals"][str(upv[k])] = "(capture %d of %s)" % (k, cl.npath)
    b_other, b_some = alloc_block(), alloc_block()
    bo = state["next_b"]
    state["next_b"] = bo + hmax_b + 1
    dest = list(t["d"])
    cont = t["t"]
    # the call block now branches on the receiver's variant
    blk["stmts"] = list(blk["stmts"]) + [{"d": [tmp], "rv": {"k": "discr", "p": opt_place}, "l": line}]
    blk["term"] = {"k": "switch", "on": ["mv", [tmp]], "targets": [[other_discr, b_other]], "otherwise": b_some, "l": line, "inlined_call": cl.npath}
    if yields in ("true", "false"):
        ost = [{"d": dest, "rv": {"k": "use", "a": ["c", yields]}, "l": line}]
    elif yields == "none":
        ost = [{"d": dest, "rv": {"k": "agg", "ak": "adt", "adt": "core::option::Option", "variant": "None", "fields": [], "ops": []}, "l": line}]
    elif yields == "same":
        ost = [{"d": dest, "rv": {"k": "use", "a": ["mv", opt_place]}, "l": line}]     # Err(e) handed on (the Ok type changes, the variant does not)
    else:
        ost = [{"d": dest, "rv": {"k": "use", "a": t["args"][1]}, "l": line}]
    for bid_, st_, tm_ in ((b_other, ost, {"k": "goto", "t": cont}),):
        nb = {"id": bid_, "cleanup": False, "stmts": st_, "term": tm_}
        det["blocks"].append(nb)
        byid[bid_] = nb
    pst = [{"d": [upv[k]], "rv": {"k": "use", "a": (["cp", a[1]] if a[0] in ("mv", "cp") else a)}, "l": line} for k, a in enumerate(agg["ops"])]
    pst.append({"d": [lo + 2], "rv": {"k": "use", "a": ["mv", opt_place + ["@" + payload_variant, ".0"]]}, "l": line})
    hentry = min(b["id"] for b in hraw["blocks"])
    nb = {"id": b_some, "cleanup": False, "stmts": pst, "term": {"k": "goto", "t": hentry + bo}}
    det["blocks"].append(nb)
    byid[b_some] = nb
    ren = _Ren(lo, bo, upv)
    n_new = 2
    ret_ids = set()
    for hb in hraw["blocks"]:
        stmts = [{"d": ren.place(s["d"]), "rv": ren.rv(s["rv"]), "l": s.get("l")} for s in hb["stmts"]]
        ht = hb["term"]
        if ht["k"] == "return":
            if wrap:
                wadt, wvar = ("core::option::Option", "Some") if wrap == "opt:Some" else ("core::result::Result", "Ok")
                stmts.append({"d": dest, "rv": {"k": "agg", "ak": "adt", "adt": wadt, "variant": wvar, "fields": ["0"], "ops": [["mv", [lo]]]}, "l": ht.get("l", line)})
            else:
                stmts.append({"d": dest, "rv": {"k": "use", "a": ["mv", [lo]]}, "l": ht.get("l", line)})
            nt = {"k": "goto", "t": cont}
            ret_ids.add(hb["id"] + bo)
        elif ht["k"] == "resume":
            nt = {"k": "goto", "t": t["u"]} if t.get("u") is not None else {"k": "resume"}
        else:
            nt = ren.term(ht)
        nblk = {"id": hb["id"] + bo, "cleanup": hb["cleanup"], "stmts": stmts, "term": nt}
        det["blocks"].append(nblk)
        byid[nblk["id"]] = nblk
        n_new += 1
        if nt["k"] == "call" and not nblk["cleanup"] and depth < DEPTH:
            h2 = _eligible(F, body, nt, stack)
            if h2 is not None:
                work.append((nblk["id"], h2, depth + 1, stack + (h2.path,)))
    for k, ty in hraw["locals"].items():
        det["locals"][str(int(k) + lo)] = ty
    for v in hraw["vars"]:
        if isinstance(v.get("v"), list) and v["v"] and isinstance(v["v"][0], int):
            det["vars"].append({"name": v["name"], "v": ren.place(v["v"]), "arg": None, "inlined_from": cl.npath})
    if wrap and len(dest) == 1:
        # the wrapped result and the handed-on other variant have an evident variant: give each its own way to the caller's branch on it
        try:
            wtag = ("opt", "Some") if wrap == "opt:Some" else ("res", "Ok")
            for rid in sorted(ret_ids):
                tgt = thr.thread_caller(cont, {dest[0]: wtag})
                if tgt != cont:
                    byid[rid]["term"] = {"k": "goto", "t": tgt, "threaded_return": True}
        except Exception:
            pass
    det["extra"]["calls"] += _shift(cl.calls_raw, bo)
    det["extra"]["aggregates"] += _shift(cl.aggregates_raw, bo)
    det["extra"]["field_mut"] += _shift(cl.field_mut_raw, bo)
    det["extra"]["asserts"] += _shift(cl.asserts_raw, bo)
    threaded = 0
    call_t = {"t": cont}
    try:
        threaded = _thread_returns(thr, hraw, ren, ret_ids, call_t, False, dest)
        otag = ("bool", yields == "true") if yields in ("true", "false") else ("opt", "None") if yields == "none" else ("res", "Err") if yields == "same" else None
        if yields == "arg1" and len(t["args"]) > 1 and t["args"][1][0] == "c" and str(t["args"][1][1]).replace("const ", "") in ("true", "false"):
            otag = ("bool", str(t["args"][1][1]).replace("const ", "") == "true")      # `map_or(true, ..)`: the default is a literal verdict
        if otag is not None and len(dest) == 1:
            def fresh(old):
                nl = state["next_l"]
                state["next_l"] += 1
                det["locals"][str(nl)] = det["locals"].get(str(old), "bool")
                return nl
            d2 = fresh(dest[0])
            tgt = thr.thread_caller(cont, {d2: otag}, fresh=fresh, rename={dest[0]: d2})
            if tgt != cont:
                byid[b_other]["stmts"] = [dict(ost[0], d=[d2])]
                byid[b_other]["term"] = {"k": "goto", "t": tgt, "threaded_return": True}
                threaded += 1
    except Exception:
        pass
    det["inlined"].append({"callee": cl.npath, "at_block": blk["id"], "line": line, "depth": depth, "blocks": n_new, "async": False, "combinator": True,
                           "threaded_returns": threaded})


def _expand_combinator_fn(F, body, det, byid, state, alloc_block, work, blk, spec, fn_path, depth, stack, thr):
    """`opt.map(f)` etc. with a function item: `switch discriminant(opt) { other => d = ..; payload => d = wrap(f(payload)) }`"""
    t = blk["term"]
    other_discr, yields, payload_variant = spec[:3]
    wrap = spec[3] if len(spec) > 3 else None
    line = t.get("l")
    opt_place = list(t["args"][0][1])
    tmp, arg, res = state["next_l"], state["next_l"] + 1, state["next_l"] + 2
    state["next_l"] += 3
    det["locals"][str(tmp)] = "isize"
    det["locals"][str(arg)] = "(payload handed to %s)" % fn_path
    det["locals"][str(res)] = "(result of %s)" % fn_path
    b_other, b_some, b_ret = alloc_block(), alloc_block(), alloc_block()
    dest = list(t["d"])
    cont = t["t"]
    blk["stmts"] = list(blk["stmts"]) + [{"d": [tmp], "rv": {"k": "discr", "p": opt_place}, "l": line}]
    blk["term"] = {"k": "switch", "on": ["mv", [tmp]], "targets": [[other_discr, b_other]], "otherwise": b_some, "l": line, "inlined_call": fn_path}
    if yields in ("true", "false"):
        ost = [{"d": dest, "rv": {"k": "use", "a": ["c", yields]}, "l": line}]
    elif yields == "none":
        ost = [{"d": dest, "rv": {"k": "agg", "ak": "adt", "adt": "core::option::Option", "variant": "None", "fields": [], "ops": []}, "l": line}]
    elif yields == "same":
        ost = [{"d": dest, "rv": {"k": "use", "a": ["mv", opt_place]}, "l": line}]
    else:
        ost = [{"d": dest, "rv": {"k": "use", "a": t["args"][1]}, "l": line}]
    from facts import norm
    call = {"k": "call", "callee": fn_path, "gen": fn_path, "ncallee": norm(fn_path), "ngen": norm(fn_path), "f": ["f", fn_path], "args": [["mv", [arg]]], "d": [res], "t": b_ret,
            "u": t.get("u"), "l": line, "mac": None}
    if wrap:
        wadt, wvar = ("core::option::Option", "Some") if wrap == "opt:Some" else ("core::result::Result", "Ok")
        rst = [{"d": dest, "rv": {"k": "agg", "ak": "adt", "adt": wadt, "variant": wvar, "fields": ["0"], "ops": [["mv", [res]]]}, "l": line}]
    else:
        rst = [{"d": dest, "rv": {"k": "use", "a": ["mv", [res]]}, "l": line}]
    for bid_, st_, tm_ in ((b_other, ost, {"k": "goto", "t": cont}),
                           (b_some, [{"d": [arg], "rv": {"k": "use", "a": ["mv", opt_place + ["@" + payload_variant, ".0"]]}, "l": line}], call),
                           (b_ret, rst, {"k": "goto", "t": cont})):
        nb = {"id": bid_, "cleanup": False, "stmts": st_, "term": tm_}
        det["blocks"].append(nb)
        byid[bid_] = nb
    det["extra"]["calls"].append({"bb": b_some, "line": line, "callee": fn_path, "ncallee": norm(fn_path), "ngen": norm(fn_path), "gen": fn_path, "resolved": True, "mac": None, "consts": [],
                                  "inlined": True})
    threaded = 0
    try:
        if wrap and len(dest) == 1:
            tgt = thr.thread_caller(cont, {dest[0]: ("opt", "Some") if wrap == "opt:Some" else ("res", "Ok")})
            if tgt != cont:
                byid[b_ret]["term"] = {"k": "goto", "t": tgt, "threaded_return": True}
                threaded += 1
        otag = ("bool", yields == "true") if yields in ("true", "false") else ("opt", "None") if yields == "none" else ("res", "Err") if yields == "same" else None
        if yields == "arg1" and len(t["args"]) > 1 and t["args"][1][0] == "c" and str(t["args"][1][1]).replace("const ", "") in ("true", "false"):
            otag = ("bool", str(t["args"][1][1]).replace("const ", "") == "true")      # `map_or(true, ..)`: the default is a literal verdict
        if otag is not None and len(dest) == 1:
            def fresh(old):
                nl = state["next_l"]
                state["next_l"] += 1
                det["locals"][str(nl)] = det["locals"].get(str(old), "bool")
                return nl
            d2 = fresh(dest[0])
            tgt = thr.thread_caller(cont, {d2: otag}, fresh=fresh, rename={dest[0]: d2})
            if tgt != cont:
                byid[b_other]["stmts"] = [dict(ost[0], d=[d2])]
                byid[b_other]["term"] = {"k": "goto", "t": tgt, "threaded_return": True}
                threaded += 1
    except Exception:
        pass
    det["inlined"].append({"callee": fn_path, "at_block": blk["id"], "line": line, "depth": depth, "blocks": 3, "async": False, "combinator_fn": True, "threaded_returns": threaded})
    if depth < DEPTH:
        h2 = _eligible(F, body, call, stack)
        if h2 is not None:
            work.append((b_some, h2, depth + 1, stack + (h2.path,)))


def _expand_closure_call(F, body, det, byid, state, alloc_block, work, blk, cl, agg, tup, depth, stack, thr):
    """replace `d = closure(args..)` by the closure's blocks: captures bound from the closure aggregate, parameters from the argument tuple"""
    t = blk["term"]
    hraw = F._detail_for(cl.unit).get(cl.path)
    if hraw is None or len(byid) + len(hraw["blocks"]) > MAX_TOTAL_BLOCKS:
        return
    if hraw["argc"] != 1 + len(tup["ops"]):
        return
    line = t.get("l")
    hmax_l = max([int(k) for k in hraw["locals"]] + [0])
    hmax_b = max(b["id"] for b in hraw["blocks"])
    lo = state["next_l"]
    state["next_l"] = lo + hmax_l + 1
    upv = {}
    for k in range(len(agg["ops"])):
        upv[k] = state["next_l"]
        state["next_l"] += 1
        det["locals"][str(upv[k])] = "(capture %d of %s)" % (k, cl.npath)
    pblock = alloc_block()
    bo = state["next_b"]
    state["next_b"] = bo + hmax_b + 1
    dest = list(t["d"])
    cont = t["t"]
    pst = [{"d": [upv[k]], "rv": {"k": "use", "a": (["cp", a[1]] if a[0] in ("mv", "cp") else a)}, "l": line} for k, a in enumerate(agg["ops"])]
    for k, a in enumerate(tup["ops"]):
        pst.append({"d": [lo + 2 + k], "rv": {"k": "use", "a": (["cp", a[1]] if a[0] in ("mv", "cp") else a)}, "l": line})
    hentry = min(b["id"] for b in hraw["blocks"])
    nb = {"id": pblock, "cleanup": False, "stmts": pst, "term": {"k": "goto", "t": hentry + bo}}
    det["blocks"].append(nb)
    byid[pblock] = nb
    ren = _Ren(lo, bo, upv)
    ret_ids = set()
    n_new = 1
    for hb in hraw["blocks"]:
        stmts = [{"d": ren.place(s["d"]), "rv": ren.rv(s["rv"]), "l": s.get("l")} for s in hb["stmts"]]
        ht = hb["term"]
        if ht["k"] == "return":
            stmts.append({"d": dest, "rv": {"k": "use", "a": ["mv", [lo]]}, "l": ht.get("l", line)})
            nt = {"k": "goto", "t": cont}
            ret_ids.add(hb["id"] + bo)
        elif ht["k"] == "resume":
            nt = {"k": "goto", "t": t["u"]} if t.get("u") is not None else {"k": "resume"}
        else:
            nt = ren.term(ht)
        nblk = {"id": hb["id"] + bo, "cleanup": hb["cleanup"], "stmts": stmts, "term": nt}
        det["blocks"].append(nblk)
        byid[nblk["id"]] = nblk
        n_new += 1
    for k, ty in hraw["locals"].items():
        det["locals"][str(int(k) + lo)] = ty
    for v in hraw["vars"]:
        if isinstance(v.get("v"), list) and v["v"] and isinstance(v["v"][0], int):
            det["vars"].append({"name": v["name"], "v": ren.place(v["v"]), "arg": None, "inlined_from": cl.npath})
    blk["term"] = {"k": "goto", "t": pblock, "inlined_call": cl.npath, "l": line}
    threaded = 0
    try:
        threaded = _thread_returns(thr, hraw, ren, ret_ids, t, False, dest)
    except Exception:
        pass
    det["inlined"].append({"callee": cl.npath, "at_block": blk["id"], "line": line, "depth": depth, "blocks": n_new, "async": False, "closure_call": True,
                           "threaded_returns": threaded})


def inline_detail(F, body, raw):
    """returns a detail dict for `body` with unnamed same-crate helpers inlined (or `raw` itself when there is nothing to do)"""
    if os.environ.get("VERIF_NO_INLINE"):
        return raw
    blocks = raw["blocks"]
    work = []
    for blk in blocks:
        t = blk["term"]
        if t["k"] == "call" and not blk["cleanup"]:
            h = _eligible(F, body, t, (body.path,))
            if h is not None:
                work.append((blk["id"], h, 1, (body.path, h.path)))
                continue
            _ty1 = raw["locals"].get(str(t["args"][1][1][0]), "") if _is_then_some(t) else ""
            _ty1 = str(_ty1.get("ty", "")) if isinstance(_ty1, dict) else str(_ty1)
            if _is_then_some(t) and _ty1 != "()":
                work.append((blk["id"], ("thensome",), 1, (body.path,)))
                continue
            hc = _eligible_comb(F, body, blocks, t, (body.path,))
            hcc = _eligible_closure_call(F, body, blocks, t, (body.path,)) if hc is None else None
            if hc is not None:
                work.append((blk["id"], ("comb",) + hc, 1, (body.path,) + ((hc[1].path,) if hc[1] is not None else ())))
            elif hcc is not None:
                work.append((blk["id"], ("clcall",) + hcc, 1, (body.path, hcc[0].path)))
            elif body.coroutine:
                hp = _eligible_poll(F, body, t, (body.path,))
                if hp is not None:
                    work.append((blk["id"], hp, 1, (body.path, hp[0].path, hp[1].path)))
    if not work:
        return raw
    # combinators and closure calls of the body itself first: a helper's return sites can only be threaded into a continuation that
    # already is a branch (`helper().is_none_or(..)` → `match helper() { .. }`)
    # ... and of a chain `a.and_then(..).map(..)` the last link first, for the same reason
    work.sort(key=lambda w: (0, -w[0]) if isinstance(w[1], tuple) and w[1] and w[1][0] in ("comb", "clcall", "thensome") else (1, w[0]))
    det = {"blocks": [dict(b, stmts=list(b["stmts"]), term=dict(b["term"])) for b in blocks], "locals": dict(raw["locals"]),
           "vars": list(raw["vars"]), "argc": raw["argc"], "inlined": [],
           "extra": {"calls": [], "aggregates": [], "field_mut": [], "asserts": []}}
    byid = {b["id"]: b for b in det["blocks"]}
    state = {"next_b": max(byid) + 1, "next_l": max([int(k) for k in det["locals"]] + [0]) + 1}

    def alloc_block():
        i = state["next_b"]
        state["next_b"] += 1
        return i

    thr = _Threader(det, byid, alloc_block)
    while work:
        bid, h, depth, stack = work.pop(0)
        blk = byid[bid]
        t = blk["term"]
        if t["k"] != "call":
            continue
        if isinstance(h, tuple) and h and h[0] == "thensome":
            _expand_then_some(det, byid, state, alloc_block, blk)
            continue
        if isinstance(h, tuple) and h and h[0] == "comb":
            _expand_combinator(F, body, det, byid, state, alloc_block, work, blk, h[1], h[2], h[3], depth, stack, thr)
            continue
        if isinstance(h, tuple) and h and h[0] == "clcall":
            _expand_closure_call(F, body, det, byid, state, alloc_block, work, blk, h[1], h[2], h[3], depth, stack, thr)
            continue
        is_async = isinstance(h, tuple)
        fut_args, par = None, None
        if is_async:
            h, par = h
            fut_args = _future_args(det["blocks"], t, par.npath)
            if fut_args is None:
                continue
        hraw = F._detail_for(h.unit).get(h.path)
        if hraw is None or (not is_async and len(t["args"]) != hraw["argc"]):
            continue
        if len(byid) + len(hraw["blocks"]) > MAX_TOTAL_BLOCKS:
            break
        line = t.get("l")
        hmax_l = max([int(k) for k in hraw["locals"]] + [0])
        hmax_b = max(b["id"] for b in hraw["blocks"])
        lo = state["next_l"]
        state["next_l"] = lo + hmax_l + 1
        pblock = alloc_block()
        bo = state["next_b"]
        state["next_b"] = bo + hmax_b + 1
        upv = None
        if is_async:
            upv = {}
            for k in range(len(fut_args)):
                upv[k] = state["next_l"]
                state["next_l"] += 1
            pst = [{"d": [upv[k]], "rv": {"k": "use", "a": (["cp", a[1]] if a[0] in ("mv", "cp") else a)}, "l": line} for k, a in enumerate(fut_args)]
            pst.append({"d": [lo + 2], "rv": {"k": "use", "a": t["args"][1]}, "l": line})
            for k in range(len(fut_args)):
                det["locals"][str(upv[k])] = "(argument %d of %s)" % (k, par.npath)
        else:
            pst = [{"d": [lo + k + 1], "rv": {"k": "use", "a": a}, "l": line} for k, a in enumerate(t["args"])]
        ren = _Ren(lo, bo, upv)
        hentry = min(b["id"] for b in hraw["blocks"])
        nb = {"id": pblock, "cleanup": False, "stmts": pst, "term": {"k": "goto", "t": hentry + bo}}
        det["blocks"].append(nb)
        byid[pblock] = nb
        new_ids = [pblock]
        ret_ids = set()
        dest = list(t["d"]) if t.get("d") else [lo]
        for hb in hraw["blocks"]:
            stmts = [{"d": ren.place(s["d"]), "rv": ren.rv(s["rv"]), "l": s.get("l")} for s in hb["stmts"]]
            ht = hb["term"]
            if ht["k"] == "return":
                if is_async:
                    stmts.append({"d": dest, "l": ht.get("l", line),
                                  "rv": {"k": "agg", "ak": "adt", "adt": "core::task::poll::Poll", "variant": "Ready", "fields": ["0"], "ops": [["mv", [lo]]]}})
                else:
                    stmts.append({"d": dest, "rv": {"k": "use", "a": ["mv", [lo]]}, "l": ht.get("l", line)})
                nt = {"k": "goto", "t": t["t"]} if t.get("t") is not None else {"k": "unreachable"}
                ret_ids.add(hb["id"] + bo)
            elif ht["k"] == "resume":
                nt = {"k": "goto", "t": t["u"]} if t.get("u") is not None else {"k": "resume"}
            else:
                nt = ren.term(ht)
            nblk = {"id": hb["id"] + bo, "cleanup": hb["cleanup"], "stmts": stmts, "term": nt}
            det["blocks"].append(nblk)
            byid[nblk["id"]] = nblk
            new_ids.append(nblk["id"])
            if nt["k"] == "call" and not nblk["cleanup"] and depth < DEPTH:
                h2 = _eligible(F, body, nt, stack)
                hc2 = _eligible_comb(F, body, det["blocks"], nt, stack) if h2 is None else None
                if h2 is not None:
                    work.append((nblk["id"], h2, depth + 1, stack + (h2.path,)))
                elif hc2 is not None:
                    work.append((nblk["id"], ("comb",) + hc2, depth, stack + ((hc2[1].path,) if hc2[1] is not None else ())))
                elif is_async or body.coroutine:
                    hp = _eligible_poll(F, body, nt, stack)
                    if hp is not None:
                        work.append((nblk["id"], hp, depth + 1, stack + (hp[0].path, hp[1].path)))
        for k, ty in hraw["locals"].items():
            det["locals"][str(int(k) + lo)] = ty
        for v in hraw["vars"]:
            if isinstance(v.get("v"), list) and v["v"] and isinstance(v["v"][0], int):
                det["vars"].append({"name": v["name"], "v": ren.place(v["v"]), "arg": None, "inlined_from": h.npath})
        det["extra"]["calls"] += _shift(h.calls_raw, bo)
        det["extra"]["aggregates"] += _shift(h.aggregates_raw, bo)
        det["extra"]["field_mut"] += _shift(h.field_mut_raw, bo)
        det["extra"]["asserts"] += _shift(h.asserts_raw, bo)
        blk["term"] = {"k": "goto", "t": pblock, "inlined_call": h.npath, "l": line}
        try:
            threaded = _thread_returns(thr, hraw, ren, ret_ids, t, is_async, dest)
        except Exception:
            threaded = 0
        det["inlined"].append({"callee": h.npath, "at_block": bid, "line": line, "depth": depth, "blocks": len(new_ids), "async": is_async,
                               "threaded_returns": threaded})
    det["blocks"].sort(key=lambda b: b["id"])
    top = det["blocks"][-1]["id"]
    if len(det["blocks"]) != top + 1:
        have = {b["id"] for b in det["blocks"]}
        for i in range(top + 1):
            if i not in have:
                det["blocks"].append({"id": i, "cleanup": True, "stmts": [], "term": {"k": "unreachable"}})
        det["blocks"].sort(key=lambda b: b["id"])
    return det


# ------------------------------------------------------------------ canonical form of bool returns

def normalise_bool_returns(det):
    """`fn f(..) -> bool { …; cond }`, `{ a == b }`, `{ g(x) }` store a computed value into the return place; `if cond { true } else
    { false }` stores constants behind a branch.  The rules talk about "returns true only if …", so every non-constant store of a bool
    return place is rewritten into the branch form: `x = <value>; switch x { 0 => _0 = false, _ => _0 = true }`.  Purely a change of
    presentation (the value is the same on every path); afterwards `return true` / `return false` sites exist in either source form."""
    ty0 = det["locals"].get("0", "")
    ty0 = str(ty0.get("ty", "")) if isinstance(ty0, dict) else str(ty0)
    if ty0 != "bool":
        return det
    todo = []
    for b in det["blocks"]:
        if b["cleanup"]:
            continue
        for i, s in enumerate(b["stmts"]):
            if s["d"] == [0] and not (s["rv"]["k"] == "use" and s["rv"]["a"][0] == "c"):
                todo.append((b["id"], "s"))
                break
        t = b["term"]
        if t["k"] == "call" and t.get("d") == [0] and t.get("t") is not None:
            todo.append((b["id"], "c"))
    if not todo:
        return det
    det = dict(det, blocks=[dict(b, stmts=list(b["stmts"]), term=dict(b["term"])) for b in det["blocks"]], locals=dict(det["locals"]))
    byid = {b["id"]: b for b in det["blocks"]}
    nb = max(byid) + 1
    nl = max([int(k) for k in det["locals"]] + [0]) + 1

    def add(stmts, term):
        nonlocal nb
        blk = {"id": nb, "cleanup": False, "stmts": stmts, "term": term}
        det["blocks"].append(blk)
        byid[nb] = blk
        nb += 1
        return blk

    for bid, kind in todo:
        b = byid[bid]
        while True:
            idx = next((i for i, s in enumerate(b["stmts"]) if s["d"] == [0] and not (s["rv"]["k"] == "use" and s["rv"]["a"][0] == "c")), None)
            if idx is None:
                break
            s = b["stmts"][idx]
            x = nl
            nl += 1
            det["locals"][str(x)] = "bool"
            rest = add(b["stmts"][idx + 1:], b["term"])
            bt = add([{"d": [0], "rv": {"k": "use", "a": ["c", "true", "bool"]}, "l": s.get("l"), "norm": True}], {"k": "goto", "t": rest["id"]})
            bf = add([{"d": [0], "rv": {"k": "use", "a": ["c", "false", "bool"]}, "l": s.get("l"), "norm": True}], {"k": "goto", "t": rest["id"]})
            b["stmts"] = b["stmts"][:idx] + [{"d": [x], "rv": s["rv"], "l": s.get("l")}]
            b["term"] = {"k": "switch", "on": ["mv", [x]], "targets": [["0", bf["id"]]], "otherwise": bt["id"], "l": s.get("l"), "bool_return": True}
            b = rest
        t = b["term"]
        if t["k"] == "call" and t.get("d") == [0] and t.get("t") is not None:
            x = nl
            nl += 1
            det["locals"][str(x)] = "bool"
            tgt = t["t"]
            bt = add([{"d": [0], "rv": {"k": "use", "a": ["c", "true", "bool"]}, "l": t.get("l"), "norm": True}], {"k": "goto", "t": tgt})
            bf = add([{"d": [0], "rv": {"k": "use", "a": ["c", "false", "bool"]}, "l": t.get("l"), "norm": True}], {"k": "goto", "t": tgt})
            sw = add([], {"k": "switch", "on": ["mv", [x]], "targets": [["0", bf["id"]]], "otherwise": bt["id"], "l": t.get("l"), "bool_return": True})
            t["d"] = [x]
            t["t"] = sw["id"]
    det["blocks"].sort(key=lambda b: b["id"])
    return det


def normalise_result_returns(det):
    """`fn f(..) -> Result<..> { …; g(x) }` / `{ …; res }` forward a computed Result (or Option) as the return value; `match g(x) { Ok(v) =>
    Ok(v), Err(e) => Err(e) }` builds it behind a branch.  Rules speak of "returns Ok only if …", so a forwarded value is rewritten into
    the branch form: `x = <value>; switch discriminant(x) { Ok => _0 = Ok(x.0), Err => _0 = Err(x.0) }` (Some/None alike).  `?`'s
    `from_residual` is left alone: it only ever yields the error variant."""
    ty0 = det["locals"].get("0", "")
    ty0 = str(ty0.get("ty", "")) if isinstance(ty0, dict) else str(ty0)
    head = ty0.split("<")[0]
    if head.endswith("result::Result") or head == "Result":
        adt, variants = "core::result::Result", [("Ok", 0), ("Err", 1)]
    elif head.endswith("option::Option") or head == "Option":
        adt, variants = "core::option::Option", [("None", 0), ("Some", 1)]
    else:
        return det

    def forwarded_stmt(s):
        rv = s["rv"]
        return s["d"] == [0] and rv["k"] == "use" and rv["a"][0] in ("mv", "cp") and len(rv["a"][1]) == 1 and not s.get("norm")

    def forwarded_call(t):
        if t["k"] != "call" or t.get("d") != [0] or t.get("t") is None:
            return False
        nm = (t.get("gen") or "") + " " + (t.get("callee") or "")
        return not ("from_residual" in nm)

    todo = [b["id"] for b in det["blocks"] if not b["cleanup"] and (any(forwarded_stmt(s) for s in b["stmts"]) or forwarded_call(b["term"]))]
    if not todo:
        return det
    det = dict(det, blocks=[dict(b, stmts=list(b["stmts"]), term=dict(b["term"])) for b in det["blocks"]], locals=dict(det["locals"]))
    byid = {b["id"]: b for b in det["blocks"]}
    st = {"nb": max(byid) + 1, "nl": max([int(k) for k in det["locals"]] + [0]) + 1}

    def add(stmts, term):
        blk = {"id": st["nb"], "cleanup": False, "stmts": stmts, "term": term}
        det["blocks"].append(blk)
        byid[st["nb"]] = blk
        st["nb"] += 1
        return blk

    def fresh(ty):
        l = st["nl"]
        st["nl"] += 1
        det["locals"][str(l)] = ty
        return l

    def split(x, line, cont):
        """blocks: d = discriminant(x); switch d → per variant `_0 = Variant(x.0)` → cont; returns the id of the switch block"""
        d = fresh("isize")
        arms = []
        for name, idx in variants:
            fields, ops = (["0"], [["mv", [x, "@" + name, ".0"]]]) if name not in ("None",) else ([], [])
            a = add([{"d": [0], "rv": {"k": "agg", "ak": "adt", "adt": adt, "variant": name, "fields": fields, "ops": ops}, "l": line, "norm": True}],
                    {"k": "goto", "t": cont})
            arms.append((idx, a["id"]))
        unreachable = add([], {"k": "unreachable"})
        sw = add([{"d": [d], "rv": {"k": "discr", "p": [x]}, "l": line, "norm": True}],
                 {"k": "switch", "on": ["mv", [d]], "targets": [[str(i), a] for i, a in arms], "otherwise": unreachable["id"], "l": line, "result_return": True})
        return sw["id"]

    for bid in todo:
        b = byid[bid]
        while True:
            idx = next((i for i, s in enumerate(b["stmts"]) if forwarded_stmt(s)), None)
            if idx is None:
                break
            s = b["stmts"][idx]
            x = s["rv"]["a"][1][0]
            rest = add(b["stmts"][idx + 1:], b["term"])
            sw = split(x, s.get("l"), rest["id"])
            b["stmts"] = b["stmts"][:idx]
            b["term"] = {"k": "goto", "t": sw}
            b = rest
        t = b["term"]
        if forwarded_call(t):
            x = fresh(ty0)
            sw = split(x, t.get("l"), t["t"])
            t["d"] = [x]
            t["t"] = sw
    det["blocks"].sort(key=lambda b: b["id"])
    return det
