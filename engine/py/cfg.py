"""CFG utilities over the detailed MIR facts of one body."""
from collections import deque


def pl_str(p):
    s = "_%d" % p[0]
    for e in p[1:]:
        if e == "*":
            s = "(*%s)" % s
        elif e.startswith("."):
            s = "%s%s" % (s, e)
        elif e.startswith("@"):
            s = "(%s as %s)" % (s, e[1:])
        else:
            s = "%s%s" % (s, e)
    return s


def op_str(o):
    k = o[0]
    if k in ("cp", "mv"):
        return ("move " if k == "mv" else "") + pl_str(o[1])
    if k == "c":
        return "const %s" % o[1]
    if k == "f":
        return "fn %s" % o[1]
    return "?"


def rv_str(rv):
    k = rv["k"]
    if k == "use":
        return op_str(rv["a"])
    if k == "ref":
        return ("&mut " if rv["mut"] else "&") + pl_str(rv["p"])
    if k == "rawptr":
        return "&raw " + pl_str(rv["p"])
    if k == "cast":
        return "%s as %s (%s)" % (op_str(rv["a"]), rv["ty"], rv["ck"])
    if k == "bin":
        return "%s(%s, %s)" % (rv["op"], op_str(rv["a"]), op_str(rv["b"]))
    if k == "un":
        return "%s(%s)" % (rv["op"], op_str(rv["a"]))
    if k == "discr":
        return "discriminant(%s)" % pl_str(rv["p"])
    if k == "agg":
        nm = rv["adt"] + ("::" + rv["variant"] if rv["variant"] else "")
        return "%s %s{%s}" % (rv["ak"], nm, ", ".join(
            ("%s: " % f if f else "") + op_str(o) for f, o in zip(rv["fields"] + [None] * len(rv["ops"]), rv["ops"])))
    if k == "repeat":
        return "[%s; _]" % op_str(rv["a"])
    if k == "setdiscr":
        return "setdiscr %s" % rv["v"]
    return k


def term_str(t):
    k = t["k"]
    if k == "goto":
        return "goto bb%d" % t["t"]
    if k == "switch":
        return "switch %s [%s, otherwise bb%d]" % (op_str(t["on"]), ", ".join("%s→bb%d" % (v, b) for v, b in t["targets"]), t["otherwise"])
    if k == "call":
        return "%s = %s(%s) → %s" % (pl_str(t["d"]), t["callee"] or op_str(t["f"]), ", ".join(op_str(a) for a in t["args"]),
                                     "bb%d" % t["t"] if t["t"] is not None else "!")
    if k == "drop":
        return "drop(%s) → bb%d" % (pl_str(t["p"]), t["t"])
    if k == "assert":
        return "assert(%s == %s, %s) → bb%d" % (op_str(t["cond"]), t["expected"], t["kind"], t["t"])
    if k == "yield":
        return "yield → bb%d" % t["t"]
    return k


class CFG:
    def __init__(self, body):
        self.body = body
        self.blocks = {b["id"]: b for b in body.blocks}
        self.succ = {}
        self.pred = {i: [] for i in self.blocks}
        self.folded = []
        for i, b in self.blocks.items():
            ss = self._succ(b["term"])
            t = b["term"]
            if t["k"] == "switch" and t["on"][0] in ("cp", "mv") and len(t["on"][1]) == 1:
                # literal-boolean folding: `cfg!(feature = ..)` lowers to `_x = const true|false; switchInt(_x)`
                l = t["on"][1][0]
                val = None
                for st in b["stmts"]:
                    if st["d"] == [l]:
                        rv = st["rv"]
                        val = rv["a"][1] if rv["k"] == "use" and rv["a"][0] == "c" and rv["a"][1] in ("true", "false") else None
                if val is not None:
                    keep = [(d, v) for d, v in ss if (v == "otherwise") == (val == "true") and (val == "true" or v == "0")]
                    if keep:
                        self.folded.append((i, val))
                        ss = keep
            self.succ[i] = ss
        for i, ss in self.succ.items():
            for s, _ in ss:
                self.pred[s].append(i)
        self._dom = None

    @staticmethod
    def _succ(t):
        k = t["k"]
        if k == "goto":
            return [(t["t"], None)]
        if k == "switch":
            out = [(b, v) for v, b in t["targets"]]
            out.append((t["otherwise"], "otherwise"))
            return out
        if k in ("call", "drop", "assert", "yield"):
            return [(t["t"], None)] if t["t"] is not None else []
        if k == "asm":
            return [(x, None) for x in t["ts"]]
        return []

    def term(self, i):
        return self.blocks[i]["term"]

    def stmts(self, i):
        return self.blocks[i]["stmts"]

    def reach(self, starts=(0,), cut=frozenset(), avoid=frozenset()):
        """Blocks reachable along normal (non-unwind) edges from `starts`, never crossing an edge in
        `cut` (set of (src,dst)) and never entering a block in `avoid`."""
        seen = set()
        dq = deque(s for s in starts if s not in avoid)
        seen.update(dq)
        while dq:
            b = dq.popleft()
            for s, _ in self.succ[b]:
                if (b, s) in cut or s in avoid or s in seen:
                    continue
                seen.add(s)
                dq.append(s)
        return seen

    def path(self, starts, goal_set, cut=frozenset(), avoid=frozenset()):
        """One shortest path (list of block ids) from starts to any block in goal_set."""
        prev = {}
        dq = deque()
        for s in starts:
            if s not in avoid:
                prev[s] = None
                dq.append(s)
        while dq:
            b = dq.popleft()
            if b in goal_set:
                out = []
                while b is not None:
                    out.append(b)
                    b = prev[b]
                return out[::-1]
            for s, _ in self.succ[b]:
                if (b, s) in cut or s in avoid or s in prev:
                    continue
                prev[s] = b
                dq.append(s)
        return None

    def dominators(self):
        if self._dom is not None:
            return self._dom
        order = []
        seen = set()
        stack = [(0, iter(self.succ[0]))]
        seen.add(0)
        while stack:
            n, it = stack[-1]
            adv = False
            for s, _ in it:
                if s not in seen:
                    seen.add(s)
                    stack.append((s, iter(self.succ[s])))
                    adv = True
                    break
            if not adv:
                order.append(n)
                stack.pop()
        rpo = order[::-1]
        idx = {n: i for i, n in enumerate(rpo)}
        idom = {0: 0}
        changed = True
        while changed:
            changed = False
            for n in rpo[1:]:
                ps = [p for p in self.pred[n] if p in idom]
                if not ps:
                    continue
                new = ps[0]
                for p in ps[1:]:
                    a, b = p, new
                    while a != b:
                        while idx[a] > idx[b]:
                            a = idom[a]
                        while idx[b] > idx[a]:
                            b = idom[b]
                    new = a
                if idom.get(n) != new:
                    idom[n] = new
                    changed = True
        self._dom = idom
        return idom

    def dominates(self, a, b):
        idom = self.dominators()
        if b not in idom:
            return False
        while True:
            if a == b:
                return True
            if b == 0:
                return False
            b = idom[b]

    def lines(self, blocks):
        out = []
        for b in blocks:
            t = self.blocks[b]["term"]
            l = t.get("l")
            if l and (not out or out[-1] != l):
                out.append(l)
        return out


def cfg_of(body):
    if body._cfg is None:
        body._cfg = CFG(body)
    return body._cfg


NOISE_MACROS = {"trace", "debug", "info", "warn", "error", "event", "span", "debug_span", "info_span",
                "trace_span", "warn_span", "error_span", "log", "println", "eprintln"}


def show(body, noise=False, out=None):
    import sys
    out = out or sys.stdout
    g = cfg_of(body)
    names = {}
    for v in body.vars:
        if isinstance(v["v"], list) and v["v"] and isinstance(v["v"][0], int):
            names.setdefault(pl_str(v["v"]), v["name"])
    print("fn %s  [%s:%s-%s] blocks=%d argc=%d" % (body.path, body.file, body.lines[0], body.lines[1], body.nblocks, body.argc), file=out)
    print("  vars: " + ", ".join("%s=%s" % (n, p) for p, n in names.items()), file=out)
    noise_lines = set()
    for b in g.blocks.values():
        if b["term"].get("mac") in NOISE_MACROS:
            noise_lines.add(b["term"].get("l"))
    hidden = 0
    for i in sorted(g.blocks):
        b = g.blocks[i]
        if b["cleanup"]:
            continue
        t = b["term"]
        if not noise:
            ls = {s["l"] for s in b["stmts"]} | ({t.get("l")} if t.get("l") else set())
            if t.get("mac") in NOISE_MACROS or (ls and ls <= noise_lines) or (not ls and not b["stmts"] and t["k"] == "goto"):
                hidden += 1
                continue
        print("  bb%d:" % i, file=out)
        for s in b["stmts"]:
            print("      %s = %s   // %s" % (pl_str(s["d"]), rv_str(s["rv"]), s["l"]), file=out)
        print("      %s   // %s" % (term_str(t), t.get("l", "")), file=out)
