"""CFG utilities over the detailed MIR facts of one body."""
import os
from collections import deque


def pl_str(p):
    s = "_%d" % p[0]
    for e in p[1:]:
        if e == "*":
            s = "(*%s)" % s
        elif e.startswith("."):
            s = "%s%s" % (s, e)
        elif e.startswith("@"):
            s = "(%s as %s)" % (s, e[1:])
        else:
            s = "%s%s" % (s, e)
    return s


def op_str(o):
    k = o[0]
    if k in ("cp", "mv"):
        return ("move " if k == "mv" else "") + pl_str(o[1])
    if k == "c":
        return "const %s" % o[1]
    if k == "f":
        return "fn %s" % o[1]
    return "?"


def rv_str(rv):
    k = rv["k"]
    if k == "use":
        return op_str(rv["a"])
    if k == "ref":
        return ("&mut " if rv["mut"] else "&") + pl_str(rv["p"])
    if k == "rawptr":
        return "&raw " + pl_str(rv["p"])
    if k == "cast":
        return "%s as %s (%s)" % (op_str(rv["a"]), rv["ty"], rv["ck"])
    if k == "bin":
        return "%s(%s, %s)" % (rv["op"], op_str(rv["a"]), op_str(rv["b"]))
    if k == "un":
        return "%s(%s)" % (rv["op"], op_str(rv["a"]))
    if k == "discr":
        return "discriminant(%s)" % pl_str(rv["p"])
    if k == "agg":
        nm = rv["adt"] + ("::" + rv["variant"] if rv["variant"] else "")
        return "%s %s{%s}" % (rv["ak"], nm, ", ".join(
            ("%s: " % f if f else "") + op_str(o) for f, o in zip(rv["fields"] + [None] * len(rv["ops"]), rv["ops"])))
    if k == "repeat":
        return "[%s; _]" % op_str(rv["a"])
    if k == "setdiscr":
        return "setdiscr %s" % rv["v"]
    return k


def term_str(t):
    k = t["k"]
    if k == "goto":
        return "goto bb%d" % t["t"]
    if k == "switch":
        return "switch %s [%s, otherwise bb%d]" % (op_str(t["on"]), ", ".join("%s→bb%d" % (v, b) for v, b in t["targets"]), t["otherwise"])
    if k == "call":
        return "%s = %s(%s) → %s" % (pl_str(t["d"]), t["callee"] or op_str(t["f"]), ", ".join(op_str(a) for a in t["args"]),
                                     "bb%d" % t["t"] if t["t"] is not None else "!")
    if k == "drop":
        return "drop(%s) → bb%d" % (pl_str(t["p"]), t["t"])
    if k == "assert":
        return "assert(%s == %s, %s) → bb%d" % (op_str(t["cond"]), t["expected"], t["kind"], t["t"])
    if k == "yield":
        return "yield → bb%d" % t["t"]
    return k


class CFG:
    def __init__(self, body):
        self.body = body
        self.blocks = {b["id"]: b for b in body.blocks}
        self.succ = {}
        self.pred = {i: [] for i in self.blocks}
        self.folded = []
        for i, b in self.blocks.items():
            ss = self._succ(b["term"])
            t = b["term"]
            if t["k"] == "switch" and t["on"][0] in ("cp", "mv") and len(t["on"][1]) == 1:
                # literal-boolean folding: `cfg!(feature = ..)` lowers to `_x = const true|false; switchInt(_x)`
                l = t["on"][1][0]
                val = None
                for st in b["stmts"]:
                    if st["d"] == [l]:
                        rv = st["rv"]
                        val = rv["a"][1] if rv["k"] == "use" and rv["a"][0] == "c" and rv["a"][1] in ("true", "false") else None
                if val is not None:
                    keep = [(d, v) for d, v in ss if (v == "otherwise") == (val == "true") and (val == "true" or v == "0")]
                    if keep:
                        self.folded.append((i, val))
                        ss = keep
            if t["k"] == "switch" and t["on"][0] in ("cp", "mv") and len(t["on"][1]) == 1:
                # literal-variant folding: `return Err(e)?` / `Err(e)?` — `?` applied to a value built in place as `Err(..)` / `None`
                # always takes the residual (Break) side; the Continue side is not a path of the program
                lit = None if os.environ.get("VERIF_NO_VARIANT_FOLD") else self._literal_variant(b, t["on"][1][0])
                if lit is not None:
                    keep = [(d, v) for d, v in ss if v == lit]
                    if keep:
                        self.folded.append((i, "variant#" + lit))
                        ss = keep
            self.succ[i] = ss
        for i, ss in self.succ.items():
            for s, _ in ss:
                self.pred[s].append(i)
        self._dom = None

    def _defs(self):
        if getattr(self, "_defmap", None) is None:
            dm = {}
            for b in self.body.blocks:
                for st in b["stmts"]:
                    if len(st["d"]) == 1:
                        dm.setdefault(st["d"][0], []).append(("s", st["rv"]))
                    elif st["d"]:
                        dm.setdefault(st["d"][0], []).append(("p", None))      # a write through a projection
                tt = b["term"]
                if tt["k"] == "call" and tt.get("d"):
                    dm.setdefault(tt["d"][0], []).append(("c", tt))
            self._defmap = dm
        return self._defmap

    def _literal_variant(self, blk, l):
        """switch value ("0"/"1") that a switch on local `l` (= discriminant of a `Try::branch` result) must take because the operand of
        that `branch` is, by its single definition, an `Err(..)` / `None` aggregate; else None."""
        disc = [st["rv"] for st in blk["stmts"] if st["d"] == [l]]
        if len(disc) != 1 or disc[0]["k"] != "discr" or len(disc[0]["p"]) != 1:
            return None
        dm = self._defs()
        r = disc[0]["p"][0]
        d = dm.get(r, [])
        if len(d) != 1 or d[0][0] != "c":
            return None
        call = d[0][1]
        cal = (call.get("callee") or "") + " " + (call.get("gen") or "")
        if "Try>::branch" not in cal and "Try::branch" not in cal:
            return None
        a = call["args"][0] if call.get("args") else None
        if not a or a[0] not in ("cp", "mv") or len(a[1]) != 1:
            return None
        src = dm.get(a[1][0], [])
        if len(src) != 1 or src[0][0] != "s" or src[0][1]["k"] != "agg":
            return None
        if src[0][1].get("variant") in ("Err", "None"):
            return "1"      # ControlFlow::Break
        return None

    @staticmethod
    def _succ(t):
        k = t["k"]
        if k == "goto":
            return [(t["t"], None)]
        if k == "switch":
            out = [(b, v) for v, b in t["targets"]]
            out.append((t["otherwise"], "otherwise"))
            return out
        if k in ("call", "drop", "assert", "yield"):
            return [(t["t"], None)] if t["t"] is not None else []
        if k == "asm":
            return [(x, None) for x in t["ts"]]
        return []

    def term(self, i):
        return self.blocks[i]["term"]

    def stmts(self, i):
        return self.blocks[i]["stmts"]

    def reach(self, starts=(0,), cut=frozenset(), avoid=frozenset()):
        """Blocks reachable along normal (non-unwind) edges from `starts`, never crossing an edge in
        `cut` (set of (src,dst)) and never entering a block in `avoid`."""
        seen = set()
        dq = deque(s for s in starts if s not in avoid)
        seen.update(dq)
        while dq:
            b = dq.popleft()
            for s, _ in self.succ[b]:
                if (b, s) in cut or s in avoid or s in seen:
                    continue
                seen.add(s)
                dq.append(s)
        return seen

    def path(self, starts, goal_set, cut=frozenset(), avoid=frozenset()):
        """One shortest path (list of block ids) from starts to any block in goal_set."""
        prev = {}
        dq = deque()
        for s in starts:
            if s not in avoid:
                prev[s] = None
                dq.append(s)
        while dq:
            b = dq.popleft()
            if b in goal_set:
                out = []
                while b is not None:
                    out.append(b)
                    b = prev[b]
                return out[::-1]
            for s, _ in self.succ[b]:
                if (b, s) in cut or s in avoid or s in prev:
                    continue
                prev[s] = b
                dq.append(s)
        return None

    def dominators(self):
        if self._dom is not None:
            return self._dom
        order = []
        seen = set()
        stack = [(0, iter(self.succ[0]))]
        seen.add(0)
        while stack:
            n, it = stack[-1]
            adv = False
            for s, _ in it:
                if s not in seen:
                    seen.add(s)
                    stack.append((s, iter(self.succ[s])))
                    adv = True
                    break
            if not adv:
                order.append(n)
                stack.pop()
        rpo = order[::-1]
        idx = {n: i for i, n in enumerate(rpo)}
        idom = {0: 0}
        changed = True
        while changed:
            changed = False
            for n in rpo[1:]:
                ps = [p for p in self.pred[n] if p in idom]
                if not ps:
                    continue
                new = ps[0]
                for p in ps[1:]:
                    a, b = p, new
                    while a != b:
                        while idx[a] > idx[b]:
                            a = idom[a]
                        while idx[b] > idx[a]:
                            b = idom[b]
                    new = a
                if idom.get(n) != new:
                    idom[n] = new
                    changed = True
        self._dom = idom
        return idom

    def dominates(self, a, b):
        idom = self.dominators()
        if b not in idom:
            return False
        while True:
            if a == b:
                return True
            if b == 0:
                return False
            b = idom[b]

    def lines(self, blocks):
        out = []
        for b in blocks:
            t = self.blocks[b]["term"]
            l = t.get("l")
            if l and (not out or out[-1] != l):
                out.append(l)
        return out


def cfg_of(body):
    if body._cfg is None:
        body._cfg = CFG(body)
    return body._cfg


NOISE_MACROS = {"trace", "debug", "info", "warn", "error", "event", "span", "debug_span", "info_span",
                "trace_span", "warn_span", "error_span", "log", "println", "eprintln"}


def show(body, noise=False, out=None):
    import sys
    out = out or sys.stdout
    g = cfg_of(body)
    names = {}
    for v in body.vars:
        if isinstance(v["v"], list) and v["v"] and isinstance(v["v"][0], int):
            names.setdefault(pl_str(v["v"]), v["name"])
    print("fn %s  [%s:%s-%s] blocks=%d argc=%d" % (body.path, body.file, body.lines[0], body.lines[1], body.nblocks, body.argc), file=out)
    print("  vars: " + ", ".join("%s=%s" % (n, p) for p, n in names.items()), file=out)
    noise_lines = set()
    for b in g.blocks.values():
        if b["term"].get("mac") in NOISE_MACROS:
            noise_lines.add(b["term"].get("l"))
    hidden = 0
    for i in sorted(g.blocks):
        b = g.blocks[i]
        if b["cleanup"]:
            continue
        t = b["term"]
        if not noise:
            ls = {s["l"] for s in b["stmts"]} | ({t.get("l")} if t.get("l") else set())
            if t.get("mac") in NOISE_MACROS or (ls and ls <= noise_lines) or (not ls and not b["stmts"] and t["k"] == "goto"):
                hidden += 1
                continue
        print("  bb%d:" % i, file=out)
        for s in b["stmts"]:
            print("      %s = %s   // %s" % (pl_str(s["d"]), rv_str(s["rv"]), s["l"]), file=out)
        print("      %s   // %s" % (term_str(t), t.get("l", "")), file=out)


# ---------------------------------------------------------------- infeasible-edge pruning (integer tests against constants)

_REL = {"Lt": lambda a, k: a < k, "Le": lambda a, k: a <= k, "Gt": lambda a, k: a > k, "Ge": lambda a, k: a >= k,
        "Eq": lambda a, k: a == k, "Ne": lambda a, k: a != k}
_SWAP = {"Lt": "Gt", "Le": "Ge", "Gt": "Lt", "Ge": "Le", "Eq": "Eq", "Ne": "Ne"}
_NEG = {"Lt": "Ge", "Le": "Gt", "Gt": "Le", "Ge": "Lt", "Eq": "Ne", "Ne": "Eq"}


def _const_small_int(o):
    import re
    if o[0] != "c":
        return None
    m = re.match(r"^(\d+)_(?:usize|u8|u16|u32|u64)$", o[1])
    return int(m.group(1)) if m else None


def infeasible_edges(body):
    """Edges (src, dst) that cannot be taken because an if-chain over the same unsigned variable with small constants
    (`if n > 1 {..return} if n == 0 {..return} if n == 1 {..}`) is exhaustive.  Only comparisons of a *user variable copy*
    against integer literals < 64 are considered; values are checked over 0..=64 (65 stands for 'anything larger')."""
    g = cfg_of(body)
    # origin of a local: follow plain copies back to a root local
    copy_of = {}
    for b in body.blocks:
        for s in b["stmts"]:
            rv = s["rv"]
            if rv["k"] == "use" and rv["a"][0] in ("cp", "mv") and len(rv["a"][1]) == 1 and len(s["d"]) == 1:
                copy_of.setdefault(s["d"][0], rv["a"][1][0])

    def root(l):
        seen = set()
        while l in copy_of and l not in seen:
            seen.add(l)
            l = copy_of[l]
        return l
    # tests: block -> (root var, rel(var,k), k, true_target, false_target)
    tests = {}
    for b in body.blocks:
        t = b["term"]
        if b["cleanup"] or t["k"] != "switch" or t["on"][0] not in ("cp", "mv") or len(t["on"][1]) != 1:
            continue
        l = t["on"][1][0]
        for s in b["stmts"]:
            rv = s["rv"]
            if s["d"] == [l] and rv["k"] == "bin" and rv["op"] in _REL:
                ka, kb = _const_small_int(rv["a"]), _const_small_int(rv["b"])
                if kb is not None and rv["a"][0] in ("cp", "mv") and len(rv["a"][1]) == 1 and kb < 64:
                    var, rel, k = root(rv["a"][1][0]), rv["op"], kb
                elif ka is not None and rv["b"][0] in ("cp", "mv") and len(rv["b"][1]) == 1 and ka < 64:
                    var, rel, k = root(rv["b"][1][0]), _SWAP[rv["op"]], ka
                else:
                    continue
                f = [d for v, d in t["targets"] if v == "0"]
                if len(f) == 1:
                    tests[b["id"]] = (var, rel, k, t["otherwise"], f[0])
    if len(tests) < 2:
        return set()
    # a variable must be assigned once for this to be sound
    ndef = {}
    for b in body.blocks:
        for s in b["stmts"]:
            if len(s["d"]) == 1:
                ndef[s["d"][0]] = ndef.get(s["d"][0], 0) + 1
        if b["term"]["k"] == "call" and len(b["term"]["d"]) == 1:
            ndef[b["term"]["d"][0]] = ndef.get(b["term"]["d"][0], 0) + 1
    out = set()
    for bid, (var, rel, k, tt, ft) in tests.items():
        if ndef.get(var, 0) > 1:
            continue
        # constraints from dominating tests on the same variable
        cons = []
        for did, (v2, r2, k2, t2, f2) in tests.items():
            if did == bid or v2 != var or not g.dominates(did, bid):
                continue
            # which side of `did` leads here?  reachable from exactly one side
            from_t = bid in g.reach((t2,), cut={(did, f2)})
            from_f = bid in g.reach((f2,), cut={(did, t2)})
            # remove paths going back through did
            if from_t and not from_f:
                cons.append((r2, k2))
            elif from_f and not from_t:
                cons.append((_NEG[r2], k2))
        if not cons:
            continue
        dom = [a for a in range(0, 130) if all(_REL[r](a, kk) for r, kk in cons)]
        if not dom:
            continue
        if not any(_REL[rel](a, k) for a in dom):
            out.add((bid, tt))
        if all(_REL[rel](a, k) for a in dom):
            out.add((bid, ft))
    return out
