"""Writer/reader agreement of derive-generated serde impls (K7 table agreement over the type closure of a persisted root type).

For every workspace struct / enum reachable through field types from the given roots that has a derive-generated
`Serialize::serialize` and `Deserialize` field/variant visitor:
  * the names the writer emits (serialize_field / serialize_*_variant) equal the names the reader's `visit_str` recognises;
  * a struct writes each of its fields (no `skip_serializing`), an enum each of its variants;
  * no `serialize_field` can be bypassed on the way to `SerializeStruct::end` (`skip_serializing_if`), unless listed in `optional`.
It decides the structural part of "what is saved loads back to the same state": a field that is written under one name and read under
another, or not written at all, is silently replaced by its default on the next load."""
from cfg import cfg_of
from flow import prep
from panics import type_closure

SER_CALLS = ("serialize_field", "serialize_unit_variant", "serialize_newtype_variant", "serialize_struct_variant", "serialize_tuple_variant")


def _name_of(c, is_variant):
    cs = [k for k in c["consts"] if isinstance(k[1], str) and k[1].startswith('"')]
    if not cs:
        return None
    # serialize_field(state, NAME, value); serialize_*_variant(ser, TYPE_NAME, index, VARIANT, ..)
    return (cs[-1] if is_variant else cs[0])[1].strip('"')


def serde_agreement(R, rule, roots, floor, optional=(), transient=()):
    F = R.F
    tc = type_closure(F, list(roots))
    n, ok = 0, True
    rows = {}
    for a in sorted(tc):
        adt = F.adts.get(a)
        if not adt:
            continue
        ser = [b for b in F.bodies.values() if b.path.endswith("<impl serde::ser::Serialize for %s>::serialize" % a)]
        de = [b for b in F.bodies.values() if ("<impl serde::de::Deserialize<'de> for %s>::deserialize::__FieldVisitor as serde::de::Visitor<'de>>::visit_str" % a) in b.path]
        if len(ser) != 1 or len(de) != 1:
            continue        # newtype / hand-written impls: no name table to compare
        sb, db = ser[0], de[0]
        is_enum = adt.get("kind") == "enum"
        W = []
        for c in sb.calls:
            g = c["ngen"] or ""
            if g.endswith(SER_CALLS) and g.startswith("serde::ser::"):
                W.append((_name_of(c, not g.endswith("serialize_field")), c))
        Rn = [c["consts"][0][1].strip('"') for c in db.calls if (c["ngen"] or "") == "core::cmp::PartialEq::eq" and c["consts"]]
        if any(w is None for w, _ in W):
            continue
        n += 1
        wn = [w for w, _ in W]
        rows[a] = {"written": sorted(wn), "read": sorted(Rn)}
        if sorted(wn) != sorted(Rn):
            ok = False
            for x in sorted(set(wn) ^ set(Rn)):
                R.viol(rule, "serde-name:%s.%s" % (a.split("::")[-1], x), "%s: `%s` is %s: the value does not survive a save/load round trip" % (
                    a, x, "written but not recognised by the reader" if x in wn else "read but never written"), sb, sb.lines[0])
        want = len(adt["variants"]) if is_enum else sum(len(v["fields"]) for v in adt["variants"])
        skipped = want - len(set(wn))
        allowed = sum(1 for t in transient if t.startswith(a + "."))
        if skipped > allowed:
            ok = False
            names = [f["name"] for v in adt["variants"] for f in v["fields"]] if not is_enum else [v["name"] for v in adt["variants"]]
            missing = [x for x in names if x not in wn and (a + "." + x) not in transient]
            R.viol(rule, "serde-skipped:%s:%s" % (a.split("::")[-1], ",".join(missing) or "?"), "%s has %d %s but its Serialize impl writes %d: %s not persisted" % (
                a, want, "variants" if is_enum else "fields", len(set(wn)), ", ".join(missing) or "some"), sb, sb.lines[0])
        if not is_enum:
            prep(sb)
            g = cfg_of(sb)
            ends = {b["id"] for b in sb.blocks if b["term"]["k"] == "call" and not b["cleanup"] and (b["term"].get("gen") or "").endswith("SerializeStruct::end")}
            for w, c in W:
                if (a + "." + w) in optional:
                    continue
                if ends and g.reach((0,), avoid={c["bb"]}) & ends:
                    ok = False
                    R.viol(rule, "serde-conditional:%s.%s" % (a.split("::")[-1], w), "%s.%s is not written on every save (skip_serializing_if)" % (a, w), sb, sb.lines[0])
    # hand-written `serialize_with` functions for Option fields: absent is written only for None — a `Some(x)` that is written as
    # `none` for some x (say an empty list) loads back as None, and save/load is no longer the identity
    from flow import callee_matches, op_local, Taint
    from rules import FieldOptGuard, Tracker
    custom = {}
    for b in F.bodies.values():
        if "__SerializeWith" in b.path and b.path.endswith("::serialize") and any(a in b.path for a in tc):
            for c in b.calls_raw:
                for hb in F.by_npath.get(c["ncallee"] or "", []):
                    if hb.crate == b.crate and hb.kind in ("fn", "assoc_fn"):
                        custom[hb.path] = hb
    ncustom = 0
    for hb in custom.values():
        prep(hb)
        if not str(hb.locals.get("1", "")).replace(" ", "").startswith(("&core::option::Option<", "&std::option::Option<", "&Option<")):
            continue
        nones = [blk["id"] for blk in hb.blocks if blk["term"]["k"] == "call" and not blk["cleanup"] and (blk["term"].get("ngen") or blk["term"].get("ncallee") or "").endswith("Serializer::serialize_none")]
        if not nones:
            continue
        ncustom += 1
        tr = Tracker(hb)
        for l in Taint(hb).closure({1}):
            tr.seed_call_result(l, ("None",), False)
        tr.run()
        g = cfg_of(hb)
        if not tr.accept or (set(nones) & g.reach((0,), cut=tr.accept)):
            ok = False
            R.viol(rule, "serde-with-none:%s" % hb.npath.split("::")[-1], "%s writes `none` for a value that is not None: it loads back as None (save/load is not the identity)" % hb.npath, hb, hb.lines[0])
    rows["custom_option_serialisers"] = ncustom
    if n < floor:
        ok = False
        R.viol(rule, "instance-floor", "only %d derive-generated serde pairs found under %s (floor %d)" % (n, ", ".join(roots), floor))
    R.inst(rule, "K7 table agreement", "derived Serialize/Deserialize of %s and everything stored inside: same names, every field/variant written, unconditionally" % ", ".join(r.split("::")[-1] for r in roots), n, ok, {"pairs": rows})
    return ok


def wire_layout(F, roots):
    """{adt: [field / variant names in the order the derive-generated Serialize writes them]} over the type closure of `roots`.
    With a compact (positional) serde format that order *is* the wire layout."""
    tc = type_closure(F, list(roots))
    out = {}
    for a in sorted(tc):
        adt = F.adts.get(a)
        if not adt:
            continue
        ser = [b for b in F.bodies.values() if b.path.endswith("<impl serde::ser::Serialize for %s>::serialize" % a)]
        if len(ser) != 1:
            continue
        W = []
        for c in sorted(ser[0].calls_raw, key=lambda c: (c.get("bb", 0), c.get("line", 0))):
            g = c["ngen"] or ""
            if g.endswith(SER_CALLS) and g.startswith("serde::ser::"):
                W.append(_name_of(c, not g.endswith("serialize_field")))
        if W and all(w is not None for w in W):
            out[a] = W
    return out
