"""Model of a command-line writer function: the sequence of OsString elements it emits (K7 for C20)."""
import re

from cfg import cfg_of
from flow import Taint, backward_calls, callee_matches, field_reads, op_local, prep

OSFROM = ["*<std::ffi::os_str::OsString as core::convert::From<&T>>::from", "*<std::ffi::os_str::OsString as core::convert::From<alloc::string::String>>::from",
          "*OsString as core::convert::From<&T>>::from", "*OsString as core::convert::From<alloc::string::String>>::from"]


def _fields_behind(body, local):
    """field names read on the way to `local` (backward through assignments and calls)"""
    locs, calls = backward_calls(body, local)
    out = set()
    for b in body.blocks:
        if b["cleanup"]:
            continue
        for s in b["stmts"]:
            if s["d"][0] in locs:
                rv = s["rv"]
                p = None
                if rv["k"] == "use" and rv["a"][0] in ("cp", "mv"):
                    p = rv["a"][1]
                elif rv["k"] in ("ref", "discr"):
                    p = rv["p"]
                if p:
                    fs = [e[1:] for e in p[1:] if e.startswith(".") and not e[1:].isdigit() and not e.startswith(".upv")]
                    if fs:
                        out.add(".".join(fs))
    seps = set()
    for c in calls:
        if (c["ncallee"] or "").endswith("::join") or "Join" in (c["ncallee"] or ""):
            for a in c["args"]:
                if a[0] == "c" and a[1].startswith('"'):
                    seps.add(a[1].strip('"'))
                elif a[0] in ("cp", "mv"):
                    v = _const_str(body, a[1][0])
                    if v is not None:
                        seps.add(v)
    return out, {c["ncallee"] for c in calls} | {"join:" + x for x in seps}


def _const_str(body, local, depth=4):
    """string literal a local refers to, following plain copies and references"""
    if depth < 0:
        return None
    for b in body.blocks:
        for st in b["stmts"]:
            if st["d"] != [local]:
                continue
            rv = st["rv"]
            if rv["k"] == "use" and rv["a"][0] == "c" and rv["a"][1].startswith('"'):
                return rv["a"][1].strip('"')
            src = rv["a"][1][0] if rv["k"] == "use" and rv["a"][0] in ("cp", "mv") else rv["p"][0] if rv["k"] == "ref" else None
            if src is not None:
                return _const_str(body, src, depth - 1)
    return None


def events(body):
    """[{bb, flag|None, fields, calls, line}] for every OsString::from call, in block order."""
    prep(body)
    out = []
    for b in body.blocks:
        t = b["term"]
        if b["cleanup"] or t["k"] != "call" or not callee_matches(t, OSFROM):
            continue
        a = t["args"][0]
        if a[0] == "c":
            s = a[1].strip('"')
            out.append({"bb": b["id"], "flag": s if s.startswith("--") else None, "const": s, "fields": set(), "calls": set(), "line": t["l"]})
        else:
            fs, cs = _fields_behind(body, op_local(a))
            out.append({"bb": b["id"], "flag": None, "const": None, "fields": fs, "calls": cs, "line": t["l"]})
    return out


def model(body):
    """flag -> {takes_value, value_fields, guard_fields, conditional, line}; plus ordered positional values."""
    prep(body)
    g = cfg_of(body)
    ev = events(body)
    by_bb = {e["bb"]: e for e in ev}
    ev_blocks = set(by_bb)
    # success exit: the block(s) building the returned Ok / or plain returns
    rets = {b["id"] for b in body.blocks if b["term"]["k"] == "return" and not b["cleanup"]}
    okret = {b["id"] for b in body.blocks if not b["cleanup"] for s in b["stmts"] if s["d"] == [0] and s["rv"]["k"] == "agg" and s["rv"]["variant"] == "Ok"} or rets
    flags = {}
    positional = []
    order = []
    for e in ev:
        # first events reachable after e
        nxt = set()
        seen = set()
        todo = [d for d, _ in g.succ[e["bb"]]]
        while todo:
            x = todo.pop()
            if x in seen:
                continue
            seen.add(x)
            if x in ev_blocks:
                nxt.add(x)
                continue
            todo.extend(d for d, _ in g.succ[x])
        e["next"] = nxt
    for e in ev:
        if e["flag"] is None:
            continue
        nx = [by_bb[x] for x in e["next"]]
        vals = [x for x in nx if x["flag"] is None and x["const"] is None and g.dominates(e["bb"], x["bb"])]
        takes = bool(nx) and len(vals) == len(nx)
        # conditional?  can the success exit be reached from entry avoiding this event
        cond = bool(g.reach((0,), avoid={e["bb"]}) & okret)
        guard = set()
        if cond:
            # every dominating switch with one side reaching e and another reaching success without e (an `else if`
            # chain makes the flag depend on the earlier conditions too)
            idom = g.dominators()
            d = e["bb"]
            while d != 0:
                d = idom[d]
                t = g.term(d)
                if t["k"] != "switch":
                    continue
                sides = [s for s, _ in g.succ[d] if g.term(s)["k"] != "unreachable"]     # `match` on an Option has an unreachable `otherwise`
                hits = [s for s in sides if e["bb"] in g.reach((s,))]
                miss = [s for s in sides if g.reach((s,), avoid={e["bb"]}) & okret and g.term(s)["k"] != "unreachable"]
                if hits and miss and set(hits) != set(sides) | set():
                    l = op_local(t["on"])
                    if l is not None:
                        guard = guard | _fields_behind(body, l)[0]
        flags.setdefault(e["flag"], []).append({
            "takes_value": takes, "value_fields": set().union(*[v["fields"] for v in vals]) if vals else set(),
            "joined_with": sorted({c[5:] for v in vals for c in v["calls"] if c.startswith("join:")}),
            "guard_fields": guard, "conditional": cond, "line": e["line"], "bb": e["bb"]})
        order.append(e["flag"])
    # positional values: non-flag, non-const events that are not the value of a preceding flag
    value_of = set()
    for e in ev:
        if e["flag"] is not None:
            for x in e["next"]:
                if by_bb[x]["flag"] is None:
                    value_of.add(x)
    for e in ev:
        if e["flag"] is None and e["bb"] not in value_of:
            positional.append({"fields": e["fields"], "calls": e["calls"], "line": e["line"], "bb": e["bb"], "const": e["const"]})
    return {"flags": flags, "order": order, "positional": positional, "events": ev}


def clap_args(body):
    """{long name: {"id":…, "action": SetTrue|Set|Append|…}} from a derive-generated augment_args body."""
    prep(body)
    g = cfg_of(body)
    # chain: Arg::new(id) → .long(name) … → .action(ArgAction::X)
    defs = {}
    for b in body.blocks:
        t = b["term"]
        if t["k"] == "call" and not b["cleanup"] and len(t["d"]) == 1:
            defs[t["d"][0]] = t
    copies = {}
    for b in body.blocks:
        for s in b["stmts"]:
            if s["rv"]["k"] == "use" and s["rv"]["a"][0] in ("cp", "mv") and len(s["rv"]["a"][1]) == 1 and len(s["d"]) == 1:
                copies[s["d"][0]] = s["rv"]["a"][1][0]
    aggs = {}
    for b in body.blocks:
        for s in b["stmts"]:
            if s["rv"]["k"] == "agg" and len(s["d"]) == 1:
                aggs[s["d"][0]] = s["rv"]

    def src(l):
        seen = set()
        while l in copies and l not in seen:
            seen.add(l)
            l = copies[l]
        return l
    # forward chains starting at Arg::new
    users = {}
    for b in body.blocks:
        t = b["term"]
        if t["k"] == "call" and not b["cleanup"] and t["args"] and op_local(t["args"][0]) is not None:
            users.setdefault(src(op_local(t["args"][0])), []).append(t)
    out = {}
    for b in body.blocks:
        t = b["term"]
        if t["k"] != "call" or b["cleanup"] or not (t["ncallee"] or "").endswith("clap_builder::builder::arg::Arg::new"):
            continue
        ident = None
        a0 = t["args"][0]
        if a0[0] == "c":
            ident = a0[1].strip('"')
        else:
            d = defs.get(src(op_local(a0)))
            if d is not None and d["args"] and d["args"][0][0] == "c":
                ident = d["args"][0][1].strip('"')
        long = act = None
        delim = None
        parser = None
        rel = []
        cur = t
        for _ in range(60):
            nxt = [u for u in users.get(cur["d"][0], []) if (u["ncallee"] or "").startswith("clap_builder::builder::arg::Arg::") or (u["ncallee"] or "").endswith("Command::arg")]
            if not nxt:
                break
            cur = nxt[0]
            nc = cur["ncallee"] or ""
            if nc.endswith("Command::arg"):
                break
            if nc.endswith("Arg::long") and cur["args"][1][0] == "c":
                long = cur["args"][1][1].strip('"')
            if nc.endswith("Arg::value_delimiter"):
                a1 = cur["args"][1]
                if a1[0] == "c":
                    delim = a1[1].strip("'")
                else:
                    d = defs.get(src(op_local(a1)))
                    if d is not None and d["args"] and d["args"][0][0] == "c":
                        delim = d["args"][0][1].strip("'")
                    else:
                        delim = "?"
            for kind in ("conflicts_with", "conflicts_with_all", "requires", "requires_all", "requires_if", "requires_ifs", "required_unless_present",
                         "required_unless_present_any", "required_unless_present_all", "overrides_with", "overrides_with_all", "exclusive", "group", "groups"):
                if nc.endswith("Arg::" + kind):
                    tgt = None
                    if len(cur["args"]) > 1:
                        a1 = cur["args"][1]
                        if a1[0] == "c":
                            tgt = a1[1].strip('"')
                        else:
                            d = defs.get(src(op_local(a1)))
                            if d is not None and d["args"] and d["args"][0][0] == "c":
                                tgt = d["args"][0][1].strip('"')
                            else:
                                tgt = "?"
                    rel.append((kind, tgt))
            if nc.endswith("Arg::value_parser") and len(cur["args"]) > 1:
                # a hand-written parser function (`value_parser = parse_x`): handed over as a fn item, possibly through an Into/From call
                a1 = cur["args"][1]
                cand = [a1] if a1[0] == "f" else []
                if not cand and op_local(a1) is not None:
                    d = defs.get(src(op_local(a1)))
                    for _hop in range(3):
                        if d is None:
                            break
                        cand = [a for a in d["args"] if a and a[0] == "f"]
                        if cand or not d["args"] or op_local(d["args"][0]) is None:
                            break
                        d = defs.get(src(op_local(d["args"][0])))
                if cand:
                    parser = cand[0][1]
            if nc.endswith("Arg::action"):
                al = src(op_local(cur["args"][1])) if op_local(cur["args"][1]) is not None else None
                if al in aggs:
                    act = aggs[al]["variant"]
        if long:
            out[long] = {"id": ident, "action": act, "delimiter": delim, "relations": rel, "parser": parser}
    return out
