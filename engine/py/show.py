#!/usr/bin/env python3
"""Developer aid: print the CFG of bodies whose path contains the given substring."""
import sys, os
sys.path.insert(0, os.path.dirname(os.path.abspath(__file__)))
import facts, cfg
F = facts.load()
pat = sys.argv[1]
noise = "--noise" in sys.argv
for b in F.bodies.values():
    if pat in b.path and (noise or not (b.nblocks == 49 and b.kind == "closure")):
        if "--list" in sys.argv:
            print(b.path, b.nblocks, b.file, b.lines)
        else:
            cfg.show(b, noise=noise)
