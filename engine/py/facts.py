"""Fact extraction (through the antfacts rustc driver) with a content-addressed cache,
and the loader that turns the per-crate JSON files into Body objects.

Nothing here runs safe_network; `cargo +nightly check` type-checks /repo's current
working tree and the driver dumps the compiler's MIR/AST facts.
"""
import fcntl
import glob
import hashlib
import json
import os
import pickle
import re
import shutil
import subprocess
import sys
import time

VERIF = os.path.dirname(os.path.dirname(os.path.dirname(os.path.abspath(__file__))))
REPO = os.environ.get("VERIF_REPO", "/repo")
WORK = os.environ.get("VERIF_WORK") or os.path.join(VERIF, ".work")   # VERIF_WORK: private cache/target dir for parallel developer runs (tools/regress.py)
DRIVER_DIR = os.path.join(VERIF, "engine", "antfacts")
DRIVER = os.path.join(DRIVER_DIR, "target", "release", "antfacts")

# the workspace crates the analysis must have seen (fail closed if one is missing)
EXPECTED_CRATES = {
    "ant_bootstrap", "ant_build_info", "ant", "ant_evm", "ant_logging", "metrics",
    "ant_networking", "ant_node", "antnode", "antnode_rpc_client", "ant_node_manager",
    "antctl", "antctld", "ant_protocol", "ant_registers", "ant_service_management",
    "ant_token_supplies", "autonomi", "evmlib", "evm_testnet", "nat_detection",
    "node_launchpad", "test_utils",
}
MIN_BODIES = 5000  # measured 6 923 on the pinned tree


class ExtractionError(Exception):
    pass


def _nightly_sysroot():
    return subprocess.check_output(["rustc", "+nightly", "--print", "sysroot"], text=True).strip()


def _hash_tree(repo):
    h = hashlib.sha256()
    files = []
    for root, dirs, fnames in os.walk(repo):
        dirs[:] = [d for d in dirs if d not in ("target", ".git", "node_modules")]
        for fn in fnames:
            if fn.endswith((".rs", ".toml", ".lock", ".proto")):
                files.append(os.path.join(root, fn))
    files.sort()
    for f in files:
        try:
            with open(f, "rb") as fh:
                data = fh.read()
        except OSError:
            continue
        h.update(os.path.relpath(f, repo).encode())
        h.update(b"\0")
        h.update(hashlib.sha256(data).digest())
    try:
        with open(DRIVER, "rb") as fh:
            h.update(hashlib.sha256(fh.read()).digest())
    except OSError:
        h.update(b"nodriver")
    h.update(repo.encode())
    return h.hexdigest()[:24], len(files)


def build_driver():
    env = dict(os.environ, CARGO_NET_OFFLINE="true")
    r = subprocess.run(["cargo", "build", "--release", "--offline"], cwd=DRIVER_DIR, env=env,
                       stdout=subprocess.PIPE, stderr=subprocess.STDOUT, text=True)
    if r.returncode != 0 or not os.path.exists(DRIVER):
        raise ExtractionError("antfacts driver failed to build:\n" + r.stdout[-4000:])


def _member_packages(repo):
    import tomllib
    with open(os.path.join(repo, "Cargo.toml"), "rb") as fh:
        ws = tomllib.load(fh)
    names = []
    for m in ws["workspace"]["members"]:
        try:
            with open(os.path.join(repo, m, "Cargo.toml"), "rb") as fh:
                names.append(tomllib.load(fh)["package"]["name"])
        except Exception:
            pass
    return names


def ensure_facts(repo=None, verbose=True):
    """Returns the directory holding fact files for the *current* content of the repo."""
    repo = repo or REPO
    os.makedirs(os.path.join(WORK, "facts"), exist_ok=True)
    if not os.path.exists(DRIVER):
        build_driver()
    key, nfiles = _hash_tree(repo)
    out = os.path.join(WORK, "facts", key)
    if os.path.exists(os.path.join(out, "DONE")):
        try:
            os.utime(out)  # LRU: keep the entries that are in use
        except OSError:
            pass
        return out
    lock = open(os.path.join(WORK, "lock"), "w")
    fcntl.flock(lock, fcntl.LOCK_EX)
    try:
        if os.path.exists(os.path.join(out, "DONE")):
            return out
        t0 = time.time()
        tmp = out + ".tmp%d" % os.getpid()
        shutil.rmtree(tmp, ignore_errors=True)
        os.makedirs(tmp)
        target = os.path.join(WORK, "target")
        # cargo's freshness cache would skip the wrapper: drop the members' fingerprints
        fp = os.path.join(target, "debug", ".fingerprint")
        for name in _member_packages(repo):
            for d in glob.glob(os.path.join(fp, name + "-*")):
                shutil.rmtree(d, ignore_errors=True)
        env = dict(os.environ)
        env.update({
            "LD_LIBRARY_PATH": _nightly_sysroot() + "/lib",
            "RUSTFLAGS": "-Zmir-opt-level=0 -Awarnings",
            "RUSTC_WORKSPACE_WRAPPER": DRIVER,
            "ANTFACTS_OUT": tmp,
            "CARGO_TARGET_DIR": target,
            "CARGO_NET_OFFLINE": "true",
        })
        env.pop("RUSTC_WRAPPER", None)
        r = subprocess.run(["cargo", "+nightly", "check", "--offline", "--workspace"], cwd=repo,
                           env=env, stdout=subprocess.PIPE, stderr=subprocess.STDOUT, text=True)
        if r.returncode != 0:
            shutil.rmtree(tmp, ignore_errors=True)
            raise ExtractionError("cargo check of the working tree failed:\n" + r.stdout[-6000:])
        seen = set()
        for f in glob.glob(os.path.join(tmp, "*.json")):
            seen.add(re.sub(r"-[0-9a-f]{16}\.json$", "", os.path.basename(f)))
        missing = EXPECTED_CRATES - seen
        if missing:
            shutil.rmtree(tmp, ignore_errors=True)
            raise ExtractionError("no fact file for crates: %s" % sorted(missing))
        _build_index(tmp)
        with open(os.path.join(tmp, "DONE"), "w") as fh:
            json.dump({"key": key, "files_hashed": nfiles, "extract_s": round(time.time() - t0, 1)}, fh)
        shutil.rmtree(out, ignore_errors=True)
        os.rename(tmp, out)
        # evict old keys (keep the 8 most recent)
        ds = [d for d in glob.glob(os.path.join(WORK, "facts", "*")) if os.path.isdir(d)]
        ds.sort(key=lambda d: os.path.getmtime(d), reverse=True)
        for d in ds[8:]:
            shutil.rmtree(d, ignore_errors=True)
        if verbose:
            print("[facts] extracted %s in %.1fs" % (key, time.time() - t0), file=sys.stderr)
        return out
    finally:
        fcntl.flock(lock, fcntl.LOCK_UN)
        lock.close()


DETAIL_KEYS = ("blocks", "locals", "vars", "argc", "promoted")


def _build_index(d):
    """Split each crate file into a summary pickle (all crates, loaded always) and a detail
    pickle per crate (blocks, loaded lazily)."""
    summary = {"crates": {}, "bodies": []}
    for f in sorted(glob.glob(os.path.join(d, "*.json"))):
        with open(f) as fh:
            c = json.load(fh)
        stem = os.path.basename(f)[:-5]
        detail = {}
        is_bin = "Executable" in c["crate_types"]
        for b in c["bodies"]:
            det = {k: b.pop(k) for k in DETAIL_KEYS if k in b}
            b["crate"] = c["crate"]
            b["unit"] = stem
            b["bin"] = is_bin
            detail[b["path"]] = det
            summary["bodies"].append(b)
        summary["crates"][stem] = {k: c[k] for k in ("crate", "crate_types", "is_test", "features",
                                                      "fmt", "adts", "consts", "impls")}
        with open(os.path.join(d, stem + ".detail.pkl"), "wb") as fh:
            pickle.dump(detail, fh, protocol=pickle.HIGHEST_PROTOCOL)
        os.remove(f)
    with open(os.path.join(d, "summary.pkl"), "wb") as fh:
        pickle.dump(summary, fh, protocol=pickle.HIGHEST_PROTOCOL)


# ----------------------------------------------------------------------------- model

_GEN = re.compile(r"::<(?!impl )")


def norm(path):
    """Strip generic argument lists `::<...>` (but keep `<impl T>` and `<T as Trait>`)."""
    if path is None:
        return None
    out = []
    i = 0
    n = len(path)
    while i < n:
        if path.startswith("::<", i) and not path.startswith("::<impl ", i):
            depth = 0
            j = i + 2
            while j < n:
                ch = path[j]
                if ch == "<":
                    depth += 1
                elif ch == ">" and path[j - 1] != "-":
                    depth -= 1
                    if depth == 0:
                        break
                j += 1
            i = j + 1
            continue
        out.append(path[i])
        i += 1
    return "".join(out)


class Body:
    __slots__ = ("path", "npath", "crate", "unit", "bin", "kind", "coroutine", "parent", "self_ty",
                 "trait", "pub", "file", "lines", "mac", "nblocks", "yields", "calls_raw", "aggregates_raw",
                 "field_mut_raw", "asserts_raw", "_facts", "_detail", "_cfg", "_ref_roots", "_prepped", "_inl")

    def __init__(self, d, facts):
        for k in ("path", "crate", "unit", "bin", "kind", "coroutine", "parent", "self_ty", "trait",
                  "pub", "file", "lines", "mac", "nblocks", "yields"):
            setattr(self, k, d[k])
        for k in ("calls", "aggregates", "field_mut", "asserts"):
            setattr(self, k + "_raw", d[k])
        self._inl = None
        self.npath = norm(self.path)
        self._facts = facts
        self._detail = None
        self._cfg = None
        for c in self.calls_raw:
            c["ncallee"] = norm(c["callee"])
            c["ngen"] = norm(c["gen"])

    # Summary facts as a rule about *this function* sees them: its own plus those of the helpers inlined into it (engine/py/inline.py).
    # The *_raw lists are the function's own only; workspace-wide scans (who-may rules, call graph) use those.
    def _with_inlined(self, kind):
        if self._inl is None:
            import inline
            self._inl = {}
            if inline.has_candidates(self._facts, self):
                self._inl = self.detail.get("extra", {})
        extra = self._inl.get(kind)
        raw = getattr(self, kind + "_raw")
        return raw + extra if extra else raw

    @property
    def calls(self):
        return self._with_inlined("calls")

    @property
    def aggregates(self):
        return self._with_inlined("aggregates")

    @property
    def field_mut(self):
        return self._with_inlined("field_mut")

    @property
    def asserts(self):
        return self._with_inlined("asserts")

    @property
    def detail(self):
        if self._detail is None:
            raw = self._facts._detail_for(self.unit)[self.path]
            import inline
            # canonical return forms first, so that a helper inlined into `return helper(..)` has its return sites threaded to the
            # branch on the forwarded value
            self._detail = inline.inline_detail(self._facts, self, inline.normalise_result_returns(inline.normalise_bool_returns(raw)))
        return self._detail

    @property
    def blocks(self):
        return self.detail["blocks"]

    @property
    def locals(self):
        return self.detail["locals"]

    @property
    def vars(self):
        return self.detail["vars"]

    @property
    def argc(self):
        return self.detail["argc"]

    def __repr__(self):
        return "<Body %s>" % self.path


class Facts:
    def __init__(self, d):
        self.dir = d
        with open(os.path.join(d, "summary.pkl"), "rb") as fh:
            s = pickle.load(fh)
        self.crates = s["crates"]
        self.bodies = {}
        self.by_npath = {}
        self.children = {}
        for bd in s["bodies"]:
            b = Body(bd, self)
            key = b.path
            if key in self.bodies:
                # lib/bin of the same crate name: keep both, disambiguate the later one
                key = "%s#%s" % (b.path, b.unit)
            self.bodies[key] = b
            self.by_npath.setdefault(b.npath, []).append(b)
            if b.parent:
                self.children.setdefault(b.parent, []).append(b)
        self._details = {}
        self._callers = None
        self.adts = {}
        self.consts = {}
        for stem, c in self.crates.items():
            for a in c["adts"]:
                self.adts.setdefault(a["path"], a)
            for k in c["consts"]:
                self.consts.setdefault(k["path"], k)

    def _detail_for(self, unit):
        if unit not in self._details:
            with open(os.path.join(self.dir, unit + ".detail.pkl"), "rb") as fh:
                self._details[unit] = pickle.load(fh)
        return self._details[unit]

    # ---- lookup
    def body(self, path):
        b = self.bodies.get(path)
        if b is None:
            cands = self.by_npath.get(norm(path))
            if cands:
                return cands[0]
        return b

    def find(self, suffix):
        """All bodies whose normalised path ends with `suffix` (on a `::` boundary)."""
        out = []
        for b in self.bodies.values():
            if b.npath == suffix or b.npath.endswith("::" + suffix) or b.npath.endswith(">::" + suffix):
                out.append(b)
        return out

    def item(self, path):
        """The body and all bodies nested in it (closures, async blocks), transitively."""
        root = self.body(path)
        if root is None:
            return []
        out = [root]
        expanded = set()     # closures whose code was merged into the body that passes them to an Option/Result combinator
        i = 0
        while i < len(out):
            out.extend(self.children.get(out[i].path, []))
            # closures written inside a helper that is inlined into this body belong to it as well (engine/py/inline.py)
            b = out[i]
            try:
                import inline
                if inline.has_candidates(self, b):
                    for rec in b.detail.get("inlined", []):
                        if rec.get("combinator"):
                            expanded.add(rec["callee"])
                            continue
                        for h in self.by_npath.get(rec["callee"], []):
                            for ch in self.children.get(h.path, []):
                                if ch not in out:
                                    out.append(ch)
            except Exception:
                pass
            # a named function handed over as a value (`.map(some_fn)`) plays the part of a closure
            try:
                import inline
                for blk in b.blocks:
                    t = blk["term"]
                    if t["k"] != "call":
                        continue
                    for a in t["args"]:
                        if a and a[0] == "f":
                            for h in self.by_npath.get(norm(a[1]), []):
                                if h.crate == b.crate and h.kind in ("fn", "assoc_fn") and not h.trait and h not in out \
                                        and not inline.named_by_rules(h.npath.split("::")[-1]):
                                    out.append(h)
            except Exception:
                pass
            i += 1
        if expanded:
            out = [b for b in out if b is root or b.npath not in expanded]
        return out

    def root_of(self, b):
        while b.parent and self.body(b.parent) is not None:
            b = self.body(b.parent)
        return b

    def callers(self):
        """callee npath -> list of (Body, call)"""
        if self._callers is None:
            idx = {}
            for b in self.bodies.values():
                for c in b.calls_raw:
                    if c["ncallee"]:
                        idx.setdefault(c["ncallee"], []).append((b, c))
                    if c["ngen"] and c["ngen"] != c["ncallee"]:
                        idx.setdefault(c["ngen"], []).append((b, c))
            self._callers = idx
        return self._callers

    def totals(self):
        return {
            "crates": len(self.crates),
            "functions": len(self.bodies),
            "blocks": sum(b.nblocks for b in self.bodies.values()),
            "call_sites": sum(len(b.calls_raw) for b in self.bodies.values()),
        }


def load(repo=None):
    d = ensure_facts(repo)
    f = Facts(d)
    t = f.totals()
    if t["functions"] < MIN_BODIES:
        raise ExtractionError("only %d function bodies extracted (< %d)" % (t["functions"], MIN_BODIES))
    return f
