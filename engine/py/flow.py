"""Intra-procedural value tracking over MIR facts.

* Taint  — flow-insensitive may-flow closure over locals (K6).
* Tracker — follows the *result* of a guard call (through `.await`, `?`, `!`, `is_ok()` …)
  to the `switchInt` that decides on it and tells which out-edge is the accepting one (K4).
"""
import re
from cfg import cfg_of

# callees through which a value is considered to flow unchanged (identity-like), by
# normalised resolved path suffix.  One line of reason each.
TRANSPARENT = {
    "core::clone::Clone>::clone": "copy of the value",
    "core::clone::Clone::clone": "copy of the value (unresolved generic)",
    "core::ops::deref::Deref>::deref": "reference to the same value",
    "core::ops::deref::Deref::deref": "reference to the same value",
    "core::ops::deref::DerefMut>::deref_mut": "reference to the same value",
    "core::convert::AsRef>::as_ref": "reference to the same value",
    "core::convert::AsRef::as_ref": "reference to the same value",
    "core::borrow::Borrow>::borrow": "reference to the same value",
    "core::borrow::Borrow::borrow": "reference to the same value",
    "core::convert::Into>::into": "value conversion",
    "core::convert::Into::into": "value conversion",
    "core::convert::From>::from": "value conversion",
    "core::convert::From::from": "value conversion",
    "alloc::borrow::ToOwned>::to_owned": "owned copy",
    "alloc::borrow::ToOwned::to_owned": "owned copy",
    "alloc::string::ToString>::to_string": "string form of the value",
    "core::future::into_future::IntoFuture>::into_future": "await plumbing",
    "core::future::into_future::IntoFuture::into_future": "await plumbing",
    "core::pin::Pin::new_unchecked": "await plumbing",
    "core::pin::Pin::new": "await plumbing",
    "core::future::future::Future>::poll": "await plumbing",
    "core::future::future::Future::poll": "await plumbing",
    "core::ops::try_trait::Try>::branch": "`?` plumbing",
    "core::ops::try_trait::Try::branch": "`?` plumbing",
    "core::option::Option::as_ref": "reference to payload",
    "core::option::Option::as_mut": "reference to payload",
    "core::option::Option::cloned": "copy of payload",
    "core::option::Option::copied": "copy of payload",
    "core::result::Result::as_ref": "reference to payload",
    "core::result::Result::map_err": "keeps Ok payload",
    "core::option::Option::ok_or": "keeps payload",
    "core::option::Option::ok_or_else": "keeps payload",
    "core::option::Option::unwrap_or_default": "payload",
    "core::option::Option::unwrap_or": "payload",
    "core::result::Result::ok": "payload",
    "core::iter::traits::collect::IntoIterator>::into_iter": "iterator over the value",
    "core::iter::traits::collect::IntoIterator::into_iter": "iterator over the value",
    "core::iter::traits::iterator::Iterator>::next": "element of the iterated value",
    "core::iter::traits::iterator::Iterator::next": "element of the iterated value",
    "core::slice::<impl [T]>::iter": "iterator over the value",
    "alloc::vec::Vec::as_slice": "same elements",
}


_GENERIC_ARG = re.compile(r"(?<=[A-Za-z0-9_])<[^<>]*>")


def _suffix_match(ncallee, table):
    if not ncallee:
        return False
    # `<T as core::convert::Into<U>>::into` also matches the table key `core::convert::Into>::into`
    bare = ncallee
    for _ in range(3):
        nb = _GENERIC_ARG.sub("", bare)
        if nb == bare:
            break
        bare = nb
    for k in table:
        if ncallee == k or ncallee.endswith(k) or bare.endswith(k):
            return True
    return False


def callee_matches(term_or_call, pats):
    """pats: iterable of patterns; a pattern matches if it equals the normalised resolved callee or
    the normalised generic (trait) path, or — when it starts with '*' — is a suffix of either."""
    from facts import norm
    c = term_or_call.get("ncallee") or norm(term_or_call.get("callee"))
    g = term_or_call.get("ngen") or norm(term_or_call.get("gen"))
    for p in pats:
        if p.startswith("*"):
            s = p[1:]
            if (c and c.endswith(s)) or (g and g.endswith(s)):
                return True
        elif p == c or p == g:
            return True
    return False


def op_local(o):
    if o[0] in ("cp", "mv"):
        return o[1][0]
    return None


def rv_operands(rv):
    k = rv["k"]
    if k in ("use", "repeat", "cast", "un"):
        return [rv["a"]]
    if k == "bin":
        return [rv["a"], rv["b"]]
    if k in ("ref", "rawptr", "discr"):
        return [["cp", rv["p"]]]
    if k == "agg":
        return rv["ops"]
    return []


class Taint:
    """May-flow closure. `through`: 'table' (only TRANSPARENT callees propagate), 'all'
    (every call propagates args → dest and into `&mut` arguments)."""

    def __init__(self, body, through="table", extra_transparent=()):
        self.body = body
        self.g = cfg_of(body)
        self.through = through
        self.extra = tuple(extra_transparent)
        # reference aliases: local holding `&[mut] place` → root local of place
        self.ref_of = {}
        changed = True
        while changed:
            changed = False
            for b in body.blocks:
                for s in b["stmts"]:
                    rv = s["rv"]
                    if len(s["d"]) != 1:
                        continue
                    cur = self.ref_of.get(s["d"][0], set())
                    add = set()
                    if rv["k"] in ("ref", "rawptr"):
                        add.add(rv["p"][0])
                        # re-borrow `&mut (*r)`: also an alias of whatever r refers to
                        if len(rv["p"]) >= 2 and rv["p"][1] == "*" and rv["p"][0] in self.ref_of:
                            add |= self.ref_of[rv["p"][0]]
                    elif rv["k"] == "use" and rv["a"][0] in ("cp", "mv") and len(rv["a"][1]) == 1:
                        # plain move/copy of a reference keeps the alias
                        src = rv["a"][1][0]
                        if src in self.ref_of:
                            add |= self.ref_of[src]
                    if not add <= cur:
                        self.ref_of[s["d"][0]] = cur | add
                        changed = True

    def closure(self, seeds, stop_at=()):
        t = set(seeds)
        stop = set(stop_at)
        changed = True
        while changed:
            changed = False
            for b in self.body.blocks:
                if b["cleanup"]:
                    continue
                for s in b["stmts"]:
                    d = s["d"][0]
                    if d in t or d in stop:
                        continue
                    for o in rv_operands(s["rv"]):
                        l = op_local(o)
                        if l is not None and l in t:
                            t.add(d)
                            changed = True
                            break
                term = b["term"]
                if term["k"] == "call":
                    args = [op_local(a) for a in term["args"]]
                    if any(a in t for a in args if a is not None):
                        prop = self.through == "all" or _suffix_match(term.get("ncallee") or _n(term), TRANSPARENT) \
                            or callee_matches(term, self.extra)
                        if prop:
                            d = term["d"][0]
                            if d not in t and d not in stop:
                                t.add(d)
                                changed = True
                            if self.through == "all":
                                for a in args:
                                    if a is None:
                                        continue
                                    for r in self.ref_of.get(a, ()):
                                        if r not in t and r not in stop and "&mut" in self.body.locals.get(str(a), ""):
                                            t.add(r)
                                            changed = True
                elif term["k"] == "yield":
                    pass
        return t

    def var_locals(self, name):
        """Locals (and the roots of composite places) that debuginfo binds to user variable `name`."""
        out = set()
        for v in self.body.vars:
            if v["name"] == name and isinstance(v["v"], list) and v["v"] and isinstance(v["v"][0], int):
                out.add(v["v"][0])
        return out


def _n(term):
    from facts import norm
    term["ncallee"] = norm(term.get("callee"))
    term["ngen"] = norm(term.get("gen"))
    return term["ncallee"]


def prep(body):
    """Attach normalised callee names to call terminators (once)."""
    if getattr(body, "_prepped", False):
        return
    from facts import norm
    for b in body.blocks:
        t = b["term"]
        if t["k"] == "call" and "ncallee" not in t:
            t["ncallee"] = norm(t.get("callee"))
            t["ngen"] = norm(t.get("gen"))
    try:
        body._prepped = True
    except AttributeError:
        pass


VARIANT_IDX = {"Ok": 0, "Err": 1, "None": 0, "Some": 1, "Ready": 0, "Pending": 1, "Continue": 0, "Break": 1}
POS = {"Ok", "Some"}
NEGV = {"Err", "None"}


class Tracker:
    """Tracks the logical result of guard calls to deciding switches.

    steps: tuple such as ("Ok",), ("Ok","true"), ("Some",), ("true",), ("false",),
    ("Err",) — the accepting shape of the guard's logical (post-await) result.
    Enum variants other than the built-ins are given as "Name#idx".
    """

    def __init__(self, body):
        prep(body)
        self.body = body
        self.g = cfg_of(body)
        self.states = {}   # local -> set of states
        self.accept = set()  # (src, dst)
        self.reject = set()
        self.decisions = []  # (block, state)

    @staticmethod
    def _mk_val(steps, neg=False):
        if len(steps) == 1 and steps[0] in ("true", "false"):
            return ("bool", (), (steps[0] == "false") != neg)
        return ("val", tuple(steps), neg)

    def seed_call_result(self, local, steps, is_future):
        st = ("fut", tuple(steps), False) if is_future else self._mk_val(steps)
        self.states.setdefault(local, set()).add(st)
        self._seed_defs = getattr(self, "_seed_defs", {})
        self._seed_defs[local] = self._seed_defs.get(local, 0) + 1

    def seed_discr(self, local, steps):
        """`local` holds discriminant(value) of a value whose accepting shape is `steps`"""
        self.states.setdefault(local, set()).add(("discr", self._mk_val(steps), False))

    def seed_bool(self, local, true_is_accept=True):
        self.states.setdefault(local, set()).add(("bool", (), not true_is_accept))

    def _add(self, local, st):
        s = self.states.setdefault(local, set())
        if st in s:
            return False
        s.add(st)
        return True

    @staticmethod
    def _vidx(tok):
        if "#" in tok:
            return int(tok.split("#")[1])
        return VARIANT_IDX.get(tok)

    @staticmethod
    def _vname(tok):
        return tok.split("#")[0]

    def _through_place(self, p, st):
        """state of value read through place p whose root local has state st (or None)."""
        proj = [e for e in p[1:] if e != "*"]
        if not proj:
            return st
        wrap, steps, neg = st
        if wrap == "tup":
            # the value sits in component i of a tuple (`match (udp, tcp) { (Some(u), _) => … }`)
            i_, inner = steps
            if proj[0] == ".%d" % i_:
                return self._through_place([p[0]] + proj[1:], inner)
            return None
        if len(proj) == 2 and proj[0].startswith("@") and proj[1] in (".0",):
            v = proj[0][1:]
            if wrap == "poll" and v == "Ready":
                return self._mk_val(steps, neg)
            if wrap == "val" and steps and v == self._vname(steps[0]):
                return self._mk_val(steps[1:], neg) if len(steps) > 1 else None
            if wrap == "cf" and steps:
                if v == "Continue" and steps[0] in POS:
                    return self._mk_val(steps[1:], neg) if len(steps) > 1 else None
                if v == "Break" and steps[0] in NEGV:
                    return None
        return None

    def run(self):
        """Two passes.  The analysis is flow-insensitive per local, so a user variable assigned on several paths
        (`let x = if c { guarded_call() } else { None }`) would carry the guard's state on *every* path.  Pass 1 finds the locals
        that have several whole definitions of which only some carry a state ("mixed"); pass 2 recomputes from the seeds with
        nothing flowing out of a mixed local, so a branch on such a variable does not count as the guard's decision."""
        seeds = {l: set(v) for l, v in self.states.items()}
        # blocks that no path avoiding the accepting edges found so far can reach (set by Run.gate while it refines an
        # any-of group): a definition sitting there cannot be the one a surviving path reads
        dead = DEAD_BLOCKS.get(id(self.body), ())
        blocks = [b for b in self.body.blocks if not b["cleanup"] and b["id"] not in dead]
        ndefs = {}
        for b in blocks:
            for s in b["stmts"]:
                if len(s["d"]) == 1:
                    ndefs[s["d"][0]] = ndefs.get(s["d"][0], 0) + 1
            t = b["term"]
            if t["k"] == "call" and len(t.get("d") or []) == 1:
                ndefs[t["d"][0]] = ndefs.get(t["d"][0], 0) + 1
        self._contrib = {}
        self._mixed = set()
        self._propagate(blocks)
        mixed = {l for l, n in ndefs.items() if n > 1 and l in self._contrib and len(self._contrib[l]) < n and l not in seeds}
        # a seeded call result whose variable is also assigned something else on another path (`let r = if skip { Ok(()) } else
        # { guarded_call() }`): a branch on it is not the guard's decision either
        sd = getattr(self, "_seed_defs", {})
        mixed_seeds = {l for l, k in sd.items() if ndefs.get(l, 0) > k}
        if mixed_seeds:
            mixed |= mixed_seeds
            seeds = {l: v for l, v in seeds.items() if l not in mixed_seeds}
        if mixed:
            self.states = {l: set(v) for l, v in seeds.items()}
            self._contrib = {}
            self._mixed = mixed
            self._propagate(blocks)
        # decisions
        self._decide_all(blocks)
        # materialised verdicts: `let hit = matches!(x, Some(k) if k == key); … if hit { … }` — a bool variable whose every definition
        # is a constant, `true` only behind accepting edges and `false` never after one (or the mirror image), carries the verdict
        for _round in range(5):
            if not (self.accept or self.reject) or not self._materialised(blocks):
                break
            self._propagate(blocks)
            self._decide_all(blocks)
        return self

    def _decide_all(self, blocks):
        for b in blocks:
            t = b["term"]
            if t["k"] != "switch":
                continue
            l = op_local(t["on"])
            on = t["on"]
            proj = on[1][1:] if on and on[0] in ("cp", "mv") and isinstance(on[1], list) else []
            for st in list(self.states.get(l, ())):
                if [e for e in proj if e != "*"]:
                    # `switchInt(_t.0)`: a branch on a component of a tuple of verdicts (`match (a == b, c == d) { (true, true) => … }`)
                    if l in self._mixed:
                        continue
                    st = self._through_place(on[1], st)
                    if not st:
                        continue
                self._decide(b["id"], t, st)

    def _materialised(self, blocks):
        defs = {}
        bad = set()
        for b in blocks:
            for s in b["stmts"]:
                if len(s["d"]) != 1:
                    if s["d"]:
                        bad.add(s["d"][0])
                    continue
                rv = s["rv"]
                if rv["k"] == "use" and rv["a"][0] == "c" and rv["a"][1] in ("true", "false"):
                    defs.setdefault(s["d"][0], []).append((b["id"], rv["a"][1] == "true"))
                else:
                    bad.add(s["d"][0])
            t = b["term"]
            if t["k"] == "call" and t.get("d"):
                bad.add(t["d"][0])
        # … or travels as a constant component of a tuple built on each side: `let (m, first) = match lvl { First(m) => (m, true), Additional(m) => (m, false) }`
        tup = {}
        tbad = set()
        for b in blocks:
            for s in b["stmts"]:
                if len(s["d"]) != 1:
                    continue
                rv = s["rv"]
                if rv["k"] == "agg" and rv.get("ak") == "tuple":
                    for i_, o in enumerate(rv["ops"]):
                        if o[0] == "c" and o[1] in ("true", "false"):
                            tup.setdefault((s["d"][0], i_), []).append((b["id"], o[1] == "true"))
                        else:
                            tbad.add((s["d"][0], i_))
                elif s["d"][0] in {k[0] for k in tup}:
                    tbad |= {k for k in tup if k[0] == s["d"][0]}
        for b in blocks:
            for s in b["stmts"]:
                rv = s["rv"]
                if len(s["d"]) == 1 and rv["k"] == "use" and rv["a"][0] in ("cp", "mv") and len(rv["a"][1]) == 2 and rv["a"][1][1].startswith(".") and rv["a"][1][1][1:].isdigit():
                    key = (rv["a"][1][0], int(rv["a"][1][1][1:]))
                    x = s["d"][0]
                    if key in tup and key not in tbad and x in bad and x not in defs:
                        # x has this single definition: its value sites are the tuple's construction sites
                        ndef = sum(1 for b2 in blocks for s2 in b2["stmts"] if s2["d"] == [x]) + sum(1 for b2 in blocks if b2["term"]["k"] == "call" and (b2["term"].get("d") or [None])[0] == x)
                        if ndef == 1:
                            defs[x] = list(tup[key])
                            bad.discard(x)
        g = self.g
        added = False
        # "behind an accepting edge" = the last decision of the guard on the way was an accept (in a loop the guard is decided anew each
        # time round): not reachable from the entry or from a rejecting edge without crossing an accepting one; "never after an accepting
        # edge" = not reachable from one without the guard being decided again
        both = set(self.accept) | set(self.reject)
        free_acc = g.reach((0,) + tuple(d for _, d in self.reject), cut=self.accept) if self.accept else None
        free_rej = g.reach((0,) + tuple(d for _, d in self.accept), cut=self.reject) if self.reject else None
        after_acc = g.reach(tuple(d for _, d in self.accept), cut=both) if self.accept else set()
        after_rej = g.reach(tuple(d for _, d in self.reject), cut=both) if self.reject else set()
        # the Option / Result analogue: `let local = match guarded() { Some(r) => Some(f(r)?), None => None };` — a variable whose every
        # definition is a `None` / `Some(..)` (`Err` / `Ok`) literal, one variant only behind accepting edges and the other never after one,
        # carries the verdict to the later `match local` / `local.is_some_and(..)`
        odefs, obad = {}, set()
        for b in blocks:
            for s in b["stmts"]:
                if len(s["d"]) != 1:
                    if s["d"]:
                        obad.add(s["d"][0])
                    continue
                rv = s["rv"]
                if rv["k"] == "agg" and rv.get("ak") == "adt" and rv.get("adt") in ("core::option::Option", "core::result::Result") and rv.get("variant") in ("None", "Some", "Ok", "Err"):
                    odefs.setdefault(s["d"][0], []).append((b["id"], rv["variant"]))
                else:
                    obad.add(s["d"][0])
            t = b["term"]
            if t["k"] == "call" and t.get("d"):
                obad.add(t["d"][0])
        for l, ds in odefs.items():
            if l in obad or l in self.states or len(ds) < 2 or l == 0:
                continue
            vs = sorted({v for _, v in ds})
            if len(vs) != 2:
                continue
            for va, vb in ((vs[0], vs[1]), (vs[1], vs[0])):
                A = {b for b, v in ds if v == va}
                B = {b for b, v in ds if v == vb}
                st = None
                if free_acc is not None and not (A & free_acc) and not (B & after_acc):
                    st = ("val", (va,), False)      # variant va <=> accepted
                elif free_rej is not None and not (A & free_rej) and not (B & after_rej):
                    st = ("val", (va,), True)       # variant va <=> rejected
                if st is None:
                    continue
                # freshness, as for bools: a cycle through a branch on the variable re-passes one of its definitions
                dtemps = {l}
                for b in blocks:
                    for s in b["stmts"]:
                        if len(s["d"]) == 1 and s["rv"]["k"] == "discr" and s["rv"]["p"][0] == l:
                            dtemps.add(s["d"][0])
                stale = False
                for b in blocks:
                    t = b["term"]
                    if t["k"] == "switch" and op_local(t["on"]) in dtemps:
                        succ = tuple(d for d, _ in g.succ[b["id"]])
                        if b["id"] in g.reach(succ, avoid=A | B):
                            stale = True
                if not stale:
                    self.states.setdefault(l, set()).add(st)
                    added = True
                break
        for l, ds in defs.items():
            if l in bad or l in self.states or len(ds) < 2:
                continue
            T = {b for b, v in ds if v}
            Fb = {b for b, v in ds if not v}
            if not T or not Fb:
                continue
            st = None
            if free_acc is not None and not (T & free_acc) and not (Fb & after_acc):
                st = ("bool", (), False)        # true  <=> accepted
            elif free_acc is not None and not (Fb & free_acc) and not (T & after_acc):
                st = ("bool", (), True)         # false <=> accepted
            elif free_rej is not None and not (T & free_rej) and not (Fb & after_rej):
                st = ("bool", (), True)         # true  <=> rejected
            elif free_rej is not None and not (Fb & free_rej) and not (T & after_rej):
                st = ("bool", (), False)        # false <=> rejected
            if st is not None:
                # freshness: a verdict stored before a loop and branched on inside it may be stale (the subject can change between
                # iterations): every cycle through a use of the variable must pass one of its definitions again
                copies = {l}
                for b in blocks:
                    for s in b["stmts"]:
                        if len(s["d"]) == 1 and s["rv"]["k"] == "use" and s["rv"]["a"][0] in ("cp", "mv") and s["rv"]["a"][1] == [l]:
                            copies.add(s["d"][0])
                stale = False
                for b in blocks:
                    t = b["term"]
                    if t["k"] == "switch" and op_local(t["on"]) in copies:
                        succ = tuple(d for d, _ in g.succ[b["id"]])
                        if b["id"] in g.reach(succ, avoid=T | Fb):
                            stale = True
                if stale:
                    continue
                self.states.setdefault(l, set()).add(st)
                added = True
        return added

    def _note(self, d, site):
        self._contrib.setdefault(d, set()).add(site)

    def _propagate(self, blocks):
        changed = True
        while changed:
            changed = False
            for b in blocks:
                for s in b["stmts"]:
                    if len(s["d"]) != 1:
                        continue
                    d = s["d"][0]
                    rv = s["rv"]
                    k = rv["k"]
                    site = (b["id"], id(s))
                    if k == "use" and rv["a"][0] in ("cp", "mv"):
                        p = rv["a"][1]
                        if p[0] in self._mixed:
                            continue
                        for st in list(self.states.get(p[0], ())):
                            n = self._through_place(p, st)
                            if n:
                                self._note(d, site)
                                if self._add(d, n):
                                    changed = True
                    elif k == "ref":
                        p = rv["p"]
                        if p[0] in self._mixed:
                            continue
                        for st in list(self.states.get(p[0], ())):
                            n = self._through_place(p, st)
                            if n:
                                self._note(d, site)
                                if self._add(d, n):
                                    changed = True
                    elif k == "discr":
                        p = rv["p"]
                        if p[0] in self._mixed:
                            continue
                        for st in list(self.states.get(p[0], ())):
                            n = self._through_place(p, st)
                            if n and n[0] in ("val", "cf", "poll"):
                                self._note(d, site)
                                if self._add(d, ("discr", n, False)):
                                    changed = True
                    elif k == "agg" and rv.get("ak") == "tuple":
                        for i_, o in enumerate(rv["ops"]):
                            l = op_local(o)
                            if l is None or l in self._mixed or (o[0] in ("cp", "mv") and len(o[1]) != 1):
                                continue
                            for st in list(self.states.get(l, ())):
                                if st[0] in ("val", "bool", "cf", "tup"):
                                    self._note(d, site)
                                    if self._add(d, ("tup", (i_, st), False)):
                                        changed = True
                    elif k == "agg" and rv.get("ak") == "adt" and rv.get("variant") in ("Some", "Ok") and len(rv.get("ops") or []) == 1 \
                            and rv.get("adt") in ("core::option::Option", "core::result::Result"):
                        # `Some(verdict)` / `Ok(verdict)`: the verdict travels as the payload of that variant (`x.map(|v| check(v))?`)
                        o = rv["ops"][0]
                        l = op_local(o)
                        if l is not None and l not in self._mixed and not (o[0] in ("cp", "mv") and len(o[1]) != 1):
                            for st in list(self.states.get(l, ())):
                                n = None
                                if st[0] == "bool":
                                    n = ("val", (rv["variant"], "false" if st[2] else "true"), False)
                                elif st[0] == "val" and len(st[1]) <= 2:
                                    n = ("val", (rv["variant"],) + tuple(st[1]), st[2])
                                if n:
                                    self._note(d, site)
                                    if self._add(d, n):
                                        changed = True
                    elif k == "un" and rv["op"] == "Not":
                        l = op_local(rv["a"])
                        if l in self._mixed:
                            continue
                        for st in list(self.states.get(l, ())):
                            if st[0] == "bool":
                                self._note(d, site)
                                if self._add(d, ("bool", (), not st[2])):
                                    changed = True
                t = b["term"]
                if t["k"] == "call" and t["args"]:
                    a0 = t["args"][0]
                    if a0[0] not in ("cp", "mv"):
                        continue
                    if a0[1][0] in self._mixed:
                        continue
                    sts = set()
                    for st in self.states.get(a0[1][0], ()):
                        n = self._through_place(a0[1], st)
                        if n:
                            sts.add(n)
                    if not sts or len(t["d"]) != 1:
                        continue
                    d = t["d"][0]
                    c = t["ncallee"] or ""
                    g = t["ngen"] or ""
                    for st in sts:
                        n = self._call_transfer(c, g, st)
                        if n:
                            self._note(d, (b["id"], "term"))
                            if self._add(d, n):
                                changed = True

    def _call_transfer(self, c, g, st):
        wrap, steps, neg = st
        if g.endswith("Try::branch") or c.endswith("Try>::branch"):
            if wrap == "val":
                return ("cf", steps, neg)
            return None
        if g.endswith("IntoFuture::into_future") or c.endswith("Pin::new_unchecked") or c.endswith("Pin::new") \
                or g.endswith("Pin::new_unchecked"):
            return st if wrap == "fut" else None
        if g.endswith("Future::poll") or c.endswith("Future>::poll"):
            return ("poll", steps, neg) if wrap == "fut" else None
        if wrap == "bool" and "bool" in c and (c.endswith("::then_some") or c.endswith("::then")):
            return ("val", ("Some",), neg)          # `cond.then_some(x)` is Some exactly when cond holds
        if wrap == "val" and len(steps) == 1:
            pos = steps[0] in POS
            negv = steps[0] in NEGV
            if c.endswith("Result::is_ok") or c.endswith("Option::is_some"):
                if pos:
                    return ("bool", (), neg)
                if negv:
                    return ("bool", (), not neg)
            if c.endswith("Result::is_err") or c.endswith("Option::is_none"):
                if pos:
                    return ("bool", (), not neg)
                if negv:
                    return ("bool", (), neg)
        if wrap == "val" and len(steps) == 1:
            # the variant survives, the payload changes: only the outer shape may be carried over
            if steps[0] in ("Some", "None") and (c.endswith("Option::map") or c.endswith("Option::cloned") or c.endswith("Option::copied")):
                return st
            if steps[0] in ("Ok", "Err") and c.endswith("Result::map"):
                return st
            # `opt.filter(pred)` is Some only if `opt` was: the accepting (Some) side survives the adaptor
            if steps[0] == "Some" and not neg and c.endswith("Option::filter"):
                return st
        if wrap == "val" and steps:
            if c.endswith("Result::map_err") or c.endswith("Result::as_ref") or c.endswith("Option::as_ref") \
                    or c.endswith("Result::inspect_err") or c.endswith("Result::inspect") or c.endswith("Option::inspect") \
                    or c.endswith("Result::as_mut") or c.endswith("Option::as_mut"):
                return st
            if c.endswith("Option::ok_or") or c.endswith("Option::ok_or_else"):
                m = {"Some": "Ok", "None": "Err"}
                if steps[0] in m:
                    return ("val", (m[steps[0]],) + tuple(steps[1:]), neg)
            if c.endswith("Option::transpose") and steps[0] == "None" and len(steps) == 1 and not neg:
                return ("val", ("Ok", "None"), neg)      # None.transpose() == Ok(None); Some(..) may become Ok(Some) or Err: not carried
            if c.endswith("Result::ok"):
                m = {"Ok": "Some", "Err": "None"}
                if steps[0] in m:
                    return ("val", (m[steps[0]],) + tuple(steps[1:]), neg)
            if c.endswith("Result::err") and len(steps) == 1:
                m = {"Ok": "None", "Err": "Some"}
                if steps[0] in m:
                    return ("val", (m[steps[0]],), neg)
        if _suffix_match(c, ("core::clone::Clone>::clone", "core::ops::deref::Deref>::deref")) or \
                g.endswith("Clone::clone") or g.endswith("Deref::deref"):
            return st
        return None

    def _decide(self, bid, t, st):
        targets = t["targets"]
        otherwise = t["otherwise"]
        all_dsts = [b for _, b in targets] + [otherwise]
        live = [d for d in all_dsts if self.g.term(d)["k"] != "unreachable"]
        acc = None
        if st[0] == "bool":
            neg = st[2]
            f = None
            for v, b in targets:
                if v == "0":
                    f = b
            tt = otherwise
            if f is None:
                return
            acc = f if neg else tt
        elif st[0] == "discr":
            inner = st[1]
            wrap, steps, neg = inner
            if wrap == "poll":
                return
            if not steps:
                return
            if len(steps) > 1:
                return  # payload decides later
            if wrap == "val":
                want = self._vidx(steps[0])
            else:  # cf
                want = 0 if steps[0] in POS else 1
            if want is None:
                return
            for v, b in targets:
                if v == str(want):
                    acc = b
            if acc is None:
                acc = otherwise
        if acc is None:
            return
        self.decisions.append((bid, st))
        self.accept.add((bid, acc))
        for d in live:
            if d != acc:
                self.reject.add((bid, d))


DEAD_BLOCKS = {}


def backward(body, local, through_calls=True, extra=()):
    """Locals that `local` may have been computed from, going backwards through assignments and
    transparent (identity-like) calls."""
    prep(body)
    seen = {local}
    todo = [local]
    defs = {}
    for b in body.blocks:
        if b["cleanup"]:
            continue
        for s in b["stmts"]:
            defs.setdefault(s["d"][0], []).append(("s", s["rv"]))
        t = b["term"]
        if t["k"] == "call" and len(t["d"]) >= 1:
            defs.setdefault(t["d"][0], []).append(("c", t))
    while todo:
        x = todo.pop()
        for k, d in defs.get(x, ()):
            srcs = []
            if k == "s":
                srcs = [op_local(o) for o in rv_operands(d)]
            elif through_calls and (_suffix_match(d.get("ncallee"), TRANSPARENT) or callee_matches(d, extra)):
                srcs = [op_local(a) for a in d["args"]]
            for s in srcs:
                if s is not None and s not in seen:
                    seen.add(s)
                    todo.append(s)
    return seen


def field_reads(body, field, roots=None):
    """[(dest local, root local, place)] for statements reading a place that projects `.field`."""
    out = []
    for b in body.blocks:
        if b["cleanup"]:
            continue
        for s in b["stmts"]:
            rv = s["rv"]
            p = None
            if rv["k"] == "use" and rv["a"][0] in ("cp", "mv"):
                p = rv["a"][1]
            elif rv["k"] == "ref":
                p = rv["p"]
            if p and ("." + field) in p[1:] and len(s["d"]) == 1 and (roots is None or p[0] in roots):
                out.append((s["d"][0], p[0], p))
    return out


def _ref_roots(body):
    rr = getattr(body, "_ref_roots", None)
    if rr is None:
        # references to *whole* locals only (`&mut x`, re-borrows `&mut *r`); a `&mut self.field` says nothing about `self`
        rr = {}
        changed = True
        while changed:
            changed = False
            for b in body.blocks:
                for st in b["stmts"]:
                    if len(st["d"]) != 1:
                        continue
                    rv = st["rv"]
                    add = set()
                    if rv["k"] in ("ref", "rawptr"):
                        p = rv["p"]
                        if len(p) == 1:
                            add.add(p[0])
                        elif all(e == "*" for e in p[1:]) and p[0] in rr:
                            add |= rr[p[0]]
                    elif rv["k"] == "use" and rv["a"][0] in ("cp", "mv") and len(rv["a"][1]) == 1 and rv["a"][1][0] in rr:
                        add |= rr[rv["a"][1][0]]
                    cur = rr.get(st["d"][0], set())
                    if not add <= cur:
                        rr[st["d"][0]] = cur | add
                        changed = True
        try:
            body._ref_roots = rr
        except AttributeError:
            pass
    return rr


def backward_calls(body, local):
    """Backward slice from `local` through every assignment and every call (args → dest); returns
    (locals, list of call terminators crossed)."""
    prep(body)
    defs = {}
    for b in body.blocks:
        if b["cleanup"]:
            continue
        for s in b["stmts"]:
            defs.setdefault(s["d"][0], []).append(("s", s["rv"]))
        t = b["term"]
        if t["k"] == "call" and len(t["d"]) >= 1:
            defs.setdefault(t["d"][0], []).append(("c", t))
            # a call handed `&mut x` may write x from its other arguments (`buf.extend(y)`, `y.hash(&mut hasher)`)
            for a in t["args"]:
                l = op_local(a)
                if l is not None and "&mut" in body.locals.get(str(l), ""):
                    for r in _ref_roots(body).get(l, ()):
                        defs.setdefault(r, []).append(("c", t))
    seen = {local}
    todo = [local]
    calls = []
    while todo:
        x = todo.pop()
        for k, d in defs.get(x, ()):
            if k == "s":
                srcs = [op_local(o) for o in rv_operands(d)]
            else:
                if d not in calls:
                    calls.append(d)
                srcs = [op_local(a) for a in d["args"]]
            for s in srcs:
                if s is not None and s not in seen:
                    seen.add(s)
                    todo.append(s)
    return seen, calls


def _whole_aliases(body, seeds):
    """seeds plus the locals that hold the same value whole: plain copies / moves, `&x`, re-borrows (no field projection).  After a
    helper is inlined its parameter is such an alias of the caller's argument (engine/py/inline.py binds `param = use(arg)`)."""
    S = set(seeds)
    if not S:
        return S
    # a *must* alias: every definition of the local is such a copy (a variable that is the argument on one path and something built
    # from it on another — `let data = if small { pad(data) } else { data }` — is not the argument)
    defs = {}
    for b in body.blocks:
        if b["cleanup"]:
            continue
        for st in b["stmts"]:
            if st["d"]:
                rv = st["rv"]
                p = rv["a"][1] if rv["k"] == "use" and rv["a"][0] in ("cp", "mv") else rv.get("p") if rv["k"] == "ref" else None
                whole = p[0] if (len(st["d"]) == 1 and p and all(e == "*" for e in p[1:])) else None
                defs.setdefault(st["d"][0], []).append(whole)
        t = b["term"]
        if t["k"] in ("call", "yield") and t.get("d"):
            defs.setdefault(t["d"][0], []).append(None)
    changed = True
    while changed:
        changed = False
        for l, ds in defs.items():
            if l not in S and ds and all(w is not None and w in S for w in ds):
                S.add(l)
                changed = True
    return S


def param_locals(F, body, index):
    return _whole_aliases(body, _param_locals(F, body, index))


def _param_locals(F, body, index):
    """Locals of `body` holding parameter #index (0-based, `self` counts) of the *source-level* function — by position,
    so renaming a parameter does not matter.  For the coroutine body of an `async fn` (or an `async move` block that is
    the whole body, as produced by #[async_trait]) the parameter is the capture built from the parent's argument local."""
    prep(body)
    if body.kind != "closure" or not body.parent:
        if index + 1 > body.argc:
            return set()
        return {index + 1}
    parent = F.body(body.parent)
    if parent is None:
        return set()
    prep(parent)
    want = index + 1
    copies = {}
    for b in parent.blocks:
        for s in b["stmts"]:
            rv = s["rv"]
            if len(s["d"]) == 1 and rv["k"] in ("use", "ref") :
                p = rv["a"][1] if rv["k"] == "use" and rv["a"][0] in ("cp", "mv") else rv.get("p")
                if p and len([e for e in p[1:] if e != "*"]) == 0:
                    copies.setdefault(s["d"][0], p[0])

    def root(l):
        seen = set()
        while l in copies and l not in seen:
            seen.add(l)
            l = copies[l]
        return l
    ks = []
    for b in parent.blocks:
        for s in b["stmts"]:
            rv = s["rv"]
            if rv["k"] == "agg" and rv["ak"] in ("coroutine", "closure", "coroutine_closure") and rv["adt"] == body.path:
                for k, o in enumerate(rv["ops"]):
                    l = op_local(o)
                    if l is not None and root(l) == want:
                        ks.append(k)
    out = set()
    for k in ks:
        place = [1, ".upv%d" % k]
        for b in body.blocks:
            for s in b["stmts"]:
                rv = s["rv"]
                p = rv["a"][1] if rv["k"] == "use" and rv["a"][0] in ("cp", "mv") else rv.get("p") if rv["k"] == "ref" else None
                if p and p[:2] == place and len(s["d"]) == 1:
                    out.add(s["d"][0])
    return out


def locals_of_type(body, needle, exact=False):
    """locals whose type string equals / contains `needle`"""
    out = set()
    for k, t in body.locals.items():
        if (t == needle) if exact else (needle in t):
            out.add(int(k))
    return out


def whole_uses(body, seeds):
    """(whole_aliases, whole_call_blocks, projected_fields): locals that hold the seed value *whole* (copies, references,
    re-borrows, unsizing casts — no field projection), the call blocks receiving such a local as an argument, and the field
    names read through projections of those aliases (a value used only through `x.field` is covered in part)."""
    W = set(seeds)
    fields = set()
    changed = True
    while changed:
        changed = False
        for b in body.blocks:
            if b["cleanup"]:
                continue
            for st in b["stmts"]:
                if len(st["d"]) != 1 or st["d"][0] in W:
                    continue
                rv = st["rv"]
                p = None
                if rv["k"] in ("use", "cast") and rv["a"][0] in ("cp", "mv"):
                    p = rv["a"][1]
                elif rv["k"] in ("ref", "rawptr"):
                    p = rv["p"]
                if p is None or p[0] not in W:
                    continue
                proj = [e for e in p[1:] if e != "*"]
                if not proj:
                    W.add(st["d"][0])
                    changed = True
    calls = []
    for b in body.blocks:
        if b["cleanup"]:
            continue
        for st in b["stmts"]:
            rv = st["rv"]
            p = rv["a"][1] if rv["k"] in ("use", "cast") and rv["a"][0] in ("cp", "mv") else rv.get("p") if rv["k"] in ("ref", "rawptr", "discr", "len") else None
            if p and p[0] in W:
                fs = [e[1:] for e in p[1:] if e.startswith(".")]
                if fs:
                    fields.add(fs[0])
        t = b["term"]
        if t["k"] == "call":
            for a in t["args"]:
                if a[0] in ("cp", "mv") and a[1][0] in W:
                    if all(e == "*" for e in a[1][1:]):
                        calls.append(b)
                    else:
                        fs = [e[1:] for e in a[1][1:] if e.startswith(".")]
                        if fs:
                            fields.add(fs[0])
    return W, calls, fields


def whole_value_reaches(body, seeds, targets=(0,)):
    """Does the seed value, taken whole, flow (through calls, including into `&mut` arguments) to one of `targets`?"""
    W, calls, fields = whole_uses(body, seeds)
    ta = Taint(body, through="all")
    if W & set(targets):
        return True, fields
    for b in calls:
        t = b["term"]
        start = {t["d"][0]}
        for a in t["args"]:
            l = op_local(a)
            if l is not None and "&mut" in body.locals.get(str(l), ""):
                start |= ta.ref_of.get(l, set())
        if ta.closure(start) & set(targets):
            return True, fields
    return False, fields


def must_be_copy_of(body, local, roots, _seen=None):
    """Is `local` on *every* path a plain copy/move/reference of one of `roots` (all of its definitions, transitively)?
    A call result, an aggregate or a second definition from elsewhere makes it False."""
    if local in roots:
        return True
    _seen = _seen or set()
    if local in _seen:
        return True
    _seen = _seen | {local}
    defs = []
    for b in body.blocks:
        if b["cleanup"]:
            continue
        for st in b["stmts"]:
            if st["d"] == [local]:
                defs.append(("s", st["rv"]))
        t = b["term"]
        if t["k"] == "call" and t.get("d") == [local]:
            defs.append(("c", t))
    if not defs:
        return False
    for k, d in defs:
        if k == "c":
            return False
        if d["k"] in ("use", "cast") and d["a"][0] in ("cp", "mv") and all(e == "*" for e in d["a"][1][1:]):
            if not must_be_copy_of(body, d["a"][1][0], roots, _seen):
                return False
        elif d["k"] == "use" and d["a"][0] in ("cp", "mv") and len(d["a"][1]) == 2 and d["a"][1][1].startswith(".") and d["a"][1][1][1:].isdigit():
            # component i of a tuple: every construction of that tuple must put a copy of the roots there
            # (`let (a, pid, c) = if full { (.., pid, ..) } else { (.., pid, ..) }`)
            T_, i_ = d["a"][1][0], int(d["a"][1][1][1:])
            tdefs = [st["rv"] for b in body.blocks if not b["cleanup"] for st in b["stmts"] if st["d"] == [T_]]
            if not tdefs or any(b["term"]["k"] == "call" and b["term"].get("d") == [T_] for b in body.blocks if not b["cleanup"]):
                return False
            for tv in tdefs:
                if not (tv["k"] == "agg" and tv.get("ak") == "tuple" and len(tv["ops"]) > i_ and tv["ops"][i_][0] in ("cp", "mv")
                        and all(e == "*" for e in tv["ops"][i_][1][1:]) and must_be_copy_of(body, tv["ops"][i_][1][0], roots, _seen)):
                    return False
        elif d["k"] == "ref" and all(e == "*" for e in d["p"][1:]):
            if not must_be_copy_of(body, d["p"][0], roots, _seen):
                return False
        else:
            return False
    return True


def copy_root(body, operand, limit=40):
    """The place an operand is a plain copy of: follows single-definition `x = move y` / `x = copy y` chains (whole locals only) back
    to the first place that is not a bare local with such a definition (`op.crdt_op`, a parameter, a call result).  Returns the place
    list `[local, proj…]`, or None for constants."""
    if operand[0] not in ("cp", "mv"):
        return None
    prep(body)
    defs = {}
    for b in body.blocks:
        if b["cleanup"]:
            continue
        for st in b["stmts"]:
            if len(st["d"]) == 1:
                defs.setdefault(st["d"][0], []).append(st["rv"])
        t = b["term"]
        if t["k"] == "call" and len(t.get("d") or []) == 1:
            defs.setdefault(t["d"][0], []).append(None)
    place = list(operand[1])
    for _ in range(limit):
        if len(place) == 2 and place[1] == "*":
            # `*r` where `r = &x` (a match-guard binding is read through a reference to the scrutinee): the value of `x`
            rd = defs.get(place[0], [])
            if len(rd) == 1 and rd[0] is not None and rd[0]["k"] == "ref" and not rd[0].get("mut"):
                place = list(rd[0]["p"])
                continue
        if len(place) > 1:
            return place
        ds = defs.get(place[0], [])
        if len(ds) != 1 or ds[0] is None:
            return place
        rv = ds[0]
        if rv["k"] == "use" and rv["a"][0] in ("cp", "mv"):
            place = list(rv["a"][1])
        else:
            return place
    return place
