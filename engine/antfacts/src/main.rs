// antfacts — a rustc_private driver that dumps the compiler's view of one crate
// (analysis MIR before coroutine lowering, resolved callees, ADTs, evaluated
// consts, format_args! templates) as one JSON fact file.  It contains no
// property-specific logic; the rules live in /verif/engine/py and /verif/rules.
#![feature(rustc_private)]
#![allow(rustc::internal)]

extern crate rustc_abi;
extern crate rustc_ast;
extern crate rustc_data_structures;
extern crate rustc_driver;
extern crate rustc_hir;
extern crate rustc_interface;
extern crate rustc_middle;
extern crate rustc_session;
extern crate rustc_span;

use rustc_ast::visit::{self as ast_visit, Visitor as AstVisitor};
use rustc_ast::{self as ast};
use rustc_driver::{Callbacks, Compilation};
use rustc_hir::def::DefKind;
use rustc_hir::def_id::{DefId, LocalDefId, LOCAL_CRATE};
use rustc_interface::interface;
use rustc_middle::mir::{
    self, AggregateKind, BasicBlock, Body, BorrowKind, Operand, Place, ProjectionElem,
    Rvalue, StatementKind, TerminatorKind, UnwindAction,
};
use rustc_middle::ty::{self, Instance, TyCtxt, TypingEnv};
use rustc_span::{ExpnKind, Span};
use std::fmt::Write as _;

fn esc(s: &str) -> String {
    let mut o = String::with_capacity(s.len() + 2);
    o.push('"');
    for c in s.chars() {
        match c {
            '"' => o.push_str("\\\""),
            '\\' => o.push_str("\\\\"),
            '\n' => o.push_str("\\n"),
            '\r' => o.push_str("\\r"),
            '\t' => o.push_str("\\t"),
            c if (c as u32) < 0x20 => {
                let _ = write!(o, "\\u{:04x}", c as u32);
            }
            c => o.push(c),
        }
    }
    o.push('"');
    o
}

fn clip(s: String, n: usize) -> String {
    if s.len() <= n {
        s
    } else {
        let mut e = n;
        while !s.is_char_boundary(e) {
            e -= 1;
        }
        format!("{}…", &s[..e])
    }
}

struct Cb;

impl Callbacks for Cb {
    fn config(&mut self, _config: &mut interface::Config) {}

    fn after_expansion<'tcx>(
        &mut self,
        _compiler: &interface::Compiler,
        tcx: TyCtxt<'tcx>,
    ) -> Compilation {
        let Ok(out_dir) = std::env::var("ANTFACTS_OUT") else {
            return Compilation::Continue;
        };
        let crate_name = tcx.crate_name(LOCAL_CRATE).to_string();
        if crate_name == "build_script_build" || crate_name.starts_with("build_script_") {
            return Compilation::Continue;
        }
        let _g1 = ty::print::NoTrimmedGuard::new();
        let _g2 = ty::print::CrateNamePrefixGuard::new();
        let _g3 = ty::print::NoVisibleGuard::new();
        let json = extract(tcx, &crate_name);
        let extra = tcx.sess.opts.cg.extra_filename.clone();
        let fin = format!("{}/{}{}.json", out_dir, crate_name, extra);
        let tmp = format!("{}.tmp{}", fin, std::process::id());
        std::fs::create_dir_all(&out_dir).ok();
        std::fs::write(&tmp, json).expect("antfacts: write");
        std::fs::rename(&tmp, &fin).expect("antfacts: rename");
        Compilation::Continue
    }
}

// ---------------------------------------------------------------- spans

struct Loc {
    file: String,
    line: usize,
    mac: Option<String>,
}

fn loc_of(tcx: TyCtxt<'_>, span: Span) -> Loc {
    let sm = tcx.sess.source_map();
    let mut mac = None;
    if span.from_expansion() {
        // outermost expansion = what the user wrote at the call site
        let mut s = span;
        let mut last = None;
        while s.from_expansion() {
            let d = s.ctxt().outer_expn_data();
            last = Some(match d.kind {
                ExpnKind::Macro(_, name) => name.to_string(),
                ExpnKind::Desugaring(k) => format!("desugar:{:?}", k),
                ExpnKind::AstPass(k) => format!("astpass:{:?}", k),
                ExpnKind::Root => "root".to_string(),
            });
            s = d.call_site;
        }
        mac = last;
    }
    let s = span.source_callsite();
    if s.is_dummy() {
        return Loc { file: String::new(), line: 0, mac };
    }
    let p = sm.lookup_char_pos(s.lo());
    let file = format!("{}", p.file.name.prefer_local_unconditionally());
    Loc { file, line: p.line, mac }
}

fn line_of(tcx: TyCtxt<'_>, span: Span) -> usize {
    let s = span.source_callsite();
    if s.is_dummy() {
        return 0;
    }
    tcx.sess.source_map().lookup_char_pos(s.lo()).line
}

// ---------------------------------------------------------------- extraction

fn extract<'tcx>(tcx: TyCtxt<'tcx>, crate_name: &str) -> String {
    let mut out = String::with_capacity(1 << 22);
    let _ = write!(out, "{{\"crate\":{}", esc(crate_name));
    let ctypes: Vec<String> =
        tcx.crate_types().iter().map(|t| esc(&format!("{:?}", t))).collect();
    let _ = write!(out, ",\"crate_types\":[{}]", ctypes.join(","));
    let _ = write!(out, ",\"is_test\":{}", tcx.sess.opts.test);
    // cfg(feature = ...) of this compilation
    let mut feats: Vec<String> = Vec::new();
    for (k, v) in tcx.sess.config.iter() {
        if k.as_str() == "feature" {
            if let Some(v) = v {
                feats.push(esc(v.as_str()));
            }
        }
    }
    feats.sort();
    let _ = write!(out, ",\"features\":[{}]", feats.join(","));

    // 1. AST pass: format_args! templates (must happen before HIR lowering steals the AST)
    let fmts = {
        let steal = tcx.resolver_for_lowering();
        let guard = steal.borrow();
        let krate: &ast::Crate = &guard.1;
        let mut v = FmtVisitor { tcx, out: Vec::new() };
        ast_visit::walk_crate(&mut v, krate);
        v.out
    };
    let _ = write!(out, ",\"fmt\":[{}]", fmts.join(","));

    // 2. items: ADTs and consts
    let mut adts: Vec<String> = Vec::new();
    let mut consts: Vec<String> = Vec::new();
    let mut impls: Vec<String> = Vec::new();
    for ldid in tcx.hir_crate_items(()).definitions() {
        let did = ldid.to_def_id();
        match tcx.def_kind(did) {
            DefKind::Struct | DefKind::Enum | DefKind::Union => adts.push(adt_json(tcx, did)),
            DefKind::Const { .. } | DefKind::AssocConst { .. } => {
                if let Some(c) = const_json(tcx, did) {
                    consts.push(c);
                }
            }
            DefKind::Impl { of_trait } => {
                let self_ty = tcx.type_of(did).instantiate_identity().skip_norm_wip();
                let tr = if of_trait {
                    let t = tcx.impl_trait_ref(did).instantiate_identity().skip_norm_wip();
                    esc(&tcx.def_path_str(t.def_id))
                } else {
                    "null".to_string()
                };
                impls.push(format!(
                    "{{\"self\":{},\"trait\":{}}}",
                    esc(&clip(format!("{}", self_ty), 300)),
                    tr
                ));
            }
            _ => {}
        }
    }
    let _ = write!(out, ",\"adts\":[{}]", adts.join(","));
    let _ = write!(out, ",\"consts\":[{}]", consts.join(","));
    let _ = write!(out, ",\"impls\":[{}]", impls.join(","));

    // 3. MIR pass
    let detail_all = std::env::var("ANTFACTS_DETAIL").map(|v| v != "0").unwrap_or(true);
    let mut bodies: Vec<String> = Vec::new();
    let keys: Vec<LocalDefId> = tcx.mir_keys(()).iter().copied().collect();
    for ldid in keys {
        let did = ldid.to_def_id();
        let kind = tcx.def_kind(did);
        let kname = match kind {
            DefKind::Fn => "fn",
            DefKind::AssocFn => "assoc_fn",
            DefKind::Closure => "closure",
            DefKind::SyntheticCoroutineBody => "closure",
            _ => continue,
        };
        // constructors of tuple structs etc. are not in this list; const fns are fine.
        let (steal, prom) = tcx.mir_promoted(ldid);
        if steal.is_stolen() {
            continue;
        }
        let body = steal.borrow();
        // promoted constants (`&Enum::Variant`, `&CONST` operands of comparisons): what each one evaluates to, when it is a plain
        // enum variant / struct literal or a single constant
        let mut promoted: Vec<String> = Vec::new();
        if !prom.is_stolen() {
            for pb in prom.borrow().iter() {
                let mut what = String::new();
                for bbd in pb.basic_blocks.iter() {
                    for st in &bbd.statements {
                        if let mir::StatementKind::Assign(b) = &st.kind {
                            match &b.1 {
                                Rvalue::Aggregate(kind, _) if what.is_empty() => {
                                    if let AggregateKind::Adt(did, vi, _, _, _) = &**kind {
                                        let adt = tcx.adt_def(*did);
                                        what = format!("{}::{}", tcx.def_path_str(*did), adt.variant(*vi).name);
                                    }
                                }
                                Rvalue::Use(mir::Operand::Constant(c), _) if what.is_empty() => {
                                    what = clip(format!("{}", c.const_), 120);
                                }
                                _ => {}
                            }
                        }
                    }
                }
                promoted.push(esc(&what));
            }
        }
        let mut bj = body_json(tcx, ldid, kname, &body, detail_all);
        if detail_all && bj.ends_with('}') {
            bj.pop();
            let _ = write!(bj, ",\"promoted\":[{}]}}", promoted.join(","));
        }
        bodies.push(bj);
    }
    let _ = write!(out, ",\"bodies\":[{}]", bodies.join(",\n"));
    out.push('}');
    out
}

// ---------------------------------------------------------------- AST: format_args

struct FmtVisitor<'tcx> {
    tcx: TyCtxt<'tcx>,
    out: Vec<String>,
}

fn count_json(c: &Option<ast::FormatCount>) -> String {
    match c {
        None => "null".to_string(),
        Some(ast::FormatCount::Literal(n)) => format!("{}", n),
        Some(ast::FormatCount::Argument(p)) => match p.index {
            Ok(i) => format!("{{\"arg\":{}}}", i),
            Err(_) => "\"?\"".to_string(),
        },
    }
}

impl<'a, 'tcx> AstVisitor<'a> for FmtVisitor<'tcx> {
    fn visit_expr(&mut self, e: &'a ast::Expr) {
        if let ast::ExprKind::FormatArgs(fa) = &e.kind {
            let loc = loc_of(self.tcx, fa.span);
            let mut pieces: Vec<String> = Vec::new();
            for p in &fa.template {
                match p {
                    ast::FormatArgsPiece::Literal(s) => {
                        pieces.push(format!("{{\"lit\":{}}}", esc(s.as_str())))
                    }
                    ast::FormatArgsPiece::Placeholder(ph) => {
                        let idx = match ph.argument.index {
                            Ok(i) => i as i64,
                            Err(_) => -1,
                        };
                        let o = &ph.format_options;
                        pieces.push(format!(
                            "{{\"arg\":{},\"trait\":{},\"width\":{},\"precision\":{},\"zero_pad\":{},\"fill\":{},\"align\":{}}}",
                            idx,
                            esc(&format!("{:?}", ph.format_trait)),
                            count_json(&o.width),
                            count_json(&o.precision),
                            o.zero_pad,
                            match o.fill { Some(c) => esc(&c.to_string()), None => "null".into() },
                            match &o.alignment { Some(a) => esc(&format!("{:?}", a)), None => "null".into() },
                        ));
                    }
                }
            }
            let mut args: Vec<String> = Vec::new();
            for a in fa.arguments.all_args() {
                let name = match &a.kind {
                    ast::FormatArgumentKind::Normal => "null".to_string(),
                    ast::FormatArgumentKind::Named(i) => esc(i.name.as_str()),
                    ast::FormatArgumentKind::Captured(i) => esc(i.name.as_str()),
                };
                let src = self
                    .tcx
                    .sess
                    .source_map()
                    .span_to_snippet(a.expr.span)
                    .unwrap_or_default();
                args.push(format!("{{\"name\":{},\"src\":{}}}", name, esc(&clip(src, 120))));
            }
            self.out.push(format!(
                "{{\"file\":{},\"line\":{},\"mac\":{},\"pieces\":[{}],\"args\":[{}]}}",
                esc(&loc.file),
                loc.line,
                match loc.mac { Some(m) => esc(&m), None => "null".into() },
                pieces.join(","),
                args.join(",")
            ));
        }
        ast_visit::walk_expr(self, e);
    }
}

// ---------------------------------------------------------------- items

fn adt_json<'tcx>(tcx: TyCtxt<'tcx>, did: DefId) -> String {
    let adt = tcx.adt_def(did);
    let mut vs: Vec<String> = Vec::new();
    let discrs: Vec<(rustc_abi::VariantIdx, String)> = if adt.is_enum() {
        adt.discriminants(tcx).map(|(i, d)| (i, format!("{}", d.val))).collect()
    } else {
        Vec::new()
    };
    for (vi, v) in adt.variants().iter_enumerated() {
        let mut fs: Vec<String> = Vec::new();
        for f in v.fields.iter() {
            let fty = tcx.type_of(f.did).instantiate_identity().skip_norm_wip();
            fs.push(format!(
                "{{\"name\":{},\"ty\":{},\"pub\":{}}}",
                esc(f.name.as_str()),
                esc(&clip(format!("{}", fty), 300)),
                f.vis.is_public()
            ));
        }
        let d = discrs.iter().find(|(i, _)| *i == vi).map(|(_, d)| d.clone());
        vs.push(format!(
            "{{\"name\":{},\"idx\":{},\"discr\":{},\"fields\":[{}]}}",
            esc(v.name.as_str()),
            vi.as_u32(),
            match d { Some(d) => esc(&d), None => "null".into() },
            fs.join(",")
        ));
    }
    let loc = loc_of(tcx, tcx.def_span(did));
    format!(
        "{{\"path\":{},\"kind\":{},\"file\":{},\"line\":{},\"variants\":[{}]}}",
        esc(&tcx.def_path_str(did)),
        esc(if adt.is_enum() { "enum" } else if adt.is_union() { "union" } else { "struct" }),
        esc(&loc.file),
        loc.line,
        vs.join(",")
    )
}

fn const_json<'tcx>(tcx: TyCtxt<'tcx>, did: DefId) -> Option<String> {
    let generics = tcx.generics_of(did);
    if generics.count() != 0 {
        return None;
    }
    // assoc consts in traits without default have no body
    if let DefKind::AssocConst { .. } = tcx.def_kind(did) {
        if let Some(parent) = tcx.opt_parent(did) {
            if matches!(tcx.def_kind(parent), DefKind::Trait) || tcx.generics_of(parent).count() != 0 {
                return None;
            }
        }
    }
    let ty = tcx.type_of(did).instantiate_identity().skip_norm_wip();
    let val = match tcx.const_eval_poly(did) {
        Ok(v) => v,
        Err(_) => return None,
    };
    let sval = match val.try_to_scalar_int() {
        Some(s) => {
            let size = s.size();
            let bits = s.to_bits(size);
            if ty.is_signed() {
                format!("{}", size.sign_extend(bits))
            } else {
                format!("{}", bits)
            }
        }
        None => return None,
    };
    Some(format!(
        "{{\"path\":{},\"ty\":{},\"value\":{}}}",
        esc(&tcx.def_path_str(did)),
        esc(&format!("{}", ty)),
        esc(&sval)
    ))
}

// ---------------------------------------------------------------- MIR

struct Bx<'a, 'tcx> {
    tcx: TyCtxt<'tcx>,
    body: &'a Body<'tcx>,
    def: LocalDefId,
    field_mut: Vec<String>,
}

impl<'a, 'tcx> Bx<'a, 'tcx> {
    fn field_name(&self, pty: mir::PlaceTy<'tcx>, f: rustc_abi::FieldIdx) -> (String, Option<String>) {
        match pty.ty.kind() {
            ty::Adt(adt, _) => {
                let v = pty.variant_index.unwrap_or(rustc_abi::FIRST_VARIANT);
                if v.as_usize() < adt.variants().len() {
                    let var = adt.variant(v);
                    if f.as_usize() < var.fields.len() {
                        return (
                            var.fields[f].name.to_string(),
                            Some(self.tcx.def_path_str(adt.did())),
                        );
                    }
                }
                (format!("{}", f.as_u32()), None)
            }
            ty::Closure(..) | ty::Coroutine(..) | ty::CoroutineClosure(..) => {
                (format!("upv{}", f.as_u32()), None)
            }
            _ => (format!("{}", f.as_u32()), None),
        }
    }

    /// place → JSON list [local, proj...]; also returns the (adt, field) chain
    fn place(&self, p: Place<'tcx>) -> (String, Vec<(String, String)>) {
        let mut s = format!("[{}", p.local.as_u32());
        let mut chain = Vec::new();
        let mut pty = mir::PlaceTy::from_ty(self.body.local_decls[p.local].ty);
        for elem in p.projection.iter() {
            match elem {
                ProjectionElem::Deref => s.push_str(",\"*\""),
                ProjectionElem::Field(f, _) => {
                    let (n, adt) = self.field_name(pty, f);
                    let _ = write!(s, ",{}", esc(&format!(".{}", n)));
                    if let Some(a) = adt {
                        chain.push((a, n));
                    }
                }
                ProjectionElem::Downcast(sym, vi) => {
                    let n = match sym {
                        Some(s) => s.to_string(),
                        None => format!("{}", vi.as_u32()),
                    };
                    let _ = write!(s, ",{}", esc(&format!("@{}", n)));
                }
                ProjectionElem::Index(l) => {
                    let _ = write!(s, ",\"[_{}]\"", l.as_u32());
                }
                ProjectionElem::ConstantIndex { offset, from_end, .. } => {
                    let _ = write!(s, ",\"[c{}{}]\"", if from_end { "-" } else { "" }, offset);
                }
                ProjectionElem::Subslice { from, to, from_end } => {
                    let _ = write!(s, ",\"[s{}..{}{}]\"", from, if from_end { "-" } else { "" }, to);
                }
                _ => s.push_str(",\"?\""),
            }
            pty = pty.projection_ty(self.tcx, elem);
        }
        s.push(']');
        (s, chain)
    }

    fn pl(&self, p: Place<'tcx>) -> String {
        self.place(p).0
    }

    fn operand(&self, o: &Operand<'tcx>) -> String {
        match o {
            Operand::Copy(p) => format!("[\"cp\",{}]", self.pl(*p)),
            Operand::Move(p) => format!("[\"mv\",{}]", self.pl(*p)),
            Operand::Constant(c) => {
                let ty = c.const_.ty();
                if let ty::FnDef(did, _) = ty.kind() {
                    return format!("[\"f\",{}]", esc(&self.tcx.def_path_str(*did)));
                }
                let pretty = clip(format!("{}", c.const_), 200);
                format!("[\"c\",{},{}]", esc(&pretty), esc(&clip(format!("{}", ty), 120)))
            }
            #[allow(unreachable_patterns)]
            _ => "[\"?\"]".to_string(),
        }
    }

    fn note_mut(&mut self, p: Place<'tcx>, how: &str, bb: BasicBlock, span: Span) {
        let (_, chain) = self.place(p);
        if chain.is_empty() {
            return;
        }
        let line = line_of(self.tcx, span);
        for (adt, f) in chain {
            self.field_mut.push(format!(
                "{{\"bb\":{},\"line\":{},\"adt\":{},\"field\":{},\"how\":{}}}",
                bb.as_u32(),
                line,
                esc(&adt),
                esc(&f),
                esc(how)
            ));
        }
    }

    fn rvalue(&mut self, rv: &Rvalue<'tcx>, bb: BasicBlock, span: Span, aggs: &mut Vec<String>) -> String {
        match rv {
            Rvalue::Use(o, ..) => format!("{{\"k\":\"use\",\"a\":{}}}", self.operand(o)),
            Rvalue::Repeat(o, _) => format!("{{\"k\":\"repeat\",\"a\":{}}}", self.operand(o)),
            Rvalue::Ref(_, bk, p) => {
                let m = matches!(bk, BorrowKind::Mut { .. });
                if m {
                    self.note_mut(*p, "ref_mut", bb, span);
                }
                format!(
                    "{{\"k\":\"ref\",\"mut\":{},\"fake\":{},\"p\":{}}}",
                    m,
                    matches!(bk, BorrowKind::Fake(_)),
                    self.pl(*p)
                )
            }
            Rvalue::RawPtr(k, p) => {
                let m = format!("{:?}", k).contains("Mut");
                if m {
                    self.note_mut(*p, "raw_mut", bb, span);
                }
                format!("{{\"k\":\"rawptr\",\"mut\":{},\"p\":{}}}", m, self.pl(*p))
            }
            Rvalue::ThreadLocalRef(d) => {
                format!("{{\"k\":\"tls\",\"def\":{}}}", esc(&self.tcx.def_path_str(*d)))
            }
            Rvalue::Cast(ck, o, t) => format!(
                "{{\"k\":\"cast\",\"ck\":{},\"a\":{},\"ty\":{}}}",
                esc(&clip(format!("{:?}", ck), 60)),
                self.operand(o),
                esc(&clip(format!("{}", t), 120))
            ),
            Rvalue::BinaryOp(op, ab) => format!(
                "{{\"k\":\"bin\",\"op\":{},\"a\":{},\"b\":{}}}",
                esc(&format!("{:?}", op)),
                self.operand(&ab.0),
                self.operand(&ab.1)
            ),
            Rvalue::UnaryOp(op, a) => format!(
                "{{\"k\":\"un\",\"op\":{},\"a\":{}}}",
                esc(&format!("{:?}", op)),
                self.operand(a)
            ),
            Rvalue::Discriminant(p) => format!("{{\"k\":\"discr\",\"p\":{}}}", self.pl(*p)),
            Rvalue::Aggregate(kind, ops) => {
                let line = line_of(self.tcx, span);
                let (kk, name, var): (&str, String, Option<String>) = match &**kind {
                    AggregateKind::Array(_) => ("array", String::new(), None),
                    AggregateKind::Tuple => ("tuple", String::new(), None),
                    AggregateKind::Adt(did, vi, _, _, _) => {
                        let adt = self.tcx.adt_def(*did);
                        let v = adt.variant(*vi);
                        ("adt", self.tcx.def_path_str(*did), Some(v.name.to_string()))
                    }
                    AggregateKind::Closure(did, _) => ("closure", self.tcx.def_path_str(*did), None),
                    AggregateKind::Coroutine(did, _) => ("coroutine", self.tcx.def_path_str(*did), None),
                    AggregateKind::CoroutineClosure(did, _) => {
                        ("coroutine_closure", self.tcx.def_path_str(*did), None)
                    }
                    AggregateKind::RawPtr(..) => ("rawptr", String::new(), None),
                };
                let mut fields: Vec<String> = Vec::new();
                if let AggregateKind::Adt(did, vi, _, _, active) = &**kind {
                    let adt = self.tcx.adt_def(*did);
                    let v = adt.variant(*vi);
                    for (i, _) in ops.iter_enumerated() {
                        let fi = match active {
                            Some(a) => *a,
                            None => i,
                        };
                        if fi.as_usize() < v.fields.len() {
                            fields.push(esc(v.fields[fi].name.as_str()));
                        }
                    }
                }
                if kk != "array" && kk != "tuple" && kk != "rawptr" {
                    aggs.push(format!(
                        "{{\"bb\":{},\"line\":{},\"kind\":{},\"adt\":{},\"variant\":{}}}",
                        bb.as_u32(),
                        line,
                        esc(kk),
                        esc(&name),
                        match &var { Some(v) => esc(v), None => "null".into() }
                    ));
                }
                let os: Vec<String> = ops.iter().map(|o| self.operand(o)).collect();
                format!(
                    "{{\"k\":\"agg\",\"ak\":{},\"adt\":{},\"variant\":{},\"fields\":[{}],\"ops\":[{}]}}",
                    esc(kk),
                    esc(&name),
                    match &var { Some(v) => esc(v), None => "null".into() },
                    fields.join(","),
                    os.join(",")
                )
            }
            Rvalue::CopyForDeref(p) => format!("{{\"k\":\"use\",\"a\":[\"cp\",{}]}}", self.pl(*p)),
            Rvalue::WrapUnsafeBinder(o, _) => format!("{{\"k\":\"use\",\"a\":{}}}", self.operand(o)),
            #[allow(unreachable_patterns)]
            other => format!("{{\"k\":\"other\",\"dbg\":{}}}", esc(&clip(format!("{:?}", other), 80))),
        }
    }
}

fn unwind_json(u: &UnwindAction) -> String {
    match u {
        UnwindAction::Cleanup(b) => format!("{}", b.as_u32()),
        _ => "null".to_string(),
    }
}

fn body_json<'tcx>(
    tcx: TyCtxt<'tcx>,
    ldid: LocalDefId,
    kname: &str,
    body: &Body<'tcx>,
    detail: bool,
) -> String {
    let did = ldid.to_def_id();
    let path = tcx.def_path_str(did);
    let loc = loc_of(tcx, body.span);
    let end_line = {
        let s = body.span.source_callsite();
        if s.is_dummy() { 0 } else { tcx.sess.source_map().lookup_char_pos(s.hi()).line }
    };
    let parent = {
        let root = tcx.typeck_root_def_id(did);
        if root != did {
            // immediate parent body (closure in closure): use the HIR parent chain
            let mut p = tcx.parent(did);
            while !matches!(
                tcx.def_kind(p),
                DefKind::Fn | DefKind::AssocFn | DefKind::Closure | DefKind::SyntheticCoroutineBody
            ) && p != root
            {
                p = tcx.parent(p);
            }
            esc(&tcx.def_path_str(p))
        } else {
            "null".to_string()
        }
    };
    let self_ty = {
        let root = tcx.typeck_root_def_id(did);
        match tcx.def_kind(root) {
            DefKind::AssocFn => {
                let p = tcx.parent(root);
                match tcx.def_kind(p) {
                    DefKind::Impl { .. } => {
                        let t = tcx.type_of(p).instantiate_identity().skip_norm_wip();
                        esc(&clip(format!("{}", t), 300))
                    }
                    _ => "null".to_string(),
                }
            }
            _ => "null".to_string(),
        }
    };
    let trait_of = {
        let root = tcx.typeck_root_def_id(did);
        match tcx.def_kind(root) {
            DefKind::AssocFn => {
                let p = tcx.parent(root);
                match tcx.def_kind(p) {
                    DefKind::Impl { of_trait: true } => {
                        let t = tcx.impl_trait_ref(p).instantiate_identity().skip_norm_wip();
                        esc(&tcx.def_path_str(t.def_id))
                    }
                    DefKind::Trait => esc(&tcx.def_path_str(p)),
                    _ => "null".to_string(),
                }
            }
            _ => "null".to_string(),
        }
    };
    let is_coroutine = body.coroutine.is_some();
    let vis_pub = match tcx.def_kind(did) {
        DefKind::Fn | DefKind::AssocFn => tcx.visibility(did).is_public(),
        _ => false,
    };

    let typing_env = TypingEnv::post_analysis(tcx, did);
    let mut bx = Bx { tcx, body, def: ldid, field_mut: Vec::new() };
    let _ = bx.def;
    let mut calls: Vec<String> = Vec::new();
    let mut aggs: Vec<String> = Vec::new();
    let mut asserts: Vec<String> = Vec::new();
    let mut yields = 0usize;
    let mut blocks: Vec<String> = Vec::new();

    for (bb, data) in body.basic_blocks.iter_enumerated() {
        let mut stmts: Vec<String> = Vec::new();
        for st in &data.statements {
            match &st.kind {
                StatementKind::Assign(b) => {
                    let (pl, rv) = &**b;
                    if !pl.projection.is_empty() {
                        bx.note_mut(*pl, "assign", bb, st.source_info.span);
                    }
                    let rvs = bx.rvalue(rv, bb, st.source_info.span, &mut aggs);
                    if detail {
                        stmts.push(format!(
                            "{{\"d\":{},\"rv\":{},\"l\":{}}}",
                            bx.pl(*pl),
                            rvs,
                            line_of(tcx, st.source_info.span)
                        ));
                    }
                }
                StatementKind::SetDiscriminant { place, variant_index } => {
                    if detail {
                        stmts.push(format!(
                            "{{\"d\":{},\"rv\":{{\"k\":\"setdiscr\",\"v\":{}}},\"l\":{}}}",
                            bx.pl(**place),
                            variant_index.as_u32(),
                            line_of(tcx, st.source_info.span)
                        ));
                    }
                }
                _ => {}
            }
        }
        let term = data.terminator();
        let tspan = term.source_info.span;
        let tline = line_of(tcx, tspan);
        let t = match &term.kind {
            TerminatorKind::Goto { target } => format!("{{\"k\":\"goto\",\"t\":{}}}", target.as_u32()),
            TerminatorKind::SwitchInt { discr, targets } => {
                let mut ts: Vec<String> = Vec::new();
                for (v, t) in targets.iter() {
                    ts.push(format!("[{},{}]", esc(&format!("{}", v)), t.as_u32()));
                }
                format!(
                    "{{\"k\":\"switch\",\"on\":{},\"targets\":[{}],\"otherwise\":{},\"l\":{}}}",
                    bx.operand(discr),
                    ts.join(","),
                    targets.otherwise().as_u32(),
                    tline
                )
            }
            TerminatorKind::UnwindResume => "{\"k\":\"resume\"}".to_string(),
            TerminatorKind::UnwindTerminate(_) => "{\"k\":\"abort\"}".to_string(),
            TerminatorKind::Return => format!("{{\"k\":\"return\",\"l\":{}}}", tline),
            TerminatorKind::Unreachable => "{\"k\":\"unreachable\"}".to_string(),
            TerminatorKind::Drop { place, target, unwind, .. } => format!(
                "{{\"k\":\"drop\",\"p\":{},\"t\":{},\"u\":{}}}",
                bx.pl(*place),
                target.as_u32(),
                unwind_json(unwind)
            ),
            TerminatorKind::Call { func, args, destination, target, unwind, fn_span, .. } => {
                let l = loc_of(tcx, *fn_span);
                let mut callee = "null".to_string();
                let mut gen = "null".to_string();
                let mut resolved = false;
                let mut targs = String::new();
                let mut indirect = "null".to_string();
                match func {
                    Operand::Constant(c) => {
                        if let ty::FnDef(fdid, fargs) = c.const_.ty().kind() {
                            gen = esc(&tcx.def_path_str(*fdid));
                            callee = gen.clone();
                            targs = clip(
                                fargs.iter().map(|a| format!("{}", a)).collect::<Vec<_>>().join(", "),
                                300,
                            );
                            if let Ok(Some(inst)) = Instance::try_resolve(tcx, typing_env, *fdid, fargs) {
                                let rid = inst.def_id();
                                // Virtual / shims keep the trait method id; still useful
                                if !matches!(inst.def, ty::InstanceKind::Virtual(..)) {
                                    resolved = true;
                                }
                                callee = esc(&tcx.def_path_str(rid));
                            }
                        }
                    }
                    other => {
                        let t = other.ty(&body.local_decls, tcx);
                        indirect = esc(&clip(format!("{}", t), 200));
                    }
                }
                let consts: Vec<String> = args
                    .iter()
                    .enumerate()
                    .filter_map(|(i, a)| match &a.node {
                        Operand::Constant(c) if !matches!(c.const_.ty().kind(), ty::FnDef(..)) => {
                            Some(format!("[{},{}]", i, esc(&clip(format!("{}", c.const_), 200))))
                        }
                        _ => None,
                    })
                    .collect();
                let arg_tys: Vec<String> = args
                    .iter()
                    .map(|a| esc(&clip(format!("{}", a.node.ty(&body.local_decls, tcx)), 160)))
                    .collect();
                calls.push(format!(
                    "{{\"bb\":{},\"line\":{},\"callee\":{},\"gen\":{},\"resolved\":{},\"targs\":{},\"indirect\":{},\"mac\":{},\"consts\":[{}],\"arg_tys\":[{}]}}",
                    bb.as_u32(),
                    l.line,
                    callee,
                    gen,
                    resolved,
                    esc(&targs),
                    indirect,
                    match &l.mac { Some(m) => esc(m), None => "null".into() },
                    consts.join(","),
                    arg_tys.join(",")
                ));
                let a: Vec<String> = args.iter().map(|a| bx.operand(&a.node)).collect();
                format!(
                    "{{\"k\":\"call\",\"callee\":{},\"gen\":{},\"f\":{},\"args\":[{}],\"d\":{},\"t\":{},\"u\":{},\"l\":{},\"mac\":{}}}",
                    callee,
                    gen,
                    bx.operand(func),
                    a.join(","),
                    bx.pl(*destination),
                    match target { Some(t) => format!("{}", t.as_u32()), None => "null".into() },
                    unwind_json(unwind),
                    l.line,
                    match &l.mac { Some(m) => esc(m), None => "null".into() },
                )
            }
            TerminatorKind::TailCall { func, args, .. } => {
                let a: Vec<String> = args.iter().map(|a| bx.operand(&a.node)).collect();
                format!("{{\"k\":\"tailcall\",\"f\":{},\"args\":[{}]}}", bx.operand(func), a.join(","))
            }
            TerminatorKind::Assert { cond, expected, msg, target, unwind } => {
                let l = loc_of(tcx, tspan);
                let (kind, ops): (String, Vec<String>) = match &**msg {
                    mir::AssertKind::BoundsCheck { len, index } => {
                        ("BoundsCheck".into(), vec![bx.operand(len), bx.operand(index)])
                    }
                    mir::AssertKind::Overflow(op, a, b) => {
                        (format!("Overflow({:?})", op), vec![bx.operand(a), bx.operand(b)])
                    }
                    mir::AssertKind::OverflowNeg(a) => ("OverflowNeg".into(), vec![bx.operand(a)]),
                    mir::AssertKind::DivisionByZero(a) => ("DivisionByZero".into(), vec![bx.operand(a)]),
                    mir::AssertKind::RemainderByZero(a) => ("RemainderByZero".into(), vec![bx.operand(a)]),
                    mir::AssertKind::ResumedAfterReturn(_) => ("ResumedAfterReturn".into(), vec![]),
                    mir::AssertKind::ResumedAfterPanic(_) => ("ResumedAfterPanic".into(), vec![]),
                    other => (clip(format!("{:?}", other), 60), vec![]),
                };
                asserts.push(format!(
                    "{{\"bb\":{},\"line\":{},\"kind\":{},\"ops\":[{}],\"mac\":{}}}",
                    bb.as_u32(),
                    l.line,
                    esc(&kind),
                    ops.join(","),
                    match &l.mac { Some(m) => esc(m), None => "null".into() },
                ));
                format!(
                    "{{\"k\":\"assert\",\"cond\":{},\"expected\":{},\"kind\":{},\"t\":{},\"u\":{},\"l\":{}}}",
                    bx.operand(cond),
                    expected,
                    esc(&kind),
                    target.as_u32(),
                    unwind_json(unwind),
                    l.line
                )
            }
            TerminatorKind::Yield { value, resume, resume_arg, drop } => {
                yields += 1;
                format!(
                    "{{\"k\":\"yield\",\"v\":{},\"t\":{},\"d\":{},\"drop\":{},\"l\":{}}}",
                    bx.operand(value),
                    resume.as_u32(),
                    bx.pl(*resume_arg),
                    match drop { Some(d) => format!("{}", d.as_u32()), None => "null".into() },
                    tline
                )
            }
            TerminatorKind::CoroutineDrop => "{\"k\":\"codrop\"}".to_string(),
            TerminatorKind::FalseEdge { real_target, imaginary_target } => format!(
                "{{\"k\":\"goto\",\"t\":{},\"imag\":{}}}",
                real_target.as_u32(),
                imaginary_target.as_u32()
            ),
            TerminatorKind::FalseUnwind { real_target, .. } => {
                format!("{{\"k\":\"goto\",\"t\":{},\"loop\":true}}", real_target.as_u32())
            }
            TerminatorKind::InlineAsm { targets, .. } => {
                let ts: Vec<String> = targets.iter().map(|t| format!("{}", t.as_u32())).collect();
                format!("{{\"k\":\"asm\",\"ts\":[{}]}}", ts.join(","))
            }
        };
        if detail {
            blocks.push(format!(
                "{{\"id\":{},\"cleanup\":{},\"stmts\":[{}],\"term\":{}}}",
                bb.as_u32(),
                data.is_cleanup,
                stmts.join(","),
                t
            ));
        }
    }

    let mut s = String::new();
    let _ = write!(
        s,
        "{{\"path\":{},\"kind\":{},\"coroutine\":{},\"parent\":{},\"self_ty\":{},\"trait\":{},\"pub\":{},\"file\":{},\"lines\":[{},{}],\"mac\":{},\"nblocks\":{},\"yields\":{}",
        esc(&path),
        esc(kname),
        is_coroutine,
        parent,
        self_ty,
        trait_of,
        vis_pub,
        esc(&loc.file),
        loc.line,
        end_line,
        match &loc.mac { Some(m) => esc(m), None => "null".into() },
        body.basic_blocks.len(),
        yields
    );
    let _ = write!(s, ",\"calls\":[{}]", calls.join(","));
    let _ = write!(s, ",\"aggregates\":[{}]", aggs.join(","));
    let _ = write!(s, ",\"field_mut\":[{}]", bx.field_mut.join(","));
    let _ = write!(s, ",\"asserts\":[{}]", asserts.join(","));
    if detail {
        let _ = write!(s, ",\"argc\":{}", body.arg_count);
        let mut locals: Vec<String> = Vec::new();
        for (l, d) in body.local_decls.iter_enumerated() {
            locals.push(format!(
                "{}:{}",
                esc(&format!("{}", l.as_u32())),
                esc(&clip(format!("{}", d.ty), 200))
            ));
        }
        let _ = write!(s, ",\"locals\":{{{}}}", locals.join(","));
        let mut vdi: Vec<String> = Vec::new();
        for v in &body.var_debug_info {
            let val = match &v.value {
                mir::VarDebugInfoContents::Place(p) => bx.pl(*p),
                mir::VarDebugInfoContents::Const(c) => {
                    format!("[\"c\",{}]", esc(&clip(format!("{}", c.const_), 120)))
                }
            };
            vdi.push(format!(
                "{{\"name\":{},\"v\":{},\"arg\":{}}}",
                esc(v.name.as_str()),
                val,
                match v.argument_index { Some(i) => format!("{}", i), None => "null".into() }
            ));
        }
        let _ = write!(s, ",\"vars\":[{}]", vdi.join(","));
        let _ = write!(s, ",\"blocks\":[{}]", blocks.join(","));
    }
    s.push('}');
    s
}

fn main() {
    let mut args: Vec<String> = std::env::args().collect();
    // RUSTC_WORKSPACE_WRAPPER=<this> : argv = [this, /path/to/rustc, rustc-args...]
    if args.len() > 1 && (args[1].ends_with("rustc") || args[1].ends_with("rustc.exe")) {
        args.remove(1);
    }
    let mut cb = Cb;
    rustc_driver::run_compiler(&args, &mut cb);
}
