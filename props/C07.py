"""C07 — mutable records never regress and hold only owner-signed content."""
import re
from cfg import cfg_of
from flow import Taint, Tracker, backward, callee_matches, field_reads, op_local, prep
from rules import CallGuard, CallSink, CmpGuard, RetSink, AggSink, compare_sites
from rules import returned_directly
from rules import PL
from rules import P as PL_fn
from props.C03 import PV, PUT, param_seeds
from props.C04 import call_results, agg_field_operands, TRK, per_element_key_check

META = {
    "explanation_r6": 'Also (round 6): each component (key, content) of every `outputs` element reaches the signed bytes of a transaction by a value-carrying flow (not only through len / reserve).',
    "explanation_more": "Also (round 5): once a verified transaction for the key exists, Ok is answered only behind put_local_record of the union, except when nothing verified or everything delivered is already held (C07.tx.stored).",
    "explanation": "Decides: (1) in validate_and_store_scratchpad_record the store is cut by content-derived key == presented key, by "
                   "`new.count() > local.count()` (strict) whenever a local copy exists, and by scratchpad.is_valid(); is_valid verifies counter "
                   "and data hash; (2) the transactions persisted all pass the key filter and the Transaction::verify filter (no dataflow from "
                   "the input to the stored value bypasses either) and are unioned with the locally held set through a BTreeSet; (3) a register "
                   "is stored only after register.verify() and, when a local copy exists, as local.verified_merge(incoming); (4) check-then-act: "
                   "a per-record spawned task that reads the local record, branches on it and writes after an await, with no per-key "
                   "serialisation, is reported (known finding for all three mutable kinds). Also: Scratchpad::is_valid verifies the owner's signature over counter and data hash (followed through helpers) and is false without a signature; the local copy those comparisons read includes accepted writes still in flight (NodeRecordStore::get serves the cache before consulting the index). Not decided: which interleavings actually occur.",
    "not_decided": ["runtime interleavings of concurrently processed updates (only the unserialised read-check-write shape is decided)"],
}

PAD = "ant_protocol::storage::scratchpad::Scratchpad"
TX = "ant_protocol::storage::transaction::Transaction"
SR = "ant_registers::register::SignedRegister"
NET = "ant_networking::Network::"
READS = [NET + "get_local_record", NET + "is_record_key_present_locally"]
SERIALISERS = ["*sync::mutex::Mutex<T>::lock", "*Mutex::lock", "*Semaphore::acquire", "*Semaphore::acquire_owned", "*RwLock::write",
               "*Mutex::lock_owned", "*Mutex::try_lock"]


MEASURES = ("::len", "::is_empty", "::capacity", "::count", "::size_hint")


def _element_components_reach(bodies):
    """For the bodies of one item (function + its closures): {component index: does that component of a tuple-typed element reach the
    body's result by a value-carrying flow}.  An element is a local whose type is a tuple or a reference to one; a component is read
    by a projection `.i` of it; flows through measuring calls (`len`, `is_empty`, …) carry no value; an element handed whole to a call
    whose result reaches the output covers every component."""
    out = {}
    for b in bodies:
        prep(b)
        TUP = r"(&('\w+ )?(mut )?)*\(.*,.*\)"
        elems = {int(k) for k, t in b.locals.items() if re.match("^" + TUP + "$", str(t)) and "PublicKey" in str(t)}
        # `for (k, c) in outputs` binds straight out of the iterator's `Option<&(K, C)>`: the element is the payload place
        holders = {int(k) for k, t in b.locals.items() if re.match(r"^core::option::Option<" + TUP + ">$", str(t)) and "PublicKey" in str(t)}
        if not elems and not holders:
            continue
        stop = {blk["term"]["d"][0] for blk in b.blocks if blk["term"]["k"] == "call" and (blk["term"].get("ncallee") or blk["term"].get("ngen") or "").endswith(MEASURES)}
        ta = Taint(b, through="all")
        ncomp = {}
        for e in elems | holders:
            t = str(b.locals[str(e)])
            if t.startswith("core::option::Option<"):
                t = t[len("core::option::Option<"):-1]
            inner = t[t.index("("):]
            depth, n = 0, 1
            for ch in inner[1:-1]:
                depth += ch in "([<"
                depth -= ch in ")]>"
                n += (ch == "," and depth == 0)
            ncomp[e] = n
        reads = {}
        whole = False
        for blk in b.blocks:
            if blk["cleanup"]:
                continue
            for st in blk["stmts"]:
                rv = st["rv"]
                pl = rv["a"][1] if rv["k"] in ("use", "cast") and rv["a"][0] in ("cp", "mv") else rv.get("p") if rv["k"] in ("ref", "rawptr") else None
                if not pl or pl[0] not in (elems | holders) or len(st["d"]) != 1:
                    continue
                fs = [x for x in pl[1:] if x != "*"]
                if pl[0] in holders:
                    if fs[:2] != ["@Some", ".0"]:
                        continue
                    fs = fs[2:]
                if fs and fs[0][1:].isdigit():
                    reads.setdefault(int(fs[0][1:]), set()).add(st["d"][0])
                    if st["d"][0] in elems:      # a component that is itself a tuple is not an element of the list
                        pass
            t = blk["term"]
            if t["k"] == "call" and not (t.get("ncallee") or t.get("ngen") or "").endswith(MEASURES):
                for a in t["args"]:
                    if a[0] in ("cp", "mv") and a[1][0] in elems and all(x == "*" for x in a[1][1:]) and not (t.get("ncallee") or "").endswith(("::next", "::into_iter", "::iter")):
                        if 0 in ta.closure({t["d"][0]}, stop_at=stop):
                            whole = True
        n = max(ncomp.values())
        for i in range(n):
            okc = whole or (i in reads and 0 in ta.closure(reads[i], stop_at=stop))
            out[i] = out.get(i, False) or okc
    return out


def merge_rules(R, pfx="C07"):
    """How each mutable kind is validated, compared with / merged into the local copy and stored (shared with C09, where the
    same functions are what replication between neighbours converges through)."""
    F = R.F
    # (1) scratchpad
    pad = R.body(pfx + ".pad", PV + "validate_and_store_scratchpad_record::{closure#0}")
    if pad is not None:
        prep(pad)

        def counts_of(body, src_locals):
            ta = Taint(body, through="all")
            src = ta.closure(src_locals)
            out = set()
            for b in body.blocks:
                t = b["term"]
                if t["k"] == "call" and callee_matches(t, [PAD + "::count"]) and op_local(t["args"][0]) in src:
                    out.add(t["d"][0])
            return Taint(body).closure(out)

        def local_counts(b):
            return counts_of(b, call_results(["ant_protocol::storage::header::try_deserialize_record"])(b))

        def new_counts(b):
            ta = Taint(b)
            # the parameter only (not things derived from the local copy)
            seeds = PL(b, 1)  # the `scratchpad` parameter (position 1, after self)
            tt = Taint(b)
            src = tt.closure(seeds)
            out = set()
            for blk in b.blocks:
                t = blk["term"]
                if t["k"] == "call" and callee_matches(t, [PAD + "::count"]) and op_local(t["args"][0]) in src:
                    out.add(t["d"][0])
            return tt.closure(out)
        counter = CmpGuard(local_counts, new_counts, "Lt", "local.count() < new.count() (strictly higher)", close=False)
        no_local = CallGuard([NET + "get_local_record"], ("Ok", "None"), "no local copy")
        R.gate(pfx + ".pad.counter", pad, CallSink(PUT), [[counter, no_local]], descr="scratchpad stored only if no local copy or strictly higher counter")
        R.gate(pfx + ".pad.key", pad, CallSink(PUT), [[CmpGuard(call_results([TRK]), PL_fn(2), "Eq", "owner-derived key == presented key")]],
               descr="scratchpad stored only under the key derived from its owner (a pad for another address is refused)")
        R.gate_here_or_in_callers(pfx + ".pad.sig", PV + "validate_and_store_scratchpad_record::{closure#0}", PV + "validate_and_store_scratchpad_record",
                                  CallSink(PUT), CallGuard([PAD + "::is_valid"], ("true",), "scratchpad.is_valid()"),
                                  "scratchpad stored only with a valid owner signature")
        # the local copy compared is the one stored under the same key
        ta = Taint(pad, through="all")
        keys = ta.closure(call_results([TRK])(pad))
        glr = [b for b in pad.blocks if b["term"]["k"] == "call" and callee_matches(b["term"], [NET + "get_local_record"]) and not b["cleanup"]]
        ok = bool(glr) and all(op_local(b["term"]["args"][1]) in keys for b in glr)
        # what is stored is the validated scratchpad
        vals = agg_field_operands(pad, "libp2p_kad::record::Record", "value")
        src = ta.closure(PL(pad, 1))
        ok2 = bool(vals) and all(op_local(o) in src for _, _, o in vals)
        if not (ok and ok2):
            R.viol(pfx + ".pad.same", "pad-identity", "the counter check / the stored value do not concern the scratchpad presented under this key", pad, pad.lines[0])
        R.inst(pfx + ".pad.same", "K6 flows-to", "local copy read under the content-derived key; stored value is the validated scratchpad", len(glr) + len(vals), ok and ok2)

    # (2) transactions
    tx = R.body(pfx + ".tx", PV + "validate_merge_and_store_transactions::{closure#0}")
    if tx is not None:
        prep(tx)
        vals = agg_field_operands(tx, "libp2p_kad::record::Record", "value")
        ta = Taint(tx, through="all")
        inp = PL(tx, 1, aliases=False)  # the `transactions` parameter itself (a variable initialised from it may be filtered in place)
        full = ta.closure(inp)
        # key filter: same per-element rule as C04 (filter/retain closure or gated loop), reported under C07's name
        okk, kept_key = per_element_key_check(R, F, tx, prefix=pfx + ".tx.key")
        # verify filter
        formv, kept_ver = R.per_element_keep(pfx + ".tx.verify", tx, lambda form: CallGuard([TX + "::verify"], ("true",), "transaction.verify()"),
                                             "a transaction is kept only if its owner signature verifies")
        ok = bool(vals) and formv in ("closure", "loop") and okk
        detail = {"key_kept": len(kept_key), "verify_kept": len(kept_ver)}
        if vals:
            vloc = op_local(vals[0][2])
            detail["input_reaches_stored_value"] = vloc in full
            for nm, stops in (("verify", kept_ver), ("key", kept_key)):
                # (a filtered-in-place variable that is a whole alias of the parameter is the cut, not a source)
                if not stops or vloc in ta.closure(inp, stop_at=stops):
                    ok = False
                    R.viol(pfx + ".tx.filters", "bypass:%s" % nm, "a transaction can reach the stored record without passing the %s filter" % nm, tx, vals[0][1]["l"])
            if vloc not in full:
                ok = False
                R.viol(pfx + ".tx.filters", "input-lost", "the validated input does not reach the stored record", tx, tx.lines[0])
        R.inst(pfx + ".tx.filters", "K6 flows-to (cut)", "every stored transaction from the input passes the key filter and the verify filter", len(vals), ok, detail)
        # union with the local set through a BTreeSet
        loc = call_results([PV + "get_local_transactions"])(tx)
        from rules import union_sites
        ext = sorted(union_sites(F, tx, loc)[0]) if loc else []      # `set.extend(local)` or `for t in local { set.insert(t) }`
        oku = bool(ext) and bool(loc) and bool(vals) and op_local(vals[0][2]) in ta.closure(loc)
        if oku:
            # … and the union is stored whole: nothing between the united set and the stored value drops elements (`.take(n)`, `.filter(..)`)
            from rules import receiver_chain_calls, DROPPING_ADAPTORS
            g_ = cfg_of(tx)
            setl = set()
            for bid in ext:
                t_u = g_.term(bid)
                if (t_u.get("ngen") or "").endswith("iterator::Iterator::fold"):
                    recv = op_local(t_u["args"][1])         # fold(set, |acc, x| { acc.insert(x); acc }): the set is the accumulator and the result
                    setl.add(t_u["d"][0])
                else:
                    recv = op_local(t_u["args"][0])
                setl |= {recv} | set(ta.ref_of.get(recv, ()))
            # … into an ordered set: the stored bytes must not depend on the order in which this node learnt the transactions (two replicas
            # holding the same set as [t1, t2] and [t2, t1] advertise different content hashes for ever) — the union's receiver is a
            # BTreeSet, or the list is sorted before it is stored
            unordered = [r for r in setl if "BTreeSet" not in tx.locals.get(str(r), "") and not (ta.ref_of.get(r, set()) and all("BTreeSet" in tx.locals.get(str(x), "") for x in ta.ref_of.get(r, set())))]
            unordered = [r for r in unordered if "BTreeSet" not in tx.locals.get(str(r), "")]
            if unordered and pfx.startswith("C09"):      # the order matters for convergence to one advertised content hash (C09), not for "the set only grows" (C07)
                sorts = [c for c in tx.calls if (c["ncallee"] or "").split("::")[-1] in ("sort", "sort_unstable", "sort_by", "sort_by_key", "sort_unstable_by")]
                if not sorts:
                    oku = False
                    R.viol(pfx + ".tx.union", "union-unordered", "the united transaction set is built in a %s: the stored bytes depend on the order of arrival, not only on the set" %
                           (tx.locals.get(str(unordered[0]), "?").replace("&mut ", "").split("<")[0].split("::")[-1] or "list"), tx, tx.lines[0])
            chain = receiver_chain_calls(tx, op_local(vals[0][2]), stop=setl)
            cut_ = [n for n in chain if any(n.endswith(x) or (x + "<") in n for x in DROPPING_ADAPTORS)]
            if cut_:
                oku = False
                R.viol(pfx + ".tx.union", "union-truncated:%s" % cut_[0].split("::")[-1], "the united transaction set is cut down (%s) before it is stored: a transaction that was already stored can disappear" % cut_[0], tx, tx.lines[0])
        if not oku and not any(v.rule == pfx + ".tx.union" for v in R.violations):
            R.viol(pfx + ".tx.union", "local-union", "the stored set is not the union (BTreeSet::extend) of validated input and get_local_transactions", tx, tx.lines[0])
        R.inst(pfx + ".tx.union", "K6 flows-to", "stored = validated ∪ local (BTreeSet, order/duplication independent)", len(ext), oku)
        # once a verified transaction for this key exists, Ok is answered only after the union went to the store: an early
        # `return Ok(())` between the read of the local set and put_local_record acknowledges transactions that are then forgotten.
        # Legitimate ways round the write: nothing verified (`first()` is None / the set is empty); everything *delivered* is already
        # held (a subset test whose iterated side is the validated input, not the local set).
        from cfg import cfg_of as _cfg
        g_ = _cfg(tx)
        puts = set(CallSink(PUT).blocks(tx)) if not pfx.startswith("C04") else None      # C04 is about keys, not about what is acknowledged
        # what the local set is (plain value flow, not what it is later poured into) / how an iterator leads back to its collection
        locs_t = Taint(tx, extra_transparent=[PV + "get_local_transactions::{closure#0}"]).closure(loc) if loc else set()
        ITERS = ["*::iter", "*::into_iter", "*::iter_mut", "*IntoIterator>::into_iter", "*::by_ref", "*::as_slice", "*::deref"]
        SETS = ["alloc::collections::btree::set::BTreeSet", "*BTreeSet<T, A>", "*BTreeSet<T,A>", "alloc::vec::Vec", "*Vec<T, A>", "core::slice::<impl [T]>"]
        nonempty = [CallGuard([x + "::first" for x in SETS] + [x + "::last" for x in SETS], ("Some",), "a verified transaction exists"),
                    CallGuard([x + "::is_empty" for x in SETS], ("false",), "the verified set is not empty")]
        held = CallGuard(["*core::iter::traits::iterator::Iterator>::all", "core::iter::traits::iterator::Iterator::all", "*BTreeSet<T, A>::is_subset", "alloc::collections::btree::set::BTreeSet::is_subset"],
                         ("false",), "not everything delivered is already held",
                         arg_pred=lambda b_, blk, t: not (backward(tx, op_local(t["args"][0]), extra=ITERS) & locs_t))
        cut_ = set()
        nsite = 0
        for gd in nonempty + [held]:
            n_, _acc, rej_ = gd.edges(tx)
            nsite += n_
            cut_ |= set(rej_)
        okret = set(RetSink("Ok").blocks(tx))
        badr = g_.reach((0,), cut=cut_, avoid=puts or set()) & okret if puts is not None else set()
        oks_ = bool(puts) and bool(okret) and not badr
        if puts is None:
            pass
        elif not puts:
            R.viol(pfx + ".tx.stored", "effect-missing:put_local_record", "validate_merge_and_store_transactions never stores", tx, tx.lines[0])
        elif badr:
            p_ = g_.path((0,), badr, cut=cut_, avoid=puts)
            R.viol(pfx + ".tx.stored", "acknowledged-unstored", "validate_merge_and_store_transactions can answer Ok although a verified transaction was delivered and the "
                   "union was not handed to put_local_record (for a reason other than: nothing verified; everything delivered already held)", tx, None, trace=g_.lines(p_))
        if puts is not None:
            R.inst(pfx + ".tx.stored", "K5 must-follow (enumerated exits)", "Ok after a verified transaction ⇒ the union was stored", len(okret), oks_, {"exit_guard_sites": nsite})
        TXV = R.body(pfx + ".tx.sig", TX + "::verify")
        if TXV is not None:
            R.must_call(pfx + ".tx.sig", TX + "::verify", ["blsttc::PublicKey::verify"], "Transaction::verify checks the owner's BLS signature")

    transaction_rules(R, pfx)
    # what "a valid owner signature" means for a scratchpad: owner key over counter ‖ data hash, false without a signature
    from props.C15 import is_valid_rules
    is_valid_rules(R, pfx + ".pad")
    # (3) register
    rv = R.body(pfx + ".reg", PV + "register_validation::{closure#0}")
    if rv is not None:
        some = AggSink("core::option::Option", "Some", dest_ty="SignedRegister")
        R.gate(pfx + ".reg.verify", rv, some, [[CallGuard([SR + "::verify"], ("Ok",), "register.verify() is Ok")]],
               descr="register_validation yields a register to store only after verify()")
        prep(rv)
        g = cfg_of(rv)
        # the Some reached when present_locally holds the verified merge
        present = CallGuard([], ("true",), "present_locally")
        tr = Tracker(rv)
        for l in PL(rv, 2):  # the `present_locally` parameter (self, register, present_locally)
            tr.seed_bool(l, True)
        tr.run()
        ok = bool(tr.accept)
        if ok:
            somes = set(some.blocks(rv))
            starts = tuple(d for _, d in tr.accept)
            region = g.reach(starts)
            local_somes = [b for b in somes if b in region and b not in g.reach(tuple(d for _, d in tr.reject))]
            okm = R.gate(pfx + ".reg.merge", rv, some,
                         [[CallGuard([SR + "::verified_merge"], ("Ok",), "local.verified_merge(incoming) is Ok")]],
                         descr="with a local copy, the register stored is local.verified_merge(incoming)", starts=starts) if local_somes else False
            if not local_somes:
                R.viol(pfx + ".reg.merge", "merge-missing", "no merged register is produced when a local copy exists", rv, rv.lines[0])
        else:
            R.viol(pfx + ".reg.merge", "present-branch", "register_validation does not branch on present_locally", rv, rv.lines[0])
    # what is handed back for storing when a local copy exists is the *merged* register (the receiver of verified_merge), not the
    # incoming one
    if rv is not None:
        prep(rv)
        vm = [blk for blk in rv.blocks if blk["term"]["k"] == "call" and not blk["cleanup"] and callee_matches(blk["term"], [SR + "::verified_merge"])]
        okp = bool(vm)
        if vm:
            ta_ = Taint(rv)
            recv = set()
            for blk in vm:
                l0 = op_local(blk["term"]["args"][0])
                recv |= ta_.ref_of.get(l0, set()) | {l0}
            merged = Taint(rv).closure(recv)
            incoming = Taint(rv, extra_transparent=["alloc::borrow::ToOwned::to_owned", "*ToOwned>::to_owned"]).closure(PL(rv, 1))
            g2 = cfg_of(rv)
            after = set()
            for blk in vm:
                after |= g2.reach(tuple(d for d, _ in g2.succ[blk["id"]]))
            for blk in rv.blocks:
                if blk["id"] not in after or blk["cleanup"]:
                    continue
                for st in blk["stmts"]:
                    rvv = st["rv"]
                    if rvv["k"] == "agg" and rvv.get("variant") == "Some" and "SignedRegister" in rv.locals.get(str(st["d"][0]), ""):
                        o = op_local(rvv["ops"][0])
                        if o not in merged or o in incoming - merged:
                            okp = False
                            R.viol(pfx + ".reg.merged", "stores-incoming", "after merging with the local copy register_validation hands back something other than the merged register: operations only the local replica had are lost", rv, st["l"])
        R.inst(pfx + ".reg.merged", "K6 flows-to", "with a local copy, Some(..) carries the merged register", len(vm), okp)
    # "nothing to update" (Ok(None)) is answered only when the merge left the local register unchanged; a merge that brought new
    # operations yields the merged register
    if rv is not None:
        loc = lambda b: Taint(b, through="all").closure(call_results(["ant_protocol::storage::header::try_deserialize_record"])(b))
        same = CmpGuard(loc, loc, "Eq", "merged register == local register", close=False)
        n_, acc_, rej_ = same.edges(rv)
        g_ = cfg_of(rv)
        nones = set(AggSink("core::option::Option", "None", dest_ty="SignedRegister").blocks(rv))
        somes_ = set(AggSink("core::option::Option", "Some", dest_ty="SignedRegister").blocks(rv))
        # (a verdict kept in a variable and branched on twice — `if changed { log } else { log }; Ok(changed.then_some(merged))` — joins and splits
        # again: from one side of the verdict the other side's edges are not paths of the program)
        okn = bool(acc_) and bool(rej_) and bool(nones) and all(not (g_.reach((d,), cut=set(acc_)) & nones) for _, d in rej_) and all(not (g_.reach((d,), cut=set(rej_)) & somes_) for _, d in acc_)
        if not okn:
            R.viol(pfx + ".reg.noop", "noop-polarity", "register_validation does not answer None exactly when the merged register equals the local one "
                   "(an update that adds operations must be stored; an unchanged register need not be)", rv, rv.lines[0])
        R.inst(pfx + ".reg.noop", "K10 polarity", "Ok(None) ⇔ merged == local; otherwise Ok(Some(merged))", n_, okn)
    vsr = R.body(pfx + ".reg.store", PV + "validate_and_store_register::{closure#0}")
    if vsr is not None:
        prep(vsr)
        ta = Taint(vsr, through="all")
        src = ta.closure(call_results([PV + "register_validation"])(vsr))
        vals = agg_field_operands(vsr, "libp2p_kad::record::Record", "value")
        ok = bool(vals) and all(op_local(o) in src for _, _, o in vals)
        if not ok:
            R.viol(pfx + ".reg.store", "stored-register", "the register persisted is not the one register_validation returned", vsr, vsr.lines[0])
        R.inst(pfx + ".reg.store", "K6 flows-to", "persisted register = result of register_validation", len(vals), ok)
        R.gate(pfx + ".reg.store.gate", vsr, CallSink(PUT), [[CallGuard([PV + "register_validation"], ("Ok", "Some"), "register_validation is Ok(Some(_))")]],
               descr="register stored only when validation produced an update")
    # the local copy those comparisons read includes accepted writes still in flight (NodeRecordStore::get serves the cache
    # without waiting for the index)
    # the "locally held set" that gets unioned: empty only if nothing is stored under the key, otherwise the decoded transactions
    glt = R.body(pfx + ".tx.local", PV + "get_local_transactions::{closure#0}")
    if glt is not None:
        absent = CallGuard([NET + "get_local_record"], ("Ok", "None"), "nothing stored under the key")
        decoded = CallGuard(["ant_protocol::storage::header::try_deserialize_record"], ("Ok",), "the stored record decoded as transactions")
        R.gate(pfx + ".tx.local", glt, RetSink("Ok"), [[absent, decoded]],
               descr="get_local_transactions answers Ok only with the decoded local set, or empty when nothing is stored (a record of another kind is an error, not \"empty\")")
    from props.C01 import get_serves_unsettled
    get_serves_unsettled(R, pfx + ".local.unsettled")
    # a delivered version that differs from the stored one is handed on to validation: the network-facing put skips a non-chunk
    # record only when its content hash equals the stored one
    from props.C04 import RS_PUT
    rp = R.body(pfx + ".deliver", RS_PUT)
    if rp is not None:
        prep(rp)
        g = cfg_of(rp)
        newh = lambda b: Taint(b, through="all").closure(call_results(["xor_name::XorName::from_content"])(b))
        oldh = lambda b: Taint(b, through="all").closure(call_results(["std::collections::hash::map::HashMap::get"])(b)) - newh(b)
        same = CmpGuard(newh, oldh, "Eq", "incoming content hash == stored content hash", close=False)
        n_, acc, rej = same.edges(rp)
        spawn = set(CallSink("tokio::task::spawn::spawn").blocks(rp))
        okd = bool(acc) and bool(rej) and bool(spawn) and all(spawn & g.reach((d,)) for _, d in rej) and all(not (spawn & g.reach((d,))) for _, d in acc)
        if not okd:
            R.viol(pfx + ".deliver", "update-not-forwarded", "RecordStore::put does not forward a non-chunk record exactly when its content hash differs from the stored one "
                   "(a differing version must reach validation; only the identical one may be skipped)", rp, rp.lines[0])
        R.inst(pfx + ".deliver", "K10 polarity", "network put: identical content is skipped, differing content is forwarded as UnverifiedRecord", n_, okd)
    # an accepted update really replaces the stored bytes (put_verified writes unless the identical bytes are cached) ...
    from props.C01 import put_persist_rules
    put_persist_rules(R, pfx + ".store")
    # ... and "validly signed / permitted" for registers means what SignedRegister::verify and merge decide (rules of C06)
    from props.C06 import register_rules
    register_rules(R, pfx + ".regsem")


def run(R):
    # "the node's stored value is …": what the validated write hands to the store must reach the disk and be marked only then — the
    # write-path rules of C01 are evaluated under this property too
    import props.C01 as _C01
    R.import_rules("C01", _C01.run, ["C01.mark-after-write", "C01.mark.", "C01.arm.always", "C01.failed-write"], "C07.persist")
    F = R.F
    merge_rules(R, "C07")
    # (3b) a client update of a mutable kind is acknowledged only with the verdict of its validate-and-store function
    import tables as T
    from props.C03 import KIND, STORE_FNS
    from props.C04 import ARMS as KARMS, VSR, STORE
    vs = R.body("C07.no-bypass", VSR)
    if vs is not None:
        prep(vs)
        g = cfg_of(vs)
        arms, _ = T.arm_targets(F, vs, KIND)
        any_store = CallSink(*STORE_FNS)
        n = 0
        okb = True
        for v, want in KARMS[VSR].items():
            if want in (None, "chunk") or not arms or v not in arms:
                continue
            n += 1
            starts = tuple(arms[v])
            stores = set(b for b in any_store.blocks(vs) if b in g.reach(starts))
            early = [b for b in RetSink("Ok").blocks(vs) if b in g.reach(starts, avoid=stores)]
            if early:
                okb = False
                R.viol("C07.no-bypass", "early-ok:%s" % v, "a client %s can be acknowledged (Ok) without reaching %s" % (v, STORE[want].split("::")[-1]), vs, g.term(early[0]).get("l"))
        R.inst("C07.no-bypass", "K5 must-follow", "mutable kinds on the client path: the only accepting outcome is the validate-and-store function's verdict", n, okb)

    # (4) check-then-act
    wrappers = read_wrappers(F)
    for nm, fn in (("scratchpad", PV + "validate_and_store_scratchpad_record"), ("register", PV + "validate_and_store_register"),
                   ("transactions", PV + "validate_merge_and_store_transactions")):
        check_then_act(R, "C07.toctou." + nm, fn, wrappers)


def read_wrappers(F):
    """workspace functions (ant_node) that read the local record store, directly or through one more call"""
    out = set(READS)
    for _ in range(2):
        for b in F.bodies.values():
            if b.crate != "ant_node":
                continue
            if any(c["ncallee"] in out for c in b.calls_raw):
                root = F.root_of(b).npath
                if "put_validation" in root and not root.endswith(("validate_and_store_record", "store_replicated_in_record",
                                                                   "validate_and_store_scratchpad_record", "validate_and_store_register",
                                                                   "validate_merge_and_store_transactions")):
                    out.add(root)
    return sorted(out)


def spawn_chain(F, fn, depth=4):
    """Is `fn` (transitively) called from an async block handed to tokio::spawn?  Returns the chain or None."""
    callers = F.callers()
    frontier = [(fn, [fn])]
    seen = {fn}
    for _ in range(depth):
        nxt = []
        for f, chain in frontier:
            for b, c in callers.get(f, []):
                root = F.root_of(b)
                if b.kind == "closure" and b.parent:
                    par = F.body(b.parent)
                    if par is not None:
                        for pc in par.calls:
                            if (pc["ncallee"] or "").endswith("::spawn") and any(re.search(r":%d:" % b.lines[0], t) for t in pc["arg_tys"]):
                                return chain + [b.npath, "spawn in " + par.npath]
                if root.npath not in seen:
                    seen.add(root.npath)
                    nxt.append((root.npath, chain + [root.npath]))
        frontier = nxt
    return None


def check_then_act(R, rule, fn, wrappers):
    F = R.F
    body = R.body(rule, fn + "::{closure#0}")
    if body is None:
        return
    prep(body)
    g = cfg_of(body)
    reads = [b for b in body.blocks if b["term"]["k"] == "call" and not b["cleanup"] and callee_matches(b["term"], wrappers)]
    writes = [b["id"] for b in body.blocks if b["term"]["k"] == "call" and not b["cleanup"] and callee_matches(b["term"], [PUT])]
    yields = {b["id"] for b in body.blocks if b["term"]["k"] == "yield"}
    shape = False
    for r in reads:
        # read result decides a branch (any switch tainted by the read's result) and a write follows after an await point
        ta = Taint(body, through="all")
        t = ta.closure({r["term"]["d"][0]})
        decides = any(b["term"]["k"] == "switch" and op_local(b["term"]["on"]) in t and r["id"] in _preds_reach(g, b["id"]) for b in body.blocks)
        after = g.reach((r["id"],))
        if decides and (after & set(writes)) and (after & yields):
            shape = True
    chain = spawn_chain(F, fn)
    ser = []
    for b in F.item(fn):
        ser += [c for c in b.calls if callee_matches(c, SERIALISERS)]
    detail = {"reads": len(reads), "writes": len(writes), "await_points": len(yields), "spawned_via": chain, "serialising_calls": len(ser)}
    if not reads or not writes:
        R.viol(rule, "anchor-missing:read-or-write", "expected local read and put_local_record in %s" % fn, body, body.lines[0])
        R.inst(rule, "K13 check-then-act", "read-check-write on the local record is serialised per key", 0, False, detail)
        return
    bad = shape and chain is not None and not ser
    if bad:
        R.viol(rule, "unserialised-read-check-write:%s" % fn.split("::")[-1],
               "%s reads the local record, branches on it and writes after an await, in a per-record spawned task with no per-key lock" % fn.split("::")[-1],
               body, g.term(writes[0]).get("l"))
    R.inst(rule, "K13 check-then-act", "read-check-write on the local record is serialised per key", len(reads), not bad, detail)


def _preds_reach(g, blk):
    """blocks from which blk is reachable (reverse reachability)"""
    seen = {blk}
    todo = [blk]
    while todo:
        x = todo.pop()
        for p in g.pred[x]:
            if p not in seen:
                seen.add(p)
                todo.append(p)
    return seen


def transaction_rules(R, pfx):
    """Transaction: address derived from the owner key; verify() checks the owner's signature over all four content fields"""
    from rules import PL
    F = R.F
    adt = F.adts.get(TX)
    ad = R.body(pfx + ".tx.address", TX + "::address")
    if ad is not None:
        prep(ad)
        own = Taint(ad).closure({d for d, r, p in field_reads(ad, "owner")})
        fo = [b for b in ad.blocks if b["term"]["k"] == "call" and callee_matches(b["term"], ["ant_protocol::storage::address::transaction::TransactionAddress::from_owner"])]
        ok = bool(fo) and all(op_local(b["term"]["args"][0]) in own and b["term"]["d"] == [0] for b in fo)
        if not ok:
            R.viol(pfx + ".tx.address", "tx-address", "Transaction::address is not TransactionAddress::from_owner(self.owner)", ad, ad.lines[0])
        R.inst(pfx + ".tx.address", "K6 flows-to", "a transaction's address is derived from its owner key", len(fo), ok)
    vf = R.body(pfx + ".tx.verify", TX + "::verify")
    if vf is not None:
        prep(vf)
        ta = Taint(vf, through="all")
        own = Taint(vf).closure({d for d, r, p in field_reads(vf, "owner")})
        sig = Taint(vf).closure({d for d, r, p in field_reads(vf, "signature")})
        msg = ta.closure(call_results([TX + "::bytes_for_signature"])(vf))
        vs = [b for b in vf.blocks if b["term"]["k"] == "call" and callee_matches(b["term"], ["blsttc::PublicKey::verify"])]
        ok = bool(vs) and all(op_local(b["term"]["args"][0]) in own and op_local(b["term"]["args"][1]) in sig and op_local(b["term"]["args"][2]) in msg and returned_directly(vf, b["term"]["d"]) for b in vs)
        if not ok:
            R.viol(pfx + ".tx.verify", "tx-verify", "Transaction::verify is not owner.verify(signature, bytes_for_signature())", vf, vf.lines[0])
        R.inst(pfx + ".tx.verify", "K6 flows-to", "verify() = owner.verify(signature, bytes_for_signature())", len(vs), ok)
    bs = R.body(pfx + ".tx.signed", TX + "::bytes_for_signature")
    bt = R.body(pfx + ".tx.signed", TX + "::bytes_to_sign")
    if bs is not None and bt is not None and adt is not None:
        prep(bs); prep(bt)
        fields = [f["name"] for f in adt["variants"][0]["fields"]]
        order = ["owner", "parents", "content", "outputs"]
        cs = [b for b in bs.blocks if b["term"]["k"] == "call" and callee_matches(b["term"], [TX + "::bytes_to_sign"])]
        ok = len(cs) == 1
        covered = []
        if ok:
            from flow import backward
            for i, f in enumerate(order):
                reads = {d for d, r, p in field_reads(bs, f)}
                a = op_local(cs[0]["term"]["args"][i]) if i < len(cs[0]["term"]["args"]) else None
                if a is not None and (backward(bs, a) & reads):
                    covered.append(f)
                else:
                    ok = False
                    R.viol(pfx + ".tx.signed", "unsigned-arg:%s" % f, "bytes_for_signature does not pass self.%s as argument %d of bytes_to_sign" % (f, i), bs, bs.lines[0])
            tb = Taint(bt, through="all")
            for i, f in enumerate(order):
                if 0 not in tb.closure(PL(bt, i)):
                    ok = False
                    R.viol(pfx + ".tx.signed", "param-dropped:%s" % f, "bytes_to_sign drops its `%s` parameter" % f, bt, bt.lines[0])
                else:
                    from flow import whole_value_reaches
                    whole, part = whole_value_reaches(bt, PL(bt, i))
                    if not whole:
                        ok = False
                        R.viol(pfx + ".tx.signed", "param-partial:%s" % f, "bytes_to_sign covers only part of `%s` (%s), not the whole value" % (f, ", ".join("." + x for x in sorted(part)) or "a projection"), bt, bt.lines[0])
            # element-wise: `outputs` is a list of (key, content) pairs — *each component* of an element has to reach the bytes by a
            # value-carrying flow (seed C07-r6: the loop appended the output's key and, by a slip, the transaction's own content; the
            # output's content only reached `len()` / `reserve`), in the function itself or in the closure that flattens an element
            comp = _element_components_reach(F.item(TX + "::bytes_to_sign"))
            for i_, okc in sorted(comp.items()):
                if not okc:
                    ok = False
                    R.viol(pfx + ".tx.signed", "element-partial:outputs.%d" % i_, "bytes_to_sign does not put component %d of every `outputs` element (key, content) into the signed bytes" % i_, bt, bt.lines[0])
            if not comp:
                ok = False
                R.viol(pfx + ".tx.signed", "element-missing:outputs", "bytes_to_sign: no use of the (key, content) elements of `outputs` found", bt, bt.lines[0])
        unsigned = sorted(set(fields) - set(covered))
        if unsigned != ["signature"]:
            ok = False
            R.viol(pfx + ".tx.signed", "unsigned-fields:%s" % ",".join(unsigned), "Transaction fields not covered by the signature: %s (expected only `signature`)" % unsigned, bs, bs.lines[0])
        R.inst(pfx + ".tx.signed", "K6 field coverage", "every Transaction field except `signature` is signed", len(fields), ok, {"fields": fields, "signed": covered})
