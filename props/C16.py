"""C16 — token amounts: text round-trip and overflow-safe arithmetic (structural clauses)."""

META = {
    "explanation_more": "Also (round 5): the fraction's length reaches `18 - len` un-narrowed (any integer checked_sub, no `len as u8`); a width given through a local variable is resolved to its constant.",
    "explanation_more2": 'Also (round 4): every path through checked_add / checked_sub goes through the 256-bit Uint::checked_* (no narrower fast path); every text-to-number call of the module, not only from_str_radix, sits behind the all-ASCII-digits test.',
    "explanation": "Decides: (1) the fractional placeholder of <AttoTokens as Display> is zero-padded to exactly "
                   "TOKEN_TO_RAW_POWER_OF_10_CONVERSION digits and TOKEN_TO_RAW_CONVERSION == 10^that, unit/remainder are "
                   "Div/Rem by the same constant; (2) from_str / checked_add / checked_sub contain no wrapping ruint operator "
                   "(`+`,`-`,`*` on Uint wrap silently) except the bounded remainder scaling; (3) checked_add/sub delegate to "
                   "Uint::checked_add/sub; (4) the units and the fraction are parsed as decimal digits only: ruint's FromStr (radix prefixes, `_`) "
                   "is not used, from_str_radix gets the literal 10 behind an all-ASCII-digits test. Not decided: the value round trip.",
    "not_decided": ["value-level round trip Display→FromStr", "whether an empty integer or fraction part (\"\", \".5\", \"5.\") counts as a decimal string"],
    "trusted": ["ruint checked_* semantics", "core::fmt zero padding"],
}

from flow import prep, op_local, Taint, callee_matches  # noqa: E402

AMT = "ant_evm::amount::"
DISPLAY = "<ant_evm::amount::AttoTokens as core::fmt::Display>::fmt"
FROM_STR = "<ant_evm::amount::AttoTokens as core::str::traits::FromStr>::from_str"
WRAPPING = ["*<impl core::ops::arith::Add for ruint::Uint<BITS, LIMBS>>::add",
            "*<impl core::ops::arith::Sub for ruint::Uint<BITS, LIMBS>>::sub",
            "*<impl core::ops::arith::Mul for ruint::Uint<BITS, LIMBS>>::mul",
            "*<impl core::ops::arith::AddAssign for ruint::Uint<BITS, LIMBS>>::add_assign",
            "*<impl core::ops::arith::SubAssign for ruint::Uint<BITS, LIMBS>>::sub_assign",
            "*<impl core::ops::arith::MulAssign for ruint::Uint<BITS, LIMBS>>::mul_assign",
            "*ruint::Uint::wrapping_add", "*ruint::Uint::wrapping_sub", "*ruint::Uint::wrapping_mul",
            "*ruint::Uint::overflowing_add", "*ruint::Uint::overflowing_sub", "*ruint::Uint::overflowing_mul",
            "*ruint::Uint::saturating_add", "*ruint::Uint::saturating_sub", "*ruint::Uint::saturating_mul",
            # the same methods as they are actually rendered (`ruint::add::<impl ruint::Uint<BITS, LIMBS>>::wrapping_add`)
            "*<impl ruint::Uint<BITS, LIMBS>>::wrapping_add", "*<impl ruint::Uint<BITS, LIMBS>>::wrapping_sub", "*<impl ruint::Uint<BITS, LIMBS>>::wrapping_mul",
            "*<impl ruint::Uint<BITS, LIMBS>>::overflowing_add", "*<impl ruint::Uint<BITS, LIMBS>>::overflowing_sub", "*<impl ruint::Uint<BITS, LIMBS>>::overflowing_mul",
            "*<impl ruint::Uint<BITS, LIMBS>>::saturating_add", "*<impl ruint::Uint<BITS, LIMBS>>::saturating_sub", "*<impl ruint::Uint<BITS, LIMBS>>::saturating_mul",
            "*<impl ruint::Uint<BITS, LIMBS>>::wrapping_pow", "*<impl ruint::Uint<BITS, LIMBS>>::saturating_pow", "*<impl ruint::Uint<BITS, LIMBS>>::wrapping_neg",
            # narrowing the 256-bit amount: `to` panics when it does not fit, the others lose the value
            "*<impl ruint::Uint<BITS, LIMBS>>::to", "*<impl ruint::Uint<BITS, LIMBS>>::wrapping_to", "*<impl ruint::Uint<BITS, LIMBS>>::saturating_to",
            "*<impl ruint::Uint<BITS, LIMBS>>::as_limbs", "*<impl ruint::Uint<BITS, LIMBS>>::into_limbs"]


def _width_var_value(R, body, name):
    """`{remainder:0width$}` with `let width = usize::from(POWER)` / `POWER as usize` / a literal: the value of that variable when its
    single definition is a lossless conversion of a constant, else None"""
    import re
    prep(body)
    locs = Taint(body).var_locals(name.strip())
    if len(locs) != 1:
        return None
    l = next(iter(locs))
    for _ in range(4):
        defs = [("s", s_["rv"]) for b in body.blocks if not b["cleanup"] for s_ in b["stmts"] if s_["d"] == [l]] + \
               [("c", b["term"]) for b in body.blocks if not b["cleanup"] and b["term"]["k"] == "call" and b["term"].get("d") == [l]]
        if len(defs) != 1:
            return None
        k, d = defs[0]
        if k == "c":
            nm = d.get("ncallee") or ""
            if not (nm.endswith(">::from") and "core::convert::num::" in nm) or len(d["args"]) != 1:
                return None          # only the lossless integer `From` conversions
            o = d["args"][0]
        else:
            if d["k"] == "use":
                o = d["a"]
            elif d["k"] == "cast" and len(d.get("ops", [d.get("a")])) >= 1:
                o = d.get("a") or d["ops"][0]
            else:
                return None
        if o[0] == "c":
            txt = o[1]
            m = re.match(r"^(?:const )?(-?\d+)(?:_[iu]\w+)?$", txt)
            if m:
                return int(m.group(1))
            v = R.F.consts.get(txt.replace("const ", "").strip())
            return int(v["value"]) if v and v.get("value") is not None else None
        if o[0] in ("cp", "mv") and len(o[1]) == 1:
            l = o[1][0]
            continue
        return None
    return None


def run(R):
    F = R.F
    # (1) constants
    R.const_rel("C16.const", "TOKEN_TO_RAW_CONVERSION == 10^TOKEN_TO_RAW_POWER_OF_10_CONVERSION",
                lambda F: (R.const(AMT + "TOKEN_TO_RAW_CONVERSION") == 10 ** R.const(AMT + "TOKEN_TO_RAW_POWER_OF_10_CONVERSION"),
                           {"conversion": R.const(AMT + "TOKEN_TO_RAW_CONVERSION"), "power": R.const(AMT + "TOKEN_TO_RAW_POWER_OF_10_CONVERSION")}))
    disp = R.body("C16.width", DISPLAY)
    if disp is not None:
        power = int(F.consts.get(AMT + "TOKEN_TO_RAW_POWER_OF_10_CONVERSION", {"value": -1})["value"])
        fmts = R.fmt_in(disp)
        ok = False
        detail = []
        for f in fmts:
            phs = [p for p in f["pieces"] if "arg" in p]
            lits = [p["lit"] for p in f["pieces"] if "lit" in p]
            detail.append({"line": f["line"], "pieces": f["pieces"]})
            if len(phs) == 2 and lits == ["."]:
                frac = phs[1]
                w = frac["width"]
                width_ok = (w == power) or (isinstance(w, dict) and "TOKEN_TO_RAW_POWER_OF_10_CONVERSION" in f["args"][w["arg"]]["src"]) \
                    or (isinstance(w, dict) and _width_var_value(R, disp, f["args"][w["arg"]]["src"]) == power)
                unit_plain = phs[0]["width"] is None and phs[0]["precision"] is None
                if width_ok and frac["zero_pad"] and frac["precision"] is None and frac["trait"] == "Display" and unit_plain \
                        and frac["arg"] != phs[0]["arg"] and f["args"][frac["arg"]]["src"] != f["args"][phs[0]["arg"]]["src"]:
                    ok = True
                else:
                    R.viol("C16.width", "fraction-width", "fractional part is formatted with width=%s zero_pad=%s but the amount has %d decimals"
                           % (w, frac["zero_pad"], power), disp, f["line"])
        if not fmts or (not ok and not any(v.rule == "C16.width" for v in R.violations)):
            R.viol("C16.width", "format-missing", "no `{unit}.{remainder:0N}` format found in Display::fmt", disp, disp.lines[0])
        R.inst("C16.width", "K11 format-spec", "Display prints <unit>.<remainder zero-padded to POWER digits>", len(fmts), ok, {"formats": detail, "power": power})
        # unit / remainder derive from Div and Rem by TOKEN_TO_RAW_CONVERSION
        calls = {c["ncallee"]: c for c in disp.calls}
        has_div = any(k.endswith("<impl core::ops::arith::Div for ruint::Uint<BITS, LIMBS>>::div") for k in calls)
        has_rem = any(k.endswith("<impl core::ops::arith::Rem for ruint::Uint<BITS, LIMBS>>::rem") for k in calls)
        convs = [c for c in disp.calls if c["ncallee"].endswith("ruint::Uint<BITS, LIMBS>>::from") and
                 any("TOKEN_TO_RAW_CONVERSION" in k[1] and "POWER" not in k[1] for k in c["consts"])]
        has_divrem = any("ruint::" in k and k.endswith("::div_rem") for k in calls)      # one call yielding (quotient, remainder)
        ok2 = ((has_div and has_rem) or has_divrem) and len(convs) >= 1
        if ok2:
            # both the quotient and the remainder are taken by that conversion constant (computed once or twice)
            prep(disp)
            cv = Taint(disp, through="all").closure({b["term"]["d"][0] for b in disp.blocks if b["term"]["k"] == "call" and not b["cleanup"] and (b["term"]["ncallee"] or "").endswith("ruint::Uint<BITS, LIMBS>>::from")
                                                    and any(a[0] == "c" and "TOKEN_TO_RAW_CONVERSION" in a[1] and "POWER" not in a[1] for a in b["term"]["args"])})
            for blk in disp.blocks:
                t = blk["term"]
                if t["k"] == "call" and not blk["cleanup"] and ((t["ncallee"] or "").endswith(("Div for ruint::Uint<BITS, LIMBS>>::div", "Rem for ruint::Uint<BITS, LIMBS>>::rem"))
                                                                or ("ruint::" in (t["ncallee"] or "") and (t["ncallee"] or "").endswith("::div_rem"))):
                    if op_local(t["args"][1]) not in cv:
                        ok2 = False
        if not ok2:
            R.viol("C16.divrem", "divrem", "Display does not compute unit/remainder as Div and Rem by TOKEN_TO_RAW_CONVERSION", disp, disp.lines[0])
        R.inst("C16.divrem", "K6 provenance", "unit = amount / CONVERSION, remainder = amount % CONVERSION", len(convs), ok2)

    # (2) no wrapping arithmetic
    import panics  # noqa: F401
    R.no_panic_reach("C16.parse.nopanic", [FROM_STR], descr="from_str answers every input with a value or an error (no panic-capable site reachable)")
    R.no_calls("C16.nowrap", [FROM_STR, AMT + "AttoTokens::checked_add", AMT + "AttoTokens::checked_sub", DISPLAY], WRAPPING,
               "wrapping ruint arithmetic in parse/checked paths",
               suppress={(FROM_STR, "ruint::mul::<impl core::ops::arith::Mul for ruint::Uint<BITS, LIMBS>>::mul"):
                         "remainder scaling parsed(<=18 chars) * 10^(18-len): len<=18 enforced by the preceding checked_sub, "
                         "so the product is < 2^64 * 10^17 < 2^256"})
    # from_str combines units and remainder with checked ops
    R.must_call("C16.parse.checked_mul", FROM_STR, ["*ruint::Uint::checked_mul", "*<impl ruint::Uint<BITS, LIMBS>>::checked_mul"], "units scaled with checked_mul")
    R.must_call("C16.parse.checked_add", FROM_STR, ["*ruint::Uint::checked_add", "*<impl ruint::Uint<BITS, LIMBS>>::checked_add"], "units + remainder with checked_add")
    # 18 - len(fraction): through checked_sub, or a plain subtraction behind `18 < len → LossOfPrecision` (then the K8 rule below has
    # discharged its overflow assert by the dominating comparison)
    from flow import callee_matches
    fs_bodies = F.item(FROM_STR)
    # any integer width will do — but the fraction's length must reach the subtraction un-narrowed: `len as u8` wraps at 256 digits, so a
    # fraction of 256 + k digits passes the precision test as one of k digits
    INT_SUB = ["core::num::<impl u%s>::checked_sub" % w for w in ("8", "16", "32", "64", "128", "size")]
    has_checked, narrowed = False, None
    for b in fs_bodies:
        prep(b)
        for blk in b.blocks:
            t = blk["term"]
            if t["k"] != "call" or blk["cleanup"] or not callee_matches(t, INT_SUB) or len(t["args"]) < 2:
                continue
            has_checked = True
            l = op_local(t["args"][1])
            for _ in range(8):
                if l is None:
                    break
                ds = [s_["rv"] for x in b.blocks if not x["cleanup"] for s_ in x["stmts"] if s_["d"] == [l]]
                if len(ds) != 1 or ds[0]["k"] not in ("use", "cast") or ds[0]["a"][0] not in ("cp", "mv") or len(ds[0]["a"][1]) != 1:
                    break
                src = ds[0]["a"][1][0]
                if ds[0]["k"] == "cast":
                    tf, tt_ = b.locals.get(str(src), ""), b.locals.get(str(l), "")
                    bits = {"u8": 8, "i8": 8, "u16": 16, "i16": 16, "u32": 32, "i32": 32, "u64": 64, "i64": 64, "usize": 64, "isize": 64, "u128": 128, "i128": 128}
                    if tf in bits and tt_ in bits and bits[tt_] < bits[tf]:
                        narrowed = (tf, tt_, ds[0].get("l") or t.get("l"))
                l = src
    if narrowed:
        R.viol("C16.parse.checked_sub", "length-narrowed:%s->%s" % narrowed[:2], "from_str narrows the fraction's length (%s as %s) before 18 - len: a fraction of 2^%s + k digits passes the precision "
               "test as one of k digits" % (narrowed[0], narrowed[1], narrowed[1].lstrip("ui")), fs_bodies[0], fs_bodies[0].lines[0])
    ok_sub = has_checked and not narrowed
    if not has_checked:
        import panics as PN
        subs = [(b, a_) for b in fs_bodies for a_ in PN.panic_sites(F, b) if a_["kind"].startswith("assert:Overflow(Sub")]
        ok_sub = bool(subs) and all(PN.sub_guarded(F, b, a_)[0] for b, a_ in subs)
    if not ok_sub and not narrowed:
        R.viol("C16.parse.checked_sub", "missing-call:from_str!checked_sub", "from_str computes 18 - len(fraction) neither with checked_sub nor behind a comparison that refuses a longer fraction (LossOfPrecision)", fs_bodies[0] if fs_bodies else None, fs_bodies[0].lines[0] if fs_bodies else None)
    R.inst("C16.parse.checked_sub", "K1 must-call", "18 - len(fraction) cannot underflow (checked_sub, or guarded subtraction)", 1, ok_sub)
    decimal_only(R)
    whole_input(R)
    # (3) delegation
    R.must_call("C16.add", AMT + "AttoTokens::checked_add", ["*<impl ruint::Uint<BITS, LIMBS>>::checked_add"], "checked_add delegates to Uint::checked_add")
    R.must_call("C16.sub", AMT + "AttoTokens::checked_sub", ["*<impl ruint::Uint<BITS, LIMBS>>::checked_sub"], "checked_sub delegates to Uint::checked_sub")
    # ... on every path: a fast path computing the sum / difference in a narrower type answers "overflow" for representable results
    from rules import CallSink as _CS
    R.must_pass("C16.add.always", AMT + "AttoTokens::checked_add", [("Uint::checked_add", _CS("*<impl ruint::Uint<BITS, LIMBS>>::checked_add"))],
                descr="every path through checked_add computes the sum with the 256-bit Uint::checked_add")
    R.must_pass("C16.sub.always", AMT + "AttoTokens::checked_sub", [("Uint::checked_sub", _CS("*<impl ruint::Uint<BITS, LIMBS>>::checked_sub"))],
                descr="every path through checked_sub computes the difference with the 256-bit Uint::checked_sub")


def decimal_only(R):
    """The parser reads decimal digits only: ruint's `FromStr` accepts `0x`/`0o`/`0b` prefixes and skips `_`, so no part of an
    amount may be parsed with it; `from_str_radix` must be given the literal radix 10 and only a string that passed an
    all-ASCII-digits test (from_str_radix itself skips `_`)."""
    from flow import prep, callee_matches, op_local
    from rules import CallGuard, CallSink, closures_passed, returned_directly
    F = R.F
    mod = [b for b in F.bodies.values() if b.crate == "ant_evm" and (b.path.startswith(AMT) or b.path.startswith("<" + AMT)) and "::tests::" not in b.path]
    lax, radix_sites, other = [], [], []
    for b in mod:
        for c in b.calls_raw:
            nc = c["ncallee"] or ""
            tg = str(c.get("targs") or "")
            if ("ruint::Uint" in nc and nc.endswith("core::str::traits::FromStr>::from_str")) or (nc == "core::str::<impl str>::parse" and "ruint::Uint" in tg) \
                    or (nc.endswith("FromStr>::from_str") and "ruint::Uint" in tg):
                lax.append((b, c))
            if nc.endswith("::from_str_radix") and "ruint" in nc:
                radix_sites.append((b, c))
            elif nc == "core::str::<impl str>::parse" or nc.endswith("::from_str_radix") or (nc.endswith("FromStr>::from_str") and "AttoTokens" not in nc):
                other.append((b, c))
    # the all-digits test: Iterator::all over the bytes/chars with a closure whose verdict is is_ascii_digit
    def digits_pred(bd, blk, t):
        for cl in closures_passed(F, bd, t):
            prep(cl)
            if any(x["term"]["k"] == "call" and (x["term"]["ncallee"] or "").endswith("::is_ascii_digit") and returned_directly(cl, x["term"]["d"]) for x in cl.blocks):
                return True
        return False

    for b, c in lax:
        R.viol("C16.parse.decimal", "radix-prefix-parser:%s" % R.root_path(b).split("::")[-1],
               "%s parses a part of the amount with ruint's FromStr, which accepts 0x/0o/0b prefixes and ignores `_` (non-decimal strings are accepted, e.g. \"0x10\", \"1.5_\")" % R.root_path(b), b, c["line"])
    ok = not lax and bool(radix_sites)
    if not radix_sites:
        R.viol("C16.parse.decimal", "anchor-missing:from_str_radix", "no decimal `from_str_radix(_, 10)` parse found in ant_evm::amount")
    for b, c in radix_sites:
        if not any(k[0] == 1 and k[1].startswith("10_") for k in c.get("consts") or []):
            ok = False
            R.viol("C16.parse.decimal", "radix-not-10:%s" % R.root_path(b).split("::")[-1], "from_str_radix is not called with the literal radix 10 in %s" % b.path, b, c["line"])
        body = F.root_of(b) if b.kind == "closure" else F.body(b.path)      # a closure handed to a combinator is judged inside the function it was written in
        prep(body)
        gd = CallGuard(["*core::iter::traits::iterator::Iterator>::all", "core::iter::traits::iterator::Iterator::all"], ("true",), "all characters are ASCII digits", arg_pred=digits_pred)
        # the same test as an explicit loop over the characters
        from rules import ForallGuard
        gd_loop = ForallGuard(None, ["*::is_ascii_digit"], ("true",), "every character passed is_ascii_digit", source_calls=["core::str::<impl str>::bytes", "core::str::<impl str>::chars"])
        if not R.gate("C16.parse.digits", body, CallSink("*::from_str_radix"), [[gd, gd_loop]], descr="from_str_radix only on a string of ASCII digits (it skips `_`)"):
            ok = False
    # any other text-to-number routine (a `u64` fast path, say) has an accepted language of its own — `u64::from_str` takes a leading
    # `+` — so it, too, may only see a string that passed the all-digits test
    for b, c in other:
        if (b, c) in lax:
            continue
        body = F.root_of(b) if b.kind == "closure" else F.body(b.path)      # a closure handed to a combinator is judged inside the function it was written in
        prep(body)
        gd = CallGuard(["*core::iter::traits::iterator::Iterator>::all", "core::iter::traits::iterator::Iterator::all"], ("true",), "all characters are ASCII digits", arg_pred=digits_pred)
        from rules import ForallGuard
        gd_loop = ForallGuard(None, ["*::is_ascii_digit"], ("true",), "every character passed is_ascii_digit", source_calls=["core::str::<impl str>::bytes", "core::str::<impl str>::chars"])
        if not R.gate("C16.parse.digits.other", body, CallSink(c["ncallee"]), [[gd, gd_loop]], descr="every other text-to-number call (%s) only on a string of ASCII digits" % c["ncallee"].split("::")[-1]):
            ok = False
    R.inst("C16.parse.decimal", "K1 forbidden-callee", "amount parts are parsed as decimal digits only (no ruint FromStr; from_str_radix(_, 10))", len(radix_sites) + len(lax) + len(other), ok)


def whole_input(R):
    """Nothing of the input string is ignored: the split into integer and fraction is `splitn(2, '.')` / `split_once('.')`
    (the fraction then holds the rest, further dots included, and fails the digits test), or — with an unbounded `split` —
    the result is produced only after the iterator was seen exhausted."""
    from flow import prep, callee_matches
    from rules import CallGuard, CallSink
    F = R.F
    body = R.body("C16.parse.whole", FROM_STR)
    if body is None:
        return
    prep(body)
    bounded, unbounded = [], []
    for b in body.blocks:
        t = b["term"]
        if t["k"] != "call" or b["cleanup"]:
            continue
        nc = t["ncallee"] or ""
        if nc in ("core::str::<impl str>::splitn", "core::str::<impl str>::rsplitn"):
            n = [a for a in t["args"][1:2] if a[0] == "c"]
            (bounded if n and n[0][1].startswith("2_") else unbounded).append(t)
        elif nc in ("core::str::<impl str>::split_once", "core::str::<impl str>::rsplit_once"):
            bounded.append(t)
        elif nc.startswith("core::str::<impl str>::") and nc.split("::")[-1] in ("split", "rsplit", "split_terminator", "rsplit_terminator", "split_inclusive", "split_whitespace", "matches"):
            unbounded.append(t)
        elif nc.startswith("core::str::<impl str>::") and nc.split("::")[-1] in ("char_indices", "chars", "bytes") and len(t.get("d") or []) == 1:
            # a character walk is a split only when it is consumed piecewise (next / take_while / position …); `bytes().all(..)` looks at
            # every character and is the digits test itself
            from flow import Taint, op_local
            its = Taint(body, through="all").closure({t["d"][0]})
            piecewise = [b2 for b2 in body.blocks if b2["term"]["k"] == "call" and not b2["cleanup"] and b2["term"]["args"]
                         and op_local(b2["term"]["args"][0]) in its
                         and (b2["term"].get("ngen") or b2["term"].get("ncallee") or "").split("::")[-1] in ("next", "take_while", "skip_while", "map_while", "position", "find", "nth", "skip", "take", "peekable")]
            if piecewise:
                # … and only when the pieces are used for more than a per-character test (`for b in s.bytes() { if !b.is_ascii_digit() … }` is
                # the digits test written as a loop)
                nxt = [b2["term"]["d"][0] for b2 in piecewise if (b2["term"].get("ngen") or "").endswith("Iterator::next") and len(b2["term"].get("d") or []) == 1]
                elems = Taint(body, through="all").closure(set(nxt)) if nxt else set()
                TESTS = ("is_ascii_digit", "is_ascii_alphanumeric", "is_ascii_alphabetic", "is_ascii_hexdigit", "is_digit", "is_numeric", "::eq", "::ne")
                used = [b2 for b2 in body.blocks if b2["term"]["k"] == "call" and not b2["cleanup"] and any(op_local(a) in elems for a in b2["term"]["args"])
                        and not (b2["term"].get("ngen") or b2["term"].get("ncallee") or "").endswith(TESTS) and b2 not in piecewise]
                if used or not nxt:
                    unbounded.append(t)
    ok = bool(bounded or unbounded)
    if not ok:
        R.viol("C16.parse.whole", "anchor-missing:split", "from_str: no split of the input into integer and fraction found", body, body.lines[0])
    if unbounded:
        gd = CallGuard(["*core::iter::traits::iterator::Iterator>::next", "core::iter::traits::iterator::Iterator::next"], ("None",), "the piece iterator is exhausted")
        n, acc, _ = gd.edges(body)
        sink = CallSink("*<impl ruint::Uint<BITS, LIMBS>>::checked_add")
        from cfg import cfg_of
        g = cfg_of(body)
        if not acc or (set(sink.blocks(body)) & g.reach((0,), cut=acc)):
            ok = False
            R.viol("C16.parse.whole", "input-tail-ignored:%s" % (unbounded[0]["ncallee"].split("::")[-1]),
                   "from_str splits the input with an unbounded `%s` and produces a value without checking that no further piece is left (\"1.2.3\" parses as 1.2)" % unbounded[0]["ncallee"].split("::")[-1],
                   body, unbounded[0]["l"])
    R.inst("C16.parse.whole", "K4 gate", "the whole input is accounted for (splitn(2,'.') / split_once, or exhausted-iterator check)", len(bounded) + len(unbounded), ok)
