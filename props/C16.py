"""C16 — token amounts: text round-trip and overflow-safe arithmetic (structural clauses)."""

META = {
    "explanation": "Decides: (1) the fractional placeholder of <AttoTokens as Display> is zero-padded to exactly "
                   "TOKEN_TO_RAW_POWER_OF_10_CONVERSION digits and TOKEN_TO_RAW_CONVERSION == 10^that, unit/remainder are "
                   "Div/Rem by the same constant; (2) from_str / checked_add / checked_sub contain no wrapping ruint operator "
                   "(`+`,`-`,`*` on Uint wrap silently) except the bounded remainder scaling; (3) checked_add/sub delegate to "
                   "Uint::checked_add/sub. Not decided: the exact accepted language and the value round trip.",
    "not_decided": ["value-level round trip Display→FromStr", "exact accepted language (ruint FromStr accepts radix prefixes)"],
    "trusted": ["ruint checked_* semantics", "core::fmt zero padding"],
}

AMT = "ant_evm::amount::"
DISPLAY = "<ant_evm::amount::AttoTokens as core::fmt::Display>::fmt"
FROM_STR = "<ant_evm::amount::AttoTokens as core::str::traits::FromStr>::from_str"
WRAPPING = ["*<impl core::ops::arith::Add for ruint::Uint<BITS, LIMBS>>::add",
            "*<impl core::ops::arith::Sub for ruint::Uint<BITS, LIMBS>>::sub",
            "*<impl core::ops::arith::Mul for ruint::Uint<BITS, LIMBS>>::mul",
            "*<impl core::ops::arith::AddAssign for ruint::Uint<BITS, LIMBS>>::add_assign",
            "*<impl core::ops::arith::SubAssign for ruint::Uint<BITS, LIMBS>>::sub_assign",
            "*<impl core::ops::arith::MulAssign for ruint::Uint<BITS, LIMBS>>::mul_assign",
            "*ruint::Uint::wrapping_add", "*ruint::Uint::wrapping_sub", "*ruint::Uint::wrapping_mul",
            "*ruint::Uint::overflowing_add", "*ruint::Uint::overflowing_sub", "*ruint::Uint::overflowing_mul",
            "*ruint::Uint::saturating_add", "*ruint::Uint::saturating_sub", "*ruint::Uint::saturating_mul"]


def run(R):
    F = R.F
    # (1) constants
    R.const_rel("C16.const", "TOKEN_TO_RAW_CONVERSION == 10^TOKEN_TO_RAW_POWER_OF_10_CONVERSION",
                lambda F: (R.const(AMT + "TOKEN_TO_RAW_CONVERSION") == 10 ** R.const(AMT + "TOKEN_TO_RAW_POWER_OF_10_CONVERSION"),
                           {"conversion": R.const(AMT + "TOKEN_TO_RAW_CONVERSION"), "power": R.const(AMT + "TOKEN_TO_RAW_POWER_OF_10_CONVERSION")}))
    disp = R.body("C16.width", DISPLAY)
    if disp is not None:
        power = int(F.consts.get(AMT + "TOKEN_TO_RAW_POWER_OF_10_CONVERSION", {"value": -1})["value"])
        fmts = R.fmt_in(disp)
        ok = False
        detail = []
        for f in fmts:
            phs = [p for p in f["pieces"] if "arg" in p]
            lits = [p["lit"] for p in f["pieces"] if "lit" in p]
            detail.append({"line": f["line"], "pieces": f["pieces"]})
            if len(phs) == 2 and lits == ["."]:
                frac = phs[1]
                w = frac["width"]
                width_ok = (w == power) or (isinstance(w, dict) and "TOKEN_TO_RAW_POWER_OF_10_CONVERSION" in f["args"][w["arg"]]["src"])
                unit_plain = phs[0]["width"] is None and phs[0]["precision"] is None
                if width_ok and frac["zero_pad"] and frac["precision"] is None and frac["trait"] == "Display" and unit_plain \
                        and f["args"][frac["arg"]]["name"] != f["args"][phs[0]["arg"]]["name"]:
                    ok = True
                else:
                    R.viol("C16.width", "fraction-width", "fractional part is formatted with width=%s zero_pad=%s but the amount has %d decimals"
                           % (w, frac["zero_pad"], power), disp, f["line"])
        if not fmts or (not ok and not any(v.rule == "C16.width" for v in R.violations)):
            R.viol("C16.width", "format-missing", "no `{unit}.{remainder:0N}` format found in Display::fmt", disp, disp.lines[0])
        R.inst("C16.width", "K11 format-spec", "Display prints <unit>.<remainder zero-padded to POWER digits>", len(fmts), ok, {"formats": detail, "power": power})
        # unit / remainder derive from Div and Rem by TOKEN_TO_RAW_CONVERSION
        calls = {c["ncallee"]: c for c in disp.calls}
        has_div = any(k.endswith("<impl core::ops::arith::Div for ruint::Uint<BITS, LIMBS>>::div") for k in calls)
        has_rem = any(k.endswith("<impl core::ops::arith::Rem for ruint::Uint<BITS, LIMBS>>::rem") for k in calls)
        convs = [c for c in disp.calls if c["ncallee"].endswith("ruint::Uint<BITS, LIMBS>>::from") and
                 any("TOKEN_TO_RAW_CONVERSION" in k[1] and "POWER" not in k[1] for k in c["consts"])]
        ok2 = has_div and has_rem and len(convs) >= 2
        if not ok2:
            R.viol("C16.divrem", "divrem", "Display does not compute unit/remainder as Div and Rem by TOKEN_TO_RAW_CONVERSION", disp, disp.lines[0])
        R.inst("C16.divrem", "K6 provenance", "unit = amount / CONVERSION, remainder = amount % CONVERSION", len(convs), ok2)

    # (2) no wrapping arithmetic
    R.no_calls("C16.nowrap", [FROM_STR, AMT + "AttoTokens::checked_add", AMT + "AttoTokens::checked_sub"], WRAPPING,
               "wrapping ruint arithmetic in parse/checked paths",
               suppress={(FROM_STR, "ruint::mul::<impl core::ops::arith::Mul for ruint::Uint<BITS, LIMBS>>::mul"):
                         "remainder scaling parsed(<=18 chars) * 10^(18-len): len<=18 enforced by the preceding checked_sub, "
                         "so the product is < 2^64 * 10^17 < 2^256"})
    # from_str combines units and remainder with checked ops
    R.must_call("C16.parse.checked_mul", FROM_STR, ["*ruint::Uint::checked_mul", "*<impl ruint::Uint<BITS, LIMBS>>::checked_mul"], "units scaled with checked_mul")
    R.must_call("C16.parse.checked_add", FROM_STR, ["*ruint::Uint::checked_add", "*<impl ruint::Uint<BITS, LIMBS>>::checked_add"], "units + remainder with checked_add")
    R.must_call("C16.parse.checked_sub", FROM_STR, ["core::num::<impl u64>::checked_sub"], "18 - len(fraction) with checked_sub (LossOfPrecision)")
    # (3) delegation
    R.must_call("C16.add", AMT + "AttoTokens::checked_add", ["*<impl ruint::Uint<BITS, LIMBS>>::checked_add"], "checked_add delegates to Uint::checked_add")
    R.must_call("C16.sub", AMT + "AttoTokens::checked_sub", ["*<impl ruint::Uint<BITS, LIMBS>>::checked_sub"], "checked_sub delegates to Uint::checked_sub")
