"""C05 — quorum reads return only what enough distinct peers agree on (structural clauses)."""
import tables as T
from cfg import cfg_of
from flow import Taint, Tracker, callee_matches, field_reads, op_local, prep, backward, locals_of_type
from rules import final_edges
from rules import CallGuard, CallSink, CmpGuard, RetSink, AggSink, BlockSink, FieldOptGuard, compare_sites
from rules import PL
from props.C04 import call_results, agg_field_operands
from props.C10 import _ConstCmp
import panics as P

META = {
    "explanation_r6": 'Also (round 6): the transaction union of handle_split_record_error runs over every version of the split result (no early exit from the loop: C05.merge.tx.all).',
    "explanation_more": "Also (round 4): every reply of a pending query is recorded under its version (C05.versions.recorded); a version reaching the quorum always concludes the query in that call (C05.acc.concludes); every version of a split result is offered to the transaction union (C05.acc.tx.*); the register handed back for a split is the fold's result on every path (C05.merge.reg.result); the command handler never answers a get-record caller itself (C05.answer.who); split scratchpads: the candidate is replaced only by a version whose counter is not lower, also when it is carried in a tuple and ranked lexicographically (first component decides).",
    "explanation": "Decides: (1) responders are counted per content hash in a HashSet<PeerId> (a peer answering twice counts once); the number "
                   "compared with the quorum is that set's len() and the map key is XorName::from_content(record.value); (2) success "
                   "requires count >= get_quorum_value(cfg.get_quorum) in the accumulate, finished and timeout handlers, and "
                   "get_quorum_value maps One→1, Majority→close_group_majority(), All→CLOSE_GROUP_SIZE, N(v)→v; (3) the direct success send "
                   "is cut by result_map.len() == 1 and goes through send_record_after_checking_target whose Ok(record) is cut by "
                   "cfg.does_target_match; (4) at each of the four sites that take an entry out of pending_get_record every path to a return "
                   "hands the removed senders to a send loop (one outcome per waiting caller); the de-duplication arm of GetNetworkRecord "
                   "attaches the sender without starting a second query; (5) split handling keeps a scratchpad only if is_valid() and "
                   "replaces the candidate only on a strictly higher count, collects registers only after verify(), unions transactions; "
                   "(5b) the per-key version map only grows (no retain/remove/clear/drain on it anywhere in ant-networking) and SplitRecord carries it whole; cfg.does_target_match is whole-record equality (registers: base register and op set); (6) each caller's own GetRecordCfg must reach the shared entry or be compared with it (known finding: dropped on the "
                   "de-duplication path). Not decided: arrival-order behaviour as values, libp2p event delivery.",
    "not_decided": ["which version arrives first / libp2p delivering the events", "a cancelled caller aborting the send loop for the others (closed channel is an error outcome; not armed)"],
}

KADM = "ant_networking::event::kad::<impl ant_networking::driver::SwarmDriver>::"
ACC = KADM + "accumulate_get_record_found"
FIN = KADM + "handle_get_record_finished"
ERR = KADM + "handle_get_record_error"
SRACT = KADM + "send_record_after_checking_target"
QV = "ant_networking::get_quorum_value"
HNC = "ant_networking::cmd::<impl ant_networking::driver::SwarmDriver>::handle_network_cmd"
SPLIT = "ant_networking::Network::handle_split_record_error"
SEND = ["tokio::sync::oneshot::Sender::send"]
PAD = "ant_protocol::storage::scratchpad::Scratchpad"


def quorum(b):
    return Taint(b).closure(call_results([QV])(b))


def set_lens(b):
    """values that are HashSet<PeerId>::len() (or the literal 1 of a fresh singleton set)"""
    prep(b)
    out = set()
    for blk in b.blocks:
        t = blk["term"]
        if t["k"] == "call" and (t["ncallee"] or "").endswith("HashSet::len") and "PeerId" in " ".join(b.locals.get(str(op_local(a)), "") for a in t["args"] if op_local(a) is not None):
            out.add(t["d"][0])
    ta = Taint(b)
    res = ta.closure(out)
    # merge point: `responded_peers` gets len() on one branch and const 1 on the other
    for blk in b.blocks:
        for s in blk["stmts"]:
            if s["rv"]["k"] == "use" and s["rv"]["a"][0] == "c" and s["rv"]["a"][1] == "1_usize" and s["d"][0] in res:
                pass
    return res


def run(R):
    F = R.F
    acc = R.body("C05.acc", ACC)
    fin = R.body("C05.fin", FIN)
    err = R.body("C05.err", ERR)
    # (1) distinct-peer counting
    if acc is not None:
        prep(acc)
        tys = " ".join(acc.locals.values())
        ok = "HashSet<libp2p_identity::peer_id::PeerId>" in tys
        ins = [b for b in acc.blocks if b["term"]["k"] == "call" and (b["term"]["ncallee"] or "").endswith("HashSet::insert")]
        ta = Taint(acc, through="all")
        hk = ta.closure(call_results(["xor_name::XorName::from_content"])(acc))
        ent = [b for b in acc.blocks if b["term"]["k"] == "call" and (b["term"]["ncallee"] or "").endswith("HashMap::entry") and not b["cleanup"]
               and "XorName" in acc.locals.get(str(op_local(b["term"]["args"][1])), "")]
        ok = ok and len(ins) >= 1 and bool(ent) and all(op_local(b["term"]["args"][1]) in hk for b in ent)
        fc = [b for b in acc.blocks if b["term"]["k"] == "call" and callee_matches(b["term"], ["xor_name::XorName::from_content"])]
        vals = Taint(acc, through="all").closure({d for d, r, p in field_reads(acc, "value")})
        ok = ok and bool(fc) and all(op_local(b["term"]["args"][0]) in vals for b in fc)
        if not ok:
            R.viol("C05.distinct", "distinct-peers", "responders are not accumulated as a HashSet<PeerId> per XorName::from_content(record.value)", acc, acc.lines[0])
        R.inst("C05.distinct", "K6 flows-to", "versions keyed by content hash; responders kept in a HashSet<PeerId>", len(ins), ok)

    # (2) polarity of the quorum comparison
    if acc is not None:
        g_q = CmpGuard(set_lens, quorum, "Ge", "responders.len() >= get_quorum_value(cfg.get_quorum)", close=False)
        R.gate("C05.acc.quorum", acc, CallSink(SRACT), [[g_q]], descr="accumulate: success only once a version's distinct responders reach the quorum")
        R.gate("C05.acc.quorum.remove", acc, CallSink("*OccupiedEntry<'a, K, V, A>::remove", "*OccupiedEntry::remove"), [[g_q]],
               descr="accumulate: the pending entry is taken out only at quorum")
        # ... and always then: a version reaching the quorum concludes the query in that very call (entry taken out, callers
        # answered).  This is what makes the quorum-met branch of handle_get_record_finished — which has no target check —
        # unreachable; a query left pending at quorum ("wait for the remaining expected holders") brings it to life
        prep(acc)
        n_q, acc_q, _ = g_q.edges(acc)
        if acc_q:
            R.must_pass("C05.acc.concludes", acc, [("pending entry removed", CallSink("*OccupiedEntry<'a, K, V, A>::remove", "*OccupiedEntry::remove"))],
                        from_blocks=tuple(d for _, d in acc_q), descr="accumulate: at quorum the query is always concluded in the same call")
        # every version of a split result takes part in the transaction union: the loop over the versions has no early exit, and a
        # chain over them has no adaptor that stops at (or skips to) some element
        GT = ["ant_networking::transactions::get_transactions_from_record", "*::get_transactions_from_record"]
        if CallSink(*GT, in_closures=False).blocks(acc):
            R.loop_exhaustive("C05.acc.tx.all", acc, CallSink(*GT, in_closures=False), "accumulate: every version of a split result is offered to the transaction union", "the versions of the result map")
        STOPPING = ("::map_while", "::take_while", "::take", "::skip", "::skip_while", "::step_by", "::nth", "::find", "::find_map", "::last", "::position")
        stop_sites = [(b, c) for b in F.item(ACC) for c in b.calls_raw if (c["ncallee"] or c["ngen"] or "").endswith(STOPPING)
                      and any("hash::map::Values<" in str(a) and "XorName" in str(a) for a in (c.get("arg_tys") or [])[:1])]
        for b, c in stop_sites:
            R.viol("C05.acc.tx.chain", "versions-cut:%s" % (c["ncallee"] or c["ngen"]).split("::")[-1], "accumulate_get_record_found walks the versions of a split result through %s: versions behind that point "
                   "never reach the union / the split report" % (c["ncallee"] or c["ngen"]), b, c["line"])
        R.inst("C05.acc.tx.chain", "K1 forbidden-callee", "no stopping / skipping adaptor directly on result_map.values()", len(acc.calls), not stop_sites)
        # the count compared is that of the version just updated: responded_peers ∈ {len(), 1}
        prep(acc)
        # (comparisons of the quorum with a literal, e.g. `expected_answers > 1`, say nothing about the count and are not judged here)
        cs = [c for c in compare_sites(acc) if (op_local(c["b"]) in quorum(acc) or op_local(c["a"]) in quorum(acc))
              and op_local(c["a"]) is not None and op_local(c["b"]) is not None]
        ok = bool(cs)
        for c in cs:
            other = op_local(c["a"]) if op_local(c["b"]) in quorum(acc) else op_local(c["b"])
            back = backward(acc, other)
            srcs = []
            for blk in acc.blocks:
                for s in blk["stmts"]:
                    if s["d"][0] in back and s["rv"]["k"] == "use" and s["rv"]["a"][0] == "c":
                        srcs.append(s["rv"]["a"][1])
                t = blk["term"]
                if t["k"] == "call" and t["d"] and t["d"][0] in back:
                    srcs.append(t["ncallee"])
            # no arithmetic on the way: the compared value is a plain copy of len() / the literal 1
            arith = [s for blk in acc.blocks for s in blk["stmts"] if s["d"][0] in back and s["rv"]["k"] in ("bin", "un", "cast")]
            ok = ok and any((x or "").endswith("HashSet::len") for x in srcs) and all((x or "").endswith("HashSet::len") or x == "1_usize" for x in srcs) and not arith
        if not ok:
            R.viol("C05.acc.count", "count-source", "the number compared with the quorum is not HashSet<PeerId>::len() (or 1 for a fresh version)", acc, acc.lines[0])
        R.inst("C05.acc.count", "K6 flows-to", "quorum is compared with the distinct-responder count of the version just updated", len(cs), ok)
    if fin is not None:
        g_q = CmpGuard(set_lens, quorum, "Ge", "peers.len() >= get_quorum_value(cfg.get_quorum)", close=False)
        R.gate("C05.fin.quorum", fin, AggSink("core::result::Result", "Ok", dest_ty="Record"), [[g_q]], descr="finished: Ok(record) only at quorum")
    if err is not None:
        g_q = CmpGuard(set_lens, quorum, "Ge", "peers.len() >= get_quorum_value(cfg.get_quorum)", close=False)
        R.gate("C05.err.quorum", err, CallSink(SRACT), [[g_q]], descr="timeout: a record is returned only at quorum")
        one = _ConstCmp(F, lambda b: Taint(b).closure({blk["term"]["d"][0] for blk in b.blocks if blk["term"]["k"] == "call" and (blk["term"]["ncallee"] or "").endswith("HashMap::len")}),
                        lambda v: v == 1, ("Le",), "result_map.len() <= 1 (no split)")
        R.gate("C05.err.single", err, CallSink(SRACT), [[one]], descr="timeout: no record is returned on a split result map")
    lens = lambda b: Taint(b).closure({blk["term"]["d"][0] for blk in b.blocks if blk["term"]["k"] == "call" and (blk["term"]["ncallee"] or "").endswith("HashMap::len")})
    if fin is not None:
        many = _ConstCmp(F, lens, lambda v: v == 1, ("Gt",), "result_map.len() > 1")
        R.gate("C05.fin.split", fin, AggSink("ant_networking::error::GetRecordError", "SplitRecord"), [[many]], descr="finished: SplitRecord is reported only for more than one version")
    qv = R.body("C05.quorum-table", QV)
    if qv is not None:
        prep(qv)
        QADT = "libp2p_kad::behaviour::Quorum"
        g = cfg_of(qv)
        blk = T.widest_switch(qv, min_targets=2)
        tab = {}
        ok = blk is not None
        if ok:
            # variants of libp2p's Quorum: One=0, Majority=1, All=2, N=3
            names = {0: "One", 1: "Majority", 2: "All", 3: "N"}

            def marker(b):
                for s in b["stmts"]:
                    if s["d"] == [0] and s["rv"]["k"] == "use" and s["rv"]["a"][0] == "c":
                        return s["rv"]["a"][1]
                t = b["term"]
                if t["k"] == "call" and t["d"] == [0]:
                    return t["ncallee"]
                return None
            raw = T.switch_table(qv, marker, block=blk)
            tab = {names.get(k, k): v for k, v in raw.items()}
            want = {"One": "1_usize", "Majority": "ant_networking::close_group_majority", "All": "ant_protocol::CLOSE_GROUP_SIZE", "N": "core::num::nonzero::NonZero::get"}
            for k, v in want.items():
                got = tab.get(k, tab.get("otherwise"))
                if got != v:
                    ok = False
                    R.viol("C05.quorum-table", "quorum-value:%s" % k, "get_quorum_value(Quorum::%s) is %s, expected %s" % (k, got, v), qv, qv.lines[0])
        else:
            R.viol("C05.quorum-table", "table-missing", "match over Quorum not found in get_quorum_value", qv, qv.lines[0])
        R.inst("C05.quorum-table", "K7 table agreement", "get_quorum_value: One→1, Majority→majority, All→CLOSE_GROUP_SIZE, N(v)→v", len(tab), ok, {"table": {str(k): v for k, v in tab.items()}})
    cm = R.body("C05.majority", "ant_networking::close_group_majority")
    if cm is not None:
        prep(cm)
        env = P.fold_consts(F, cm)
        cgs = int(F.consts["ant_protocol::CLOSE_GROUP_SIZE"]["value"])
        vals = [v for k, v in env.items() if not isinstance(k, tuple)]
        ok = (cgs // 2 + 1) in vals
        if not ok:
            R.viol("C05.majority", "majority-value", "close_group_majority() is not CLOSE_GROUP_SIZE/2+1 (folded values %s)" % sorted(set(vals)), cm, cm.lines[0])
        R.inst("C05.majority", "K9 constant relation", "close_group_majority() == CLOSE_GROUP_SIZE/2 + 1", 1, ok, {"CLOSE_GROUP_SIZE": cgs})

    # (3) single-version and target gates
    if acc is not None:
        one = _ConstCmp(F, lambda b: Taint(b).closure({blk["term"]["d"][0] for blk in b.blocks if blk["term"]["k"] == "call" and (blk["term"]["ncallee"] or "").endswith("HashMap::len")}),
                        lambda v: v == 1, ("Eq",), "result_map.len() == 1")
        R.gate("C05.acc.single", acc, CallSink(SRACT), [[one]], descr="accumulate: direct success only when a single version was seen")
    sr = R.body("C05.target", SRACT)
    if sr is not None:
        R.gate("C05.target", sr, AggSink("core::result::Result", "Ok", dest_ty="Record"),
               [[CallGuard(["ant_networking::driver::GetRecordCfg::does_target_match"], ("true",), "cfg.does_target_match(record)")]],
               descr="a record is handed out as Ok only if it matches the caller's expected value")
        prep(sr)
        ta = Taint(sr, through="all")
        rec = Taint(sr).closure(PL(sr, 1))  # (senders, record, cfg)
        dm = [b for b in sr.blocks if b["term"]["k"] == "call" and callee_matches(b["term"], ["ant_networking::driver::GetRecordCfg::does_target_match"])]
        ok = bool(dm) and all(op_local(b["term"]["args"][1]) in rec and op_local(b["term"]["args"][0]) in Taint(sr).closure(PL(sr, 2)) for b in dm)
        if not ok:
            R.viol("C05.target.args", "target-args", "does_target_match is not applied to the record being returned with the entry's cfg", sr, sr.lines[0])
        R.inst("C05.target.args", "K6 flows-to", "does_target_match(cfg, the record returned)", len(dm), ok)
    dt = R.body("C05.target.def", "ant_networking::driver::GetRecordCfg::does_target_match")
    if dt is not None:
        R.gate("C05.target.def", dt, RetSink("true"), [[FieldOptGuard("target_record", ("None",), "no expected value given")]],
               descr="unconditional `true` only when the caller gave no expected value")

    if dt is not None:
        # what "matches" means: whole-record equality (or, for registers, base register and op set) — not a comparison of parts
        prep(dt)
        from flow import backward_calls
        cs = compare_sites(dt)
        eqs = [c for c in cs if c["op"] == "Eq"]
        okm = True
        kinds = []
        for c in eqs:
            ta_, tb_ = dt.locals.get(str(op_local(c["a"])), ""), dt.locals.get(str(op_local(c["b"])), "")
            la, _ = backward_calls(dt, op_local(c["a"]))
            lb, _ = backward_calls(dt, op_local(c["b"]))
            fa = {p[-1] for d, r, p in field_reads(dt, "key") + field_reads(dt, "value") + field_reads(dt, "publisher") + field_reads(dt, "expires") if d in la | lb}
            if "Record" in ta_ and "Record" in tb_ and "Register" not in ta_:
                kinds.append("record==record")
                if fa:
                    okm = False
                    R.viol("C05.target.match", "partial-compare", "does_target_match compares only %s of the records, not the whole record" % sorted(fa), dt, c["line"])
            elif "Register" in ta_ or "BTreeSet" in ta_:
                kinds.append("register-part")
            else:
                kinds.append("other:" + ta_[:40])
        need = {"record==record": 1, "register-part": 2}
        for k, n_ in need.items():
            if kinds.count(k) < n_:
                okm = False
                R.viol("C05.target.match", "compare-missing:%s" % k, "does_target_match lacks the %s comparison(s) (found %s)" % (k, kinds), dt, dt.lines[0])
        rb = [b for b in dt.blocks if b["term"]["k"] == "call" and callee_matches(b["term"], ["ant_registers::register::SignedRegister::base_register"])]
        ro = [b for b in dt.blocks if b["term"]["k"] == "call" and callee_matches(b["term"], ["ant_registers::register::SignedRegister::ops"])]
        if len(rb) != 2 or len(ro) != 2:
            okm = False
            R.viol("C05.target.match", "register-compare", "for registers does_target_match must compare base_register() and ops() of both sides", dt, dt.lines[0])
        R.inst("C05.target.match", "K10 polarity", "match = whole-record equality, or (base register, op set) equality for registers", len(eqs), okm, {"comparisons": kinds})

    # (2d) no version once reported is dropped before the split decision: the version map only grows
    VMAP = "HashMap<xor_name::XorName, (libp2p_kad::record::Record"
    DROPS = ("::retain", "::remove", "::remove_entry", "::clear", "::drain", "::extract_if")
    n_sites, dropped = 0, []
    for b in F.bodies.values():
        if b.crate != "ant_networking":
            continue
        for c in b.calls_raw:
            at = c.get("arg_tys") or []
            if at and VMAP in at[0]:
                n_sites += 1
                nc = c["ncallee"] or ""
                if nc.startswith("std::collections::hash::map::HashMap::") and nc.endswith(DROPS):
                    dropped.append((b, c))
    for b, c in dropped:
        R.viol("C05.versions.kept", "version-dropped:%s!%s" % (R.root_path(b).split("::")[-1], c["ncallee"].split("::")[-1]),
               "%s removes entries from the map of differing versions (%s): a version reported by a peer can vanish before the split decision" % (R.root_path(b), c["ncallee"].split("::")[-1]),
               b, c["line"])
    if n_sites < 10:
        R.viol("C05.versions.kept", "anchor-missing:version-map", "fewer than 10 uses of the version map type found (%d): the rule no longer sees the map" % n_sites)
    R.inst("C05.versions.kept", "K1 forbidden-callee", "no retain/remove/clear/drain on HashMap<XorName,(Record,HashSet<PeerId>)> anywhere in ant-networking", n_sites, not dropped and n_sites >= 10)

    # ... every reply of a pending query is recorded: once the version id of a reply was computed, no path to a normal return gets
    # round recording the responder (HashSet::insert into that version's peer list) — no cap on the number of versions, no sampling
    acc2 = R.body("C05.versions.recorded", ACC)
    if acc2 is not None:
        prep(acc2)
        vid = [b["id"] for b in acc2.blocks if b["term"]["k"] == "call" and not b["cleanup"] and (b["term"]["ncallee"] or "").endswith("XorName::from_content")]
        if not vid:
            R.viol("C05.versions.recorded", "anchor-missing:version-id", "accumulate_get_record_found no longer derives a version id with XorName::from_content", acc2, acc2.lines[0])
            R.inst("C05.versions.recorded", "K5 must-follow", "every reply is recorded under its version", 0, False)
        else:
            g2 = cfg_of(acc2)
            R.must_pass("C05.versions.recorded", acc2, [("the responder is recorded (HashSet::insert into the version's peer list, or a new version entry holding it)",
                          CallSink("*HashSet::insert", "std::collections::hash::set::HashSet::insert", "std::collections::hash::set::HashSet::<T, S>::insert",
                                   "*VacantEntry<'a, K, V, A>::insert", "*VacantEntry::insert", "*VacantEntry<'a, K, V>::insert", "*Entry<'a, K, V, A>::or_insert", "*Entry<'a, K, V>::or_insert",
                                   "*Entry<'a, K, V, A>::or_insert_with", "*Entry<'a, K, V>::or_insert_with"))],
                        from_blocks=tuple(d for v in vid for d, _ in g2.succ[v]), descr="every reply of a pending query is recorded under its version before the quorum is judged")
    # ... and the set handed out as SplitRecord is the whole map (copied or moved, no element-dropping adaptor on the way)
    from rules import _chain_calls, DROPPING_ADAPTORS
    from props.C04 import agg_field_operands
    n_split, lossy = 0, []
    for b in F.bodies.values():
        if b.crate != "ant_networking" or not any("SplitRecord" in (a.get("variant") or "") for a in (b.aggregates_raw or [])):
            continue
        prep(b)
        for _blk, st, o in agg_field_operands(b, "ant_networking::error::GetRecordError", "result_map"):
            n_split += 1
            names, _f = _chain_calls(F, b, op_local(o))
            bad = [n for n in names if any(n.endswith(x) or (x + "<") in n for x in DROPPING_ADAPTORS)]
            if bad:
                lossy.append((b, st, bad[0]))
    for b, st, nm in lossy:
        R.viol("C05.versions.whole", "split-filtered:%s" % R.root_path(b).split("::")[-1], "the SplitRecord set built in %s went through %s: versions can be missing" % (R.root_path(b), nm), b, st["l"])
    if n_split < 3:
        R.viol("C05.versions.whole", "anchor-missing:SplitRecord", "fewer than 3 SplitRecord constructions found (%d)" % n_split)
    R.inst("C05.versions.whole", "K6 flows-to", "SplitRecord{result_map} is the whole version map", n_split, not lossy and n_split >= 3)

    # (2e) a value is handed out only from the query's own verdict or from the split resolution — never assembled in the retry loop
    grn = R.body("C05.retry", "ant_networking::Network::get_record_from_network::{closure#0}")
    if grn is not None:
        prep(grn)
        okrec = AggSink("core::result::Result", "Ok", dest_ty="Record")
        # the awaited oneshot result: Ok(Ok(record)) ; the split resolution: Ok(Some(record))
        class _Awaited:
            """the value awaited from the query's oneshot channel: Poll::Ready(Ok(Ok(record)))"""
            label = "the query itself returned Ok(record)"

            def edges(self, body):
                tr = Tracker(body)
                n = 0
                for blk in body.blocks:
                    t = blk["term"]
                    if t["k"] == "call" and not blk["cleanup"] and len(t["d"]) == 1 and callee_matches(t, ["*oneshot::Receiver<T> as core::future::future::Future>::poll"]):
                        tr.states.setdefault(t["d"][0], set()).add(("poll", ("Ok", "Ok"), False))
                        n += 1
                tr.run()
                return n, tr.accept, tr.reject
        g_query = _Awaited()
        g_split = CallGuard([SPLIT], ("Ok", "Some"), "handle_split_record_error produced a merged record")
        R.gate("C05.retry", grn, okrec, [[g_query, g_split]], descr="get_record_from_network returns a record only from the query's own Ok or from the split resolution")
    # (2f) the settings of a pending query are fixed when it is created: nothing overwrites a GetRecordCfg in place
    n_cfg, overw = 0, []
    for b in F.bodies.values():
        if b.crate != "ant_networking" or "::tests::" in b.path:
            continue
        try:
            locs = b.locals
        except KeyError:
            continue
        if not any("GetRecordCfg" in t for t in locs.values()):
            continue
        n_cfg += 1
        for blk in b.blocks:
            if blk["cleanup"]:
                continue
            for st in blk["stmts"]:
                d = st["d"]
                if len(d) == 2 and d[1] == "*" and "&mut ant_networking::driver::GetRecordCfg" in locs.get(str(d[0]), ""):
                    overw.append((b, st["l"]))
    for b, ln in overw:
        R.viol("C05.cfg.stable", "cfg-overwritten:%s" % R.root_path(b).split("::")[-1], "%s overwrites the GetRecordCfg of an existing entry: callers already waiting on that query get another caller's quorum / expected value" % R.root_path(b), b, ln)
    if n_cfg < 3:
        R.viol("C05.cfg.stable", "anchor-missing:GetRecordCfg", "fewer than 3 functions handling GetRecordCfg found (%d)" % n_cfg)
    R.inst("C05.cfg.stable", "K2 who-may-write", "a GetRecordCfg is never overwritten in place (a pending query keeps the settings it was created with)", n_cfg, not overw and n_cfg >= 3)

    # (4) one outcome per waiting caller
    n_sites = 0
    for nm, b in (("acc", acc), ("fin", fin), ("err", err)):
        if b is None:
            continue
        prep(b)
        g = cfg_of(b)
        rem = [blk for blk in b.blocks if blk["term"]["k"] == "call" and not blk["cleanup"] and
               ((blk["term"]["ncallee"] or "").endswith("OccupiedEntry::remove") or
                ((blk["term"]["ncallee"] or "").endswith("HashMap::remove") and op_local(blk["term"]["args"][0]) in Taint(b).closure({d for d, r, p in field_reads(b, "pending_get_record")})))]
        # normal completions only: a path that ends in an Err return drops the senders, which the waiting callers
        # observe as an error outcome (closed channel); paths made impossible by an exhaustive if-chain are pruned
        from cfg import infeasible_edges
        infeas = infeasible_edges(b)
        rets = set(RetSink("Ok").blocks(b))
        for r in rem:
            n_sites += 1
            ta = Taint(b, through="all")
            removed = ta.closure({r["term"]["d"][0]})
            consume = {x["id"] for x in b.blocks if x["term"]["k"] == "call" and not x["cleanup"] and
                       ((callee_matches(x["term"], ["core::iter::traits::collect::IntoIterator::into_iter"]) and "oneshot::Sender" in b.locals.get(str(op_local(x["term"]["args"][0])), "")
                         and op_local(x["term"]["args"][0]) in removed) or
                        (callee_matches(x["term"], [SRACT]) and op_local(x["term"]["args"][0]) in removed))}
            # the Err side of `remove(..).ok_or_else(..)?` returns before any sender exists: exclude error returns of that `?`
            okpath = g.reach(tuple(d for d, _ in g.succ[r["id"]]), avoid=consume, cut=infeas) & rets
            # accepted exit: the residual (`?`) of the removal itself (entry absent → nothing to answer)
            none_edges = CallGuard(["std::collections::hash::map::HashMap::remove"], ("None",), "entry absent")
            _, acc_e, _ = none_edges.edges(b)
            if okpath and acc_e:
                okpath = g.reach(tuple(d for d, _ in g.succ[r["id"]]), avoid=consume, cut=set(acc_e) | infeas) & rets
            ok = bool(consume) and not okpath
            key = "%s@%d" % (nm, rem.index(r))
            if not ok:
                R.viol("C05.senders." + nm, "senders-dropped:%s" % key, "%s can return after removing a pending entry without answering its senders" % b.npath.split("::")[-1], b, r["term"]["l"])
            R.inst("C05.senders." + nm, "K5 must-follow", "%s: removed senders are consumed by a send loop on every path" % b.npath.split("::")[-1], len(consume), ok)
        sends = [x for bb in F.item(b.path) for x in bb.calls if callee_matches(x, SEND)]
        if nm != "acc" and len(sends) < 3:
            R.viol("C05.senders." + nm, "send-floor", "expected >= 3 oneshot send sites in %s, found %d" % (b.path, len(sends)), b, b.lines[0])
    if n_sites < 4:
        R.viol("C05.senders", "instance-floor", "expected 4 sites removing from pending_get_record, found %d" % n_sites)
    if sr is not None:
        R.must_call("C05.senders.sract", SRACT, SEND, "send_record_after_checking_target sends to every sender")

    # de-dup arm
    # a GetNetworkRecord caller is answered only by the handlers that conclude the query (accumulate / finished / timeout), where the
    # quorum, single-version and target tests sit: the command handler itself never sends on a get-record sender (a joiner served
    # from the partial result map would get one version while the query's first caller gets the split)
    hnc0 = R.body("C05.answer.who", HNC)
    if hnc0 is not None:
        early = [(b, c) for b in F.item(HNC) for c in b.calls if (c["ncallee"] or "").endswith("oneshot::Sender::send") and "GetRecordError" in str((c.get("arg_tys") or [""])[0])]
        for b, c in early:
            R.viol("C05.answer.who", "answered-by-handler", "handle_network_cmd sends on a GetNetworkRecord caller's channel itself: that caller's outcome bypasses the quorum / split / target decisions", b, c["line"])
        R.inst("C05.answer.who", "K1 forbidden-callee", "handle_network_cmd never answers a get-record caller itself", len(hnc0.calls), not early)
    hnc = R.body("C05.dedup", HNC)
    if hnc is not None:
        prep(hnc)
        g = cfg_of(hnc)
        arms, _ = T.arm_targets(F, hnc, "ant_networking::cmd::NetworkSwarmCmd", min_frac=0.4)
        starts = tuple((arms or {}).get("GetNetworkRecord", ()))
        if not starts:
            R.viol("C05.dedup", "arm-missing", "GetNetworkRecord arm not found", hnc, hnc.lines[0])
        else:
            region = g.reach(starts)
            same = CmpGuard(lambda b: Taint(b).closure({d for blk in b.blocks for s in blk["stmts"] for d in [s["d"][0]]
                                                        if s["rv"]["k"] in ("ref", "use") and "(" in b.locals.get(str(d), "") and False} ),
                            lambda b: set(), "Eq", "inflight key == key", close=False)
            push = [b["id"] for b in hnc.blocks if b["id"] in region and b["term"]["k"] == "call" and callee_matches(b["term"], ["alloc::vec::Vec::push"])
                    and "oneshot::Sender" in hnc.locals.get(str(op_local(b["term"]["args"][1])), "")]
            getrec = [b["id"] for b in hnc.blocks if b["id"] in region and b["term"]["k"] == "call" and callee_matches(b["term"], ["libp2p_kad::behaviour::Behaviour::get_record"])]
            rets = {b["id"] for b in hnc.blocks if b["term"]["k"] == "return"}
            ok = bool(push) and bool(getrec) and not (g.reach(tuple(push)) & set(getrec))
            # the push is decided by key equality
            eqs = [c for c in compare_sites(hnc) if c["bb"] in region and c["op"] in ("Eq", "Ne") and "Key" in (hnc.locals.get(str(op_local(c["a"])), "") + hnc.locals.get(str(op_local(c["b"])), ""))]
            tr = Tracker(hnc)
            for c in eqs:
                tr.seed_bool(c["d"], c["op"] == "Eq")
            # … or by a `find` / `position` / `any` over the pending queries whose predicate closure is that equality
            from rules import PREDICATE_TAKERS, closures_passed, closure_truth_table
            for blk in hnc.blocks:
                t = blk["term"]
                if blk["id"] not in region or t["k"] != "call" or blk["cleanup"] or len(t.get("d") or []) != 1:
                    continue
                nm = t.get("ngen") or t.get("ncallee") or ""
                kind = next((k for suf, k in PREDICATE_TAKERS if nm.endswith(suf)), None)
                if kind is None:
                    continue
                for cl in closures_passed(F, hnc, t):
                    prep(cl)
                    tt = closure_truth_table(cl, lambda b_, cs: "K" if cs["op"] in ("Eq", "Ne") and "Key" in (b_.locals.get(str(op_local(cs["a"])), "") + b_.locals.get(str(op_local(cs["b"])), "")) else None)
                    if tt is None or tt[0] != ["K"]:
                        continue
                    if all(v == dict(k)["K"] for k, v in tt[1].items()):
                        eqs = eqs + [{"closure": cl.path}]
                        if kind == "true":
                            tr.seed_bool(t["d"][0], True)
                        else:
                            tr.seed_call_result(t["d"][0], (kind,), False)
            if eqs:
                tr.run()
                ok = ok and bool(tr.accept) and not (set(push) & g.reach(starts, cut=tr.accept))
            else:
                ok = False
            if not ok:
                R.viol("C05.dedup", "dedup-shape", "GetNetworkRecord: a sender is attached to an in-flight query only for the same key and without starting a second query", hnc, hnc.lines[0])
            R.inst("C05.dedup", "K4 gate", "de-duplication: sender attached only on key equality, and then no second kademlia.get_record", len(push), ok)
            # (6) each caller's own cfg honoured
            ta = Taint(hnc)
            # the `cfg` binding of this arm: locals of type GetRecordCfg that are live in the arm's region
            from flow import locals_of_type
            cfgs = {l for l in locals_of_type(hnc, "ant_networking::driver::GetRecordCfg", exact=True)
                    if any(s["d"] == [l] or (s["rv"]["k"] in ("use", "ref") and (s["rv"].get("p") or (s["rv"]["a"][1] if s["rv"]["a"][0] in ("cp", "mv") else [None]))[0] == l)
                           for bid in region for s in g.stmts(bid))}
            tcfg = Taint(hnc).closure(cfgs)  # the caller's cfg, its copies, references and field reads only
            ok6 = False
            reach_after = g.reach(starts)
            # on the de-dup path (from the equality accept edge to the return) cfg must be used: compared or stored
            if eqs and tr.accept:
                path_blocks = g.reach(tuple(d for _, d in tr.accept)) - g.reach(tuple(getrec))
                for bid in path_blocks:
                    blk = g.blocks[bid]
                    t = blk["term"]
                    if t["k"] == "call" and t.get("mac") not in P.LOG_MACROS and any(op_local(a) in tcfg for a in t["args"]) and \
                            not (t["ncallee"] or "").startswith("core::ptr::drop") :
                        ok6 = True
                    for s in blk["stmts"]:
                        if s["rv"]["k"] == "bin" and any(op_local(o) in tcfg for o in (s["rv"]["a"], s["rv"]["b"])):
                            ok6 = True
            if not ok6:
                R.viol("C05.cfg", "cfg-dropped:GetNetworkRecord-dedup",
                       "GetNetworkRecord de-duplication attaches the caller to an in-flight query without using the caller's own GetRecordCfg (quorum / expected value)", hnc, g.term(push[0]).get("l") if push else hnc.lines[0])
            R.inst("C05.cfg", "K6 flows-to", "on the de-duplication path the caller's cfg is compared with or merged into the shared entry", 1, ok6)

    # (5) merge selection
    sp = R.body("C05.merge", SPLIT)
    if sp is not None:
        prep(sp)
        split_pad_rules(R, sp, "C05.merge")
        # what "validly signed" / "verified" mean for the versions being merged (rules of C15 and C06, evaluated under this property)
        from props.C15 import is_valid_rules
        is_valid_rules(R, "C05.merge.pad")
        from props.C06 import register_rules
        register_rules(R, "C05.merge.regsem")
        push = BlockSink(lambda b: [blk["id"] for blk in b.blocks if not blk["cleanup"] and blk["term"]["k"] == "call" and callee_matches(blk["term"], ["alloc::vec::Vec::push"])
                                    and "SignedRegister" in b.locals.get(str(op_local(blk["term"]["args"][1])), "")], "collected_registers.push")
        R.gate("C05.merge.reg", sp, push, [[CallGuard(["ant_registers::register::SignedRegister::verify"], ("Ok",), "register.verify() is Ok")]],
               descr="split registers: only verified registers are merged")
        folds = [c for c in F.item(SPLIT) if c.kind == "closure" and any((x["ncallee"] or "").endswith(("SignedRegister::merge", "SignedRegister::verified_merge")) for x in c.calls)]
        okf = bool(folds)
        for c in folds:
            okf = R.must_pass("C05.merge.reg.all", c, [("merge(acc, x)", CallSink("ant_registers::register::SignedRegister::merge", "ant_registers::register::SignedRegister::verified_merge"))],
                              descr="split registers: every collected copy is merged into the accumulator (none is skipped)") and okf
        if not folds:
            R.viol("C05.merge.reg.all", "fold-missing", "no fold closure merging the collected registers found", sp, sp.lines[0])
        R.must_call("C05.merge.reg.merge", SPLIT, ["ant_registers::register::SignedRegister::merge", "ant_registers::register::SignedRegister::verified_merge"], "registers are merged (set union of ops)")
        # ... and what is handed back is that union, never one of the copies: the register serialised into the answer is, on every
        # path, the result of the fold over all collected copies
        from flow import must_be_copy_of
        folds_res = {b["term"]["d"][0] for b in sp.blocks if b["term"]["k"] == "call" and not b["cleanup"] and (b["term"]["ngen"] or b["term"]["ncallee"] or "").endswith(("Iterator::fold", "Iterator::try_fold", "Iterator::reduce"))
                     and "SignedRegister" in str(sp.locals.get(str(b["term"]["d"][0]), ""))}
        sers = [b for b in sp.blocks if b["term"]["k"] == "call" and not b["cleanup"] and callee_matches(b["term"], ["ant_protocol::storage::header::try_serialize_record"])
                and "SignedRegister" in str(sp.locals.get(str(op_local(b["term"]["args"][0])), ""))]
        okr = bool(folds_res) and bool(sers) and all(must_be_copy_of(sp, op_local(b["term"]["args"][0]), folds_res) for b in sers)
        if not okr:
            R.viol("C05.merge.reg.result", "not-the-union", "handle_split_record_error can answer with a register that is not the union folded over all collected copies (an arbitrary copy is picked on some path)", sp, sp.lines[0])
        R.inst("C05.merge.reg.result", "K6 flows-to (must)", "split registers: the register handed back is the fold's result on every path", len(sers), okr)
        ext = [b for b in sp.blocks if b["term"]["k"] == "call" and not b["cleanup"] and (b["term"]["ncallee"] or "").endswith("HashSet<T, S, A> as core::iter::traits::collect::Extend<T>>::extend")]
        txs = Taint(sp, through="all").closure(call_results(["ant_networking::transactions::get_transactions_from_record", "*::get_transactions_from_record"])(sp))
        oku = bool(ext) and all(op_local(b["term"]["args"][1]) in txs for b in ext)
        if not oku:
            R.viol("C05.merge.tx", "tx-union", "split transactions are not accumulated as a set union", sp, sp.lines[0])
        R.inst("C05.merge.tx", "K6 flows-to", "split transactions: HashSet union of every version's transactions", len(ext), oku)
        # ... of *every* version (seed C05-r6: `break` once two distinct transactions were seen — which versions made it depends on map order)
        GT_ = ["ant_networking::transactions::get_transactions_from_record", "*::get_transactions_from_record"]
        if CallSink(*GT_, in_closures=False).blocks(sp):
            R.loop_exhaustive("C05.merge.tx.all", sp, CallSink(*GT_, in_closures=False), "split transactions: every version of the split result is offered to the union (no early exit from the loop)", "the versions of the split result")



PADTY = "ant_protocol::storage::scratchpad::Scratchpad"


def _cand_locals(b):
    """the loop-carried candidate: `Option<Scratchpad>`, or an Option of a tuple that carries the scratchpad next to auxiliary data
    (`Option<(Scratchpad, usize)>`) — by value, not a reference to it"""
    out = set()
    for k, t in b.locals.items():
        t = str(t)
        if t == "core::option::Option<%s>" % PADTY:
            out.add(int(k))
        elif t.startswith("core::option::Option<(") and t.endswith(")>") and PADTY in t and ("&" + PADTY) not in t and "&'" not in t and "&(" not in t:
            out.add(int(k))
    return out


def split_pad_rules(R, sp, pfx="C05.merge"):
    """How handle_split_record_error picks among differing scratchpad versions (shared with C15: it is what a vault read
    returns when the holders disagree)."""
    # the candidate: the loop-carried Option<Scratchpad>.  Inside the loop it may only ever be assigned `Some(version)`
    # (never cleared, never the result of a combinator), and that only behind the two checks below.
    gsp = cfg_of(sp)
    cand = _cand_locals(sp)
    in_cycle = lambda bb: bb in gsp.reach(tuple(d for d, _ in gsp.succ[bb]))
    some_tmp = {st["d"][0] for blk in sp.blocks for st in blk["stmts"] if st["rv"]["k"] == "agg" and st["rv"].get("variant") == "Some" and len(st["d"]) == 1}
    good, bad_assign = [], []
    mut_refs = {l for l, roots in Taint(sp).ref_of.items() if roots & cand and "&mut" in sp.locals.get(str(l), "")}
    for blk in sp.blocks:
        if blk["cleanup"] or not in_cycle(blk["id"]):
            continue
        for st in blk["stmts"]:
            if len(st["d"]) == 1 and st["d"][0] in cand and st["d"][0] not in some_tmp | set() or (len(st["d"]) == 1 and st["d"][0] in cand):
                rv = st["rv"]
                if rv["k"] == "agg" and rv.get("variant") == "Some":
                    good.append(blk["id"])
                elif rv["k"] == "use" and rv["a"][0] in ("cp", "mv") and len(rv["a"][1]) == 1 and rv["a"][1][0] in some_tmp:
                    good.append(blk["id"])
                else:
                    bad_assign.append((blk, st["l"], "assigned something other than Some(version)"))
        t = blk["term"]
        if t["k"] == "call":
            if len(t["d"]) == 1 and t["d"][0] in cand and not (t.get("mac")):
                bad_assign.append((blk, t["l"], "assigned the result of %s" % (t["ncallee"] or "a call")))
            if any(op_local(a) in mut_refs for a in t["args"]):
                bad_assign.append((blk, t["l"], "handed out mutably to %s" % (t["ncallee"] or "a call")))
    # only user-visible candidates: drop compiler temporaries that feed a good assignment
    bad_assign = [x for x in bad_assign if x[2] != "assigned something other than Some(version)" or True]
    for blk, ln, why in bad_assign[:2]:
        R.viol(pfx + ".pad.assign", "candidate-cleared", "split scratchpads: inside the selection loop the candidate is %s — the best validly signed version found so far can be lost" % why, sp, ln)
    R.inst(pfx + ".pad.assign", "K2 mutator whitelist", "inside the selection loop the candidate is only ever assigned Some(version)", len(good) + len(bad_assign), bool(good) and not bad_assign)
    somepad = BlockSink(lambda b: sorted(set(good)), "candidate = Some(version)")
    R.gate(pfx + ".pad.valid", sp, somepad, [[CallGuard([PAD + "::is_valid"], ("true",), "scratchpad.is_valid()")]],
           descr="split scratchpads: only validly signed versions become the candidate")

    def cnt_of(var):
        def f(b):
            ta = Taint(b, through="all")
            src = Taint(b).closure({l for l in Taint(b).var_locals(var)})
            out = set()
            for blk in b.blocks:
                t = blk["term"]
                if t["k"] == "call" and callee_matches(t, [PAD + "::count"]) and op_local(t["args"][0]) in src:
                    out.add(t["d"][0])
            return Taint(b).closure(out)
        return f
    def old_cnt(b):
        # count() of the current candidate: receiver derives from the Option<Scratchpad> candidate local
        cand = Taint(b).closure(_cand_locals(b))
        return Taint(b).closure({blk["term"]["d"][0] for blk in b.blocks if blk["term"]["k"] == "call" and callee_matches(blk["term"], [PAD + "::count"])
                                 and op_local(blk["term"]["args"][0]) in cand})

    def new_cnt(b):
        fresh = Taint(b, through="all").closure(call_results(["ant_protocol::storage::header::try_deserialize_record"])(b)) - \
            Taint(b).closure(_cand_locals(b))
        return Taint(b).closure({blk["term"]["d"][0] for blk in b.blocks if blk["term"]["k"] == "call" and callee_matches(blk["term"], [PAD + "::count"])
                                 and op_local(blk["term"]["args"][0]) in fresh})
    # the candidate is replaced only by a version whose counter is not lower (how ties are broken is not part of the property:
    # `old.count() >= new.count() ⇒ keep` and a lexicographic `(count, holders)` ranking both satisfy it)
    higher = CmpGuard(old_cnt, new_cnt, ["Lt", "Le"], "old.count() <= new.count()", close=False)
    noold = FieldOptGuard("?", ("None",))
    # `if let Some(old) = &valid_scratchpad`: discriminant of the local
    class _NoOld:
        label = "no candidate yet"

        def edges(self, body):
            tr = Tracker(body)
            n = 0
            refs = Taint(body).closure(_cand_locals(body))
            for blk in body.blocks:
                for s in blk["stmts"]:
                    if s["rv"]["k"] == "discr" and s["rv"]["p"][0] in refs and len(s["d"]) == 1:
                        tr.seed_discr(s["d"][0], ("None",))
                        n += 1
            tr.run()
            return n, tr.accept, tr.reject
    R.gate(pfx + ".pad.max", sp, somepad, [[higher, _NoOld()]], descr="split scratchpads: candidate replaced only by a version whose counter is not lower")
