"""C13 — payment quotes are bound to their signer and to every signed field."""
from cfg import cfg_of
from flow import Taint, Tracker, backward, callee_matches, field_reads, op_local, prep
from rules import CallGuard, CallSink, CmpGuard, RetSink, compare_sites, P, PL
from rules import returned_directly
from props.C04 import call_results, agg_field_operands
from props.C03 import param_seeds

META = {
    "explanation_more": "Also (round 5): the per-peer reference quote is changed only by verify_peer_quote's gated insert; nothing prunes or replaces quotes_history elsewhere (C13.history.own).",
    "explanation_more2": 'Also (round 4): every quote of a QuoteVerification batch reaches verify_peer_quote — the batch loop has no early exit (C13.history.batch).',
    "explanation": "Decides: (1) PaymentQuote::bytes_for_sig passes content, timestamp, quoting_metrics, rewards_address — i.e. every field "
                   "except {pub_key, signature} — to the corresponding parameter of bytes_for_signing, and each parameter flows into the "
                   "returned buffer; hash() covers the signed bytes plus pub_key and signature; (2) check_is_signed_by_claimed_peer returns "
                   "true only behind PeerId::from(pub_key) == claimed_peer and pub_key.verify(bytes_for_sig(), signature); (3) "
                   "ProofOfPayment::verify_for returns true only for a payee and only if every quote verifies for its claimed payee; "
                   "quotes_by_peer filters on quote.peer_id() == peer; (4) has_expired is `age > QUOTE_EXPIRATION_SECS` with the future-dated "
                   "(Err) arm returning true; historical_verify picks (old,new) by is_newer_than (timestamp >) and returns false on "
                   "new.live_time < old.live_time and on new.received_payment_count < old.received_payment_count; (5) the node-side signer "
                   "signs exactly the four values it places in the quote, with its own key. Also: no element of peer_quotes gets round the signature check (a `continue` before it is reported); the per-peer reference quote kept by verify_peer_quote is replaced only by a quote that is not older, and an inconsistent quote is flagged and not stored. Not decided: ed25519 unforgeability.",
    "not_decided": ["signature scheme soundness (libp2p identity / ed25519)", "rmp_serde encoding of QuotingMetrics being injective"],
}

PQ = "ant_evm::data_payments::PaymentQuote"
POP = "ant_evm::data_payments::ProofOfPayment"
SIGNED = ["content", "timestamp", "quoting_metrics", "rewards_address"]
PARAMS = ["xorname", "timestamp", "quoting_metrics", "rewards_address"]


def run(R):
    F = R.F
    history_rules(R)
    precision_and_claim_rules(R)
    quote_binding_rules(R, "C13")
    # (3) proof
    verify_for_rules(R, "C13")
    # (4) expiry / history
    expiry_rules(R, "C13")
    nw = R.body("C13.newer", PQ + "::is_newer_than")
    if nw is not None:
        prep(nw)
        ok = False
        for c in compare_sites(nw):
            ra = {r for d, r, p in field_reads(nw, "timestamp") if d in backward(nw, op_local(c["a"]))} if op_local(c["a"]) is not None else set()
            rb = {r for d, r, p in field_reads(nw, "timestamp") if d in backward(nw, op_local(c["b"]))} if op_local(c["b"]) is not None else set()
            if (c["op"] == "Gt" and ra == {1} and rb == {2}) or (c["op"] == "Lt" and ra == {2} and rb == {1}):
                ok = returned_directly(nw, c)
        if not ok:
            R.viol("C13.newer", "newer-polarity", "is_newer_than is not `self.timestamp > other.timestamp`", nw, nw.lines[0])
        R.inst("C13.newer", "K10 polarity", "is_newer_than ⇔ self.timestamp > other.timestamp", 1, ok)
    hv = R.body("C13.history", PQ + "::historical_verify")
    if hv is not None:
        prep(hv)
        g = cfg_of(hv)
        tr = Tracker(hv)
        for l in call_results([PQ + "::is_newer_than"])(hv):
            tr.seed_bool(l, True)
        tr.run()
        sel_ok = False
        tup = None
        if len(tr.accept) == 1 and len(tr.reject) == 1:
            (_, ta_), = tr.accept
            (_, tb_), = tr.reject

            def tuple_roots(blk):
                for s in g.stmts(blk):
                    if s["rv"]["k"] == "agg" and s["rv"]["ak"] == "tuple" and len(s["rv"]["ops"]) == 2:
                        return s["d"][0], [backward(hv, op_local(o)) & {1, 2} for o in s["rv"]["ops"]]
                return None, None
            da, ra = tuple_roots(ta_)
            db, rb = tuple_roots(tb_)
            # self newer ⇒ (old,new) = (other,self)
            sel_ok = ra == [{2}, {1}] and rb == [{1}, {2}] and da == db
            tup = da
        if not sel_ok:
            R.viol("C13.history.select", "old-new-selection", "historical_verify does not order (old,new) by is_newer_than", hv, hv.lines[0])
        R.inst("C13.history.select", "K10 polarity", "(old,new) = (other,self) iff self is newer", 1, sel_ok)
        if tup is not None:
            old = {s["d"][0] for b in hv.blocks for s in b["stmts"] if s["rv"]["k"] == "use" and s["rv"]["a"][0] in ("cp", "mv") and s["rv"]["a"][1] == [tup, ".0"]}
            new = {s["d"][0] for b in hv.blocks for s in b["stmts"] if s["rv"]["k"] == "use" and s["rv"]["a"][0] in ("cp", "mv") and s["rv"]["a"][1] == [tup, ".1"]}
            for f in ("live_time", "received_payment_count"):
                # (the field may be read through a reference to a part of the quote handed to a helper: `&new.quoting_metrics`)
                gd = CmpGuard(lambda b, f=f: {d for d, r, p in field_reads(b, f, roots=Taint(b).closure(new))},
                              lambda b, f=f: {d for d, r, p in field_reads(b, f, roots=Taint(b).closure(old))}, "Ge",
                              "new.%s >= old.%s" % (f, f), close=False)
                R.gate_reject("C13.history." + f, hv, RetSink("true", computed=True), [gd], descr="a later quote reporting less %s is flagged (returns false)" % f)
                # ... and every `true` is answered only after that comparison held (no escape hatch placed before it)
                R.gate("C13.history." + f + ".always", hv, RetSink("true", computed=True), [[gd]], descr="historical_verify is true only after new.%s >= old.%s was established" % (f, f))

    # (5) signer
    cq = R.body("C13.signer", "ant_node::quote::<impl ant_node::node::Node>::create_quote_for_storecost")
    if cq is not None:
        prep(cq)
        sc = [b for b in cq.blocks if b["term"]["k"] == "call" and callee_matches(b["term"], [PQ + "::bytes_for_signing"])]
        ok = len(sc) == 1
        n = 0
        if ok:
            args = sc[0]["term"]["args"]
            for i, f in enumerate(SIGNED):
                ops = agg_field_operands(cq, PQ, f)
                if not ops:
                    ok = False
                    R.viol("C13.signer", "quote-field:%s" % f, "no PaymentQuote literal with field %s in create_quote_for_storecost" % f, cq, cq.lines[0])
                    continue
                for _, s, o in ops:
                    n += 1
                    common = (backward(cq, op_local(o)) & backward(cq, op_local(args[i]))) - {1}
                    if op_local(o) is None or op_local(args[i]) is None or not common:
                        ok = False
                        R.viol("C13.signer", "signed-differs:%s" % f, "the %s placed in the quote is not the value that was signed" % f, cq, s["l"])
            ta = Taint(cq, through="all")
            signed = ta.closure(call_results([PQ + "::bytes_for_signing"])(cq))
            sg = [b for b in cq.blocks if b["term"]["k"] == "call" and callee_matches(b["term"], ["ant_networking::Network::sign"])]
            if not sg or op_local(sg[0]["term"]["args"][1]) not in signed:
                ok = False
                R.viol("C13.signer", "sign-input", "network.sign is not applied to the bytes_for_signing output", cq, cq.lines[0])
            else:
                sigs = ta.closure({sg[0]["term"]["d"][0]})
                for _, s, o in agg_field_operands(cq, PQ, "signature"):
                    if op_local(o) not in sigs:
                        ok = False
                        R.viol("C13.signer", "signature-source", "quote.signature is not the result of network.sign", cq, s["l"])
            pk = ta.closure(call_results(["ant_networking::Network::get_pub_key"])(cq))
            for _, s, o in agg_field_operands(cq, PQ, "pub_key"):
                if op_local(o) not in pk:
                    ok = False
                    R.viol("C13.signer", "pubkey-source", "quote.pub_key is not network.get_pub_key()", cq, s["l"])
        else:
            R.viol("C13.signer", "signing-call", "create_quote_for_storecost must call bytes_for_signing once", cq, cq.lines[0])
        R.inst("C13.signer", "K6 flows-to", "signer signs exactly the four values it places in the quote, with its own key", n, ok)


def verify_for_rules(R, pfx):
    """ProofOfPayment::verify_for — shared by C03 and C13"""
    F = R.F
    vf = R.body(pfx + ".verify_for", POP + "::verify_for")
    if vf is None:
        return
    prep(vf)
    decode = CallGuard(["ant_evm::data_payments::EncodedPeerId::to_peer_id"], ("Ok",), "encoded peer id decodes")
    loop_form = any(b["term"]["k"] == "call" and callee_matches(b["term"], ["ant_evm::data_payments::EncodedPeerId::to_peer_id"]) for b in vf.blocks)
    R.forall_over_field(pfx + ".verify_for", POP + "::verify_for", "peer_quotes", [PQ + "::check_is_signed_by_claimed_peer"],
                        "verify_for is true only if every quote verifies for its claimed payee", extra_ok_checks=[decode] if loop_form else [])
    # payee membership
    member = CallGuard(["*::contains"], ("true",), "payees().contains(peer)")
    n_, acc, rej = member.edges(vf)
    if not rej:
        # `payees().contains(peer)` written out: `…iter()….any(|payee| payee == peer_id)`
        from rules import closures_passed, _captured_seeds
        peer = Taint(vf, through="all").closure(PL(vf, 1))
        tr_ = Tracker(vf)
        for blk in vf.blocks:
            t = blk["term"]
            if t["k"] == "call" and not blk["cleanup"] and (t.get("ngen") or "").endswith("iterator::Iterator::any") and len(t.get("d") or []) == 1:
                for cl in closures_passed(F, vf, t):
                    prep(cl)
                    cap = Taint(cl, through="all").closure(_captured_seeds(vf, cl, peer))
                    if any(cs["op"] == "Eq" and ((op_local(cs["a"]) in cap) != (op_local(cs["b"]) in cap)) and returned_directly(cl, cs) for cs in compare_sites(cl)):
                        tr_.seed_bool(t["d"][0], True)
        tr_.run()
        acc, rej = tr_.accept, tr_.reject
    g = cfg_of(vf)
    trues = set(RetSink("true").blocks(vf)) | {b["id"] for b in vf.blocks if b["term"]["k"] == "call" and (b["term"]["ngen"] or "").endswith("iterator::Iterator::all")}
    ok = bool(rej) and all(not (g.reach((d,)) & trues) for _, d in rej)
    if not ok:
        R.viol(pfx + ".verify_for.member", "payee-membership", "verify_for can return true for a node that is not among the payees", vf, vf.lines[0])
    R.inst(pfx + ".verify_for.member", "K4r reject-edge", "verify_for false unless payees().contains(peer)", len(rej), ok)
    # the identity each quote is checked against is the one the proof claims for it
    okc = False
    for b in F.item(POP + "::verify_for"):
        prep(b)
        cs = [x for x in b.blocks if x["term"]["k"] == "call" and callee_matches(x["term"], [PQ + "::check_is_signed_by_claimed_peer"])]
        if not cs:
            continue
        ta = Taint(b, through="all")
        claimed = ta.closure(call_results(["ant_evm::data_payments::EncodedPeerId::to_peer_id"])(b))
        if all(op_local(x["term"]["args"][1]) in claimed for x in cs):
            okc = True
        elif b.kind == "closure":
            # all-form: the claimed id is the closure's element, which must come from to_peer_id in the iterated helper
            names, _ = __import__("rules")._chain_calls(F, vf, op_local([x for x in vf.blocks if x["term"]["k"] == "call" and (x["term"]["ngen"] or "").endswith("iterator::Iterator::all")][0]["term"]["args"][0]))
            okc = any(n.endswith("EncodedPeerId::to_peer_id") for n in names) or any(
                c["ncallee"] == "ant_evm::data_payments::EncodedPeerId::to_peer_id" for hb in F.bodies.values() if hb.crate == "ant_evm" and hb.kind == "closure" for c in hb.calls_raw
                if F.root_of(hb).npath in names)
    if not okc:
        R.viol(pfx + ".verify_for.claimed", "claimed-peer", "verify_for does not check each quote against the peer id the proof claims for it", vf, vf.lines[0])
    R.inst(pfx + ".verify_for.claimed", "K6 flows-to", "quote checked against its claimed (encoded) peer id", 1, okc)


VPQ = "ant_networking::cmd::<impl ant_networking::driver::SwarmDriver>::verify_peer_quote"


def history_rules(R):
    """The reference quote kept per peer is what later quotes are judged against: an inconsistent quote is flagged, and the kept
    quote is replaced only by a quote that is not older (so the highest figures seen so far stay the reference)."""
    F = R.F
    vp = R.body("C13.history.keep", VPQ)
    if vp is None:
        return
    prep(vp)
    g = cfg_of(vp)
    GET = ["alloc::collections::btree::map::BTreeMap::get", "std::collections::hash::map::HashMap::get"]
    INS = CallSink("alloc::collections::btree::map::BTreeMap::insert", "std::collections::hash::map::HashMap::insert")
    hist = Taint(vp, through="all").closure(call_results(GET)(vp))
    newq = Taint(vp).closure(PL(vp, 2))

    def hist_is_newer(body, blk, t):
        # history_quote.is_newer_than(&quote): receiver from the history map, argument the incoming quote
        return op_local(t["args"][0]) in hist and op_local(t["args"][1]) in newq
    keep = CallGuard([PQ + "::is_newer_than"], ("false",), "the kept quote is not newer than the incoming one", arg_pred=hist_is_newer)
    none = CallGuard(GET, ("None",), "no quote kept for this peer yet")
    R.gate("C13.history.keep", vp, INS, [[keep, none]], descr="the reference quote of a peer is replaced only by a quote that is not older")
    # … and the reference is changed nowhere else: a history that is pruned (by age, by size, "expired quotes cannot be paid with any
    # more") forgets the figures the next quote of that peer has to be judged against
    sites = R.who_may_write("C13.history.own", "ant_networking::driver::SwarmDriver", "quotes_history", [VPQ, "ant_networking::driver::NetworkBuilder::build"], floor=1,
                            descr="the per-peer reference quote is changed only by verify_peer_quote (its insert is gated by C13.history.keep)")
    from props.C08 import on_field
    REMOVERS = ["alloc::collections::btree::map::BTreeMap::" + x for x in ("remove", "remove_entry", "retain", "clear", "pop_first", "pop_last", "split_off", "extract_if", "first_entry", "last_entry", "entry", "get_mut", "values_mut", "iter_mut", "append")] + \
               ["std::collections::hash::map::HashMap::" + x for x in ("remove", "remove_entry", "retain", "clear", "drain", "entry", "get_mut", "values_mut", "iter_mut")]
    odd = on_field(REMOVERS, "quotes_history")(vp)
    if odd:
        t_ = g.term(odd[0])
        R.viol("C13.history.own", "history-mutated:%s" % (t_.get("ncallee") or "?").split("::")[-1], "verify_peer_quote changes the quote history through %s: only the gated insert decides what the reference is" % t_.get("ncallee"), vp, t_.get("l"))
    R.inst("C13.history.own", "K2 mutator whitelist", "inside verify_peer_quote the history is only read (get) and written by insert", len(INS.blocks(vp)), not odd)
    # inconsistent ⇒ flagged, and not stored
    hv = CallGuard([PQ + "::historical_verify"], ("true",), "history_quote.historical_verify(&quote)")
    n, acc, rej = hv.edges(vp)
    flag = set(CallSink("ant_networking::cmd::<impl ant_networking::driver::SwarmDriver>::record_node_issue").blocks(vp))
    rets = {b["id"] for b in vp.blocks if b["term"]["k"] == "return"}
    okf = bool(rej) and bool(flag) and all(not (g.reach((d,), avoid=flag) & rets) for _, d in rej) and all(not (g.reach((d,)) & set(INS.blocks(vp))) for _, d in rej)
    hvs = [b for b in vp.blocks if b["term"]["k"] == "call" and callee_matches(b["term"], [PQ + "::historical_verify"])]
    okf = okf and bool(hvs) and all(op_local(b["term"]["args"][0]) in hist and op_local(b["term"]["args"][1]) in newq for b in hvs)
    if not okf:
        R.viol("C13.history.flag", "inconsistent-not-flagged", "a quote failing historical_verify against the kept quote is not flagged (record_node_issue) or is stored anyway", vp, vp.lines[0])
    R.inst("C13.history.flag", "K5 must-follow", "kept.historical_verify(incoming) false ⇒ BadQuoting recorded, incoming not stored", len(hvs), okf)
    # every quote of a QuoteVerification batch is judged against its peer's history (an already-bad peer is skipped, the rest of the
    # batch is not)
    hlc = R.body("C13.history.batch", "ant_networking::cmd::<impl ant_networking::driver::SwarmDriver>::handle_local_cmd")
    if hlc is not None:
        R.loop_exhaustive("C13.history.batch", hlc, CallSink(VPQ), "every quote of a QuoteVerification batch reaches verify_peer_quote (no early exit from the batch loop)", "the batch's quotes")


def expiry_rules(R, pfx="C13"):
    """What "expired" means (shared with C03, whose payment check relies on it): older than the window, or future-dated; a proof is
    expired if any of its quotes is."""
    F = R.F
    he = R.body(pfx + ".expiry", PQ + "::has_expired")
    if he is not None:
        prep(he)
        from rules import _chain_calls
        DEFAULTING = ("::unwrap_or_default", "::unwrap_or", "::unwrap_or_else", "Result::ok", "::map_or", "::map_or_else", "::is_ok_and", "::is_some_and")
        ok = False
        chain = []
        for c in compare_sites(he):
            for side, other, want in (("a", "b", "Gt"), ("b", "a", "Lt")):
                k = c[other]
                if not (k[0] == "c" and "QUOTE_EXPIRATION_SECS" in k[1]) or op_local(c[side]) is None:
                    continue
                names, _ = _chain_calls(F, he, op_local(c[side]))
                chain = names
                if any(n.endswith("SystemTime::duration_since") for n in names) and c["op"] == want and returned_directly(he, c):
                    ok = True
        if not ok:
            R.viol(pfx + ".expiry", "expiry-polarity", "has_expired is not `age_secs(now - timestamp) > QUOTE_EXPIRATION_SECS`", he, he.lines[0])
        R.inst(pfx + ".expiry", "K10 polarity", "expired ⇔ age > QUOTE_EXPIRATION_SECS (age may come through a helper)", 1, ok, {"chain": chain[:8]})
        oknow = any(n.endswith("SystemTime::now") for n in chain)
        if not oknow:
            R.viol(pfx + ".expiry.now", "age-from-now", "the quote's age is not measured from SystemTime::now()", he, he.lines[0])
        R.inst(pfx + ".expiry.now", "K6 flows-to", "age = now.duration_since(timestamp)", 1, oknow)
        # future-dated ⇒ expired: the failure of duration_since must surface as `true`, not be defaulted away
        erased = [n for n in chain if any(n.endswith(d) for d in DEFAULTING)]
        direct = any(b["term"]["k"] == "call" and callee_matches(b["term"], ["std::time::SystemTime::duration_since"]) for b in he.blocks)
        if erased:
            R.viol(pfx + ".expiry.future", "future-defaulted:%s" % erased[0].split("::")[-1],
                   "a quote dated in the future is not reported expired: the error of duration_since is replaced by a default (%s) before the comparison" % erased[0], he, he.lines[0])
            R.inst(pfx + ".expiry.future", "K4 gate", "future-dated quote is reported expired", 0, False)
        elif direct:
            # stated on the `false` side, so that it reads the same whether `true` is an explicit `return true` in the Err arm or the
            # default of `map_or(true, ..)`: has_expired answers false only behind duration_since == Ok
            R.gate(pfx + ".expiry.future", he, RetSink("false", computed=True), [[CallGuard(["std::time::SystemTime::duration_since"], ("Ok",), "duration_since(timestamp) is Ok (not future-dated)")]],
                   descr="future-dated quote is reported expired (not-expired only behind duration_since == Ok)")
        else:
            # a helper propagates the failure as Err/None: has_expired must turn that into `true`
            helpers = [n for n in chain if n in F.by_npath and n.startswith("ant_evm::")]
            gds = [CallGuard([h], (st,), "%s is %s" % (h.split("::")[-1], st)) for h in helpers for st in ("Err", "None")]
            R.gate(pfx + ".expiry.future", he, RetSink("true"), [gds] if gds else [[CallGuard(["<none>"], ("Err",), "age helper fails")]],
                   descr="future-dated quote is reported expired (through the age helper's failure)")
    pe = R.body(pfx + ".expiry.proof", POP + "::has_expired")
    if pe is not None:
        # a proof is unexpired only if every one of its quotes is: `.any(|q| q.has_expired())` or the loop that returns true on the first
        from rules import ForallGuard
        R.gate(pfx + ".expiry.proof", pe, RetSink("false", computed=True),
               [[ForallGuard("peer_quotes", [PQ + "::has_expired"], ("false",), "every quote of the proof has has_expired() false")]],
               descr="ProofOfPayment::has_expired is false only if no quote has expired")


def quote_binding_rules(R, pfx="C13"):
    """A quote is bound to its signer and its signed fields (shared with C03, whose payment check relies on it): field coverage
    of the signature, the verifier, and quotes_by_peer selecting exactly the quotes whose key belongs to the asked peer."""
    F = R.F
    # (1) signed field set
    bfs = R.body(pfx + ".fields", PQ + "::bytes_for_sig")
    adt = F.adts.get(PQ)
    if adt is None:
        R.viol(pfx + ".fields", "anchor-missing:PaymentQuote", "struct PaymentQuote not found")
    if bfs is not None and adt is not None:
        prep(bfs)
        all_fields = [f["name"] for f in adt["variants"][0]["fields"]]
        calls = [b for b in bfs.blocks if b["term"]["k"] == "call" and callee_matches(b["term"], [PQ + "::bytes_for_signing"])]
        ok = len(calls) == 1
        covered = []
        if ok:
            t = calls[0]["term"]
            for i, f in enumerate(SIGNED):
                reads = {d for d, root, p in field_reads(bfs, f, roots={1})}
                a = op_local(t["args"][i]) if i < len(t["args"]) else None
                if a is None or not (backward(bfs, a) & reads):
                    ok = False
                    R.viol(pfx + ".fields", "unsigned-arg:%s" % f, "bytes_for_sig does not pass self.%s as argument %d of bytes_for_signing" % (f, i), bfs, t["l"])
                else:
                    covered.append(f)
        else:
            R.viol(pfx + ".fields", "signing-call", "bytes_for_sig must call bytes_for_signing exactly once", bfs, bfs.lines[0])
        unsigned = sorted(set(all_fields) - set(covered))
        if unsigned != ["pub_key", "signature"]:
            ok = False
            R.viol(pfx + ".fields", "unsigned-fields:%s" % ",".join(unsigned), "PaymentQuote fields not covered by the signature are %s (expected only pub_key, signature)" % unsigned, bfs, bfs.lines[0])
        R.inst(pfx + ".fields", "K6 field coverage", "every PaymentQuote field except pub_key/signature is signed", len(all_fields), ok, {"fields": all_fields, "signed": covered})
    bsg = R.body(pfx + ".signing", PQ + "::bytes_for_signing")
    if bsg is not None:
        prep(bsg)
        ta = Taint(bsg, through="all")
        ok = True
        for i, p in enumerate(PARAMS):
            seeds = PL(bsg, i)
            if not seeds or 0 not in ta.closure(seeds):
                ok = False
                R.viol(pfx + ".signing", "param-dropped:%s" % p, "parameter `%s` of bytes_for_signing does not flow into the returned bytes" % p, bsg, bsg.lines[0])
            else:
                from flow import whole_value_reaches
                whole, part = whole_value_reaches(bsg, seeds)
                if not whole:
                    ok = False
                    R.viol(pfx + ".signing", "param-partial:%s" % p, "bytes_for_signing covers only part of `%s` (%s), not the whole value" % (p, ", ".join("." + x for x in sorted(part)) or "a projection"), bsg, bsg.lines[0])
        R.inst(pfx + ".signing", "K6 flows-to", "all four parameters of bytes_for_signing reach the returned buffer", len(PARAMS), ok)
    h = R.body(pfx + ".hash", PQ + "::hash")
    if h is not None:
        prep(h)
        ta = Taint(h, through="all")
        hc = [b for b in h.blocks if b["term"]["k"] == "call" and callee_matches(b["term"], ["evmlib::cryptography::hash"])]
        ok = bool(hc)
        if ok:
            arg = op_local(hc[0]["term"]["args"][0])
            for what, seeds in (("bytes_for_sig()", call_results([PQ + "::bytes_for_sig"])(h)),
                                ("pub_key", {d for d, _, _ in field_reads(h, "pub_key")}),
                                ("signature", {d for d, _, _ in field_reads(h, "signature")})):
                if arg not in ta.closure(seeds) or not seeds:
                    ok = False
                    R.viol(pfx + ".hash", "hash-misses:%s" % what, "PaymentQuote::hash does not cover %s" % what, h, h.lines[0])
        else:
            R.viol(pfx + ".hash", "hash-call", "PaymentQuote::hash does not call evmlib::cryptography::hash", h, h.lines[0])
        R.inst(pfx + ".hash", "K6 flows-to", "hash() covers signed bytes, pub_key and signature", 3, ok)

    # (2) verifier
    chk = R.body(pfx + ".verify", PQ + "::check_is_signed_by_claimed_peer")
    if chk is not None:
        prep(chk)

        def src_own(b):
            return Taint(b).closure(call_results(["*<libp2p_identity::peer_id::PeerId as core::convert::From<libp2p_identity::keypair::PublicKey>>::from",
                                                  "*PeerId as core::convert::From<libp2p_identity::keypair::PublicKey>>::from"])(b))
        R.gate(pfx + ".verify", chk, RetSink("true", computed=True),
               [[CallGuard(["libp2p_identity::keypair::PublicKey::try_decode_protobuf"], ("Ok",), "pub_key decodes")],
                [CmpGuard(src_own, P(1, close=True), "Eq", "PeerId::from(pub_key) == claimed_peer", close=False)],
                [CallGuard(["libp2p_identity::keypair::PublicKey::verify"], ("true",), "pub_key.verify(bytes, signature)")]],
               descr="check_is_signed_by_claimed_peer is true only for matching identity and valid signature")
        ta = Taint(chk, through="all")
        ver = [b for b in chk.blocks if b["term"]["k"] == "call" and callee_matches(b["term"], ["libp2p_identity::keypair::PublicKey::verify"])]
        ok = bool(ver)
        if ok:
            args = ver[0]["term"]["args"]
            msg = ta.closure(call_results([PQ + "::bytes_for_sig"])(chk))
            sig = ta.closure({d for d, _, _ in field_reads(chk, "signature", roots={1})})
            key = ta.closure(call_results(["libp2p_identity::keypair::PublicKey::try_decode_protobuf"])(chk))
            ok = op_local(args[0]) in key and op_local(args[1]) in msg and op_local(args[2]) in sig
        if not ok:
            R.viol(pfx + ".verify.args", "verify-args", "the signature check does not verify self.signature over bytes_for_sig() with the quote's own pub_key", chk, chk.lines[0])
        R.inst(pfx + ".verify.args", "K6 flows-to", "verify(key = decoded pub_key, msg = bytes_for_sig(), sig = self.signature)", len(ver), ok)

    qbp = [b for b in F.item(POP + "::quotes_by_peer") if b.kind == "closure"]
    okq = False
    for c in qbp:
        prep(c)
        eq = [x for x in compare_sites(c) if x["op"] in ("Eq", "Ne")]
        if eq and any(x["ncallee"] == PQ + "::peer_id" for x in c.calls):
            # `filter_map` closure (keeps by returning Some) or `filter` closure (keeps by returning true)
            keep = RetSink("true", computed=True) if str(c.locals.get("0", "")) == "bool" else RetSink("Some")
            okq = R.gate(pfx + ".quotes_by_peer", c, keep,
                         [[CmpGuard(lambda b: {1}, call_results([PQ + "::peer_id"]), "Eq", "quote.peer_id() == peer", through="all")]],
                         descr="quotes_by_peer keeps a quote only if its pub_key's peer id equals the asked peer")
    if not qbp or not any(i["rule"] == pfx + ".quotes_by_peer" for i in R.instances):
        R.viol(pfx + ".quotes_by_peer", "filter-missing", "quotes_by_peer has no closure comparing quote.peer_id() with the peer")
        R.inst(pfx + ".quotes_by_peer", "K4 gate", "quotes_by_peer filter", 0, False)



def precision_and_claim_rules(R):
    """(a) the timestamp enters the signed bytes as integer seconds (Duration::as_secs → to_le_bytes): no float or sub-second step on
    the way, so changing the timestamp by a second changes what is signed; (b) quotes_verification checks each received quote against
    the peer id it was *claimed* for (the tuple's id), not against the id derived from the quote's own key."""
    from rules import _chain_calls, PL, closures_passed
    F = R.F
    bsg = R.body("C13.signing.precision", PQ + "::bytes_for_signing")
    if bsg is not None:
        prep(bsg)
        from flow import backward_calls
        ts = PL(bsg, 1)
        names = set()
        # forward: callees that receive (a value derived from) the timestamp
        ta = Taint(bsg, through="all")
        tsv = ta.closure(ts)
        for blk in bsg.blocks:
            t = blk["term"]
            if t["k"] == "call" and not blk["cleanup"] and any(op_local(a) in tsv for a in t["args"]):
                names.add(t["ncallee"] or "")
        lossy = sorted(n for n in names if any(x in n for x in ("as_secs_f32", "as_secs_f64", "f32", "f64", "as_millis", "as_micros", "subsec", "as_nanos")))
        ok = any(n.endswith("Duration::as_secs") for n in names) and not lossy
        if not ok:
            R.viol("C13.signing.precision", "timestamp-lossy", "bytes_for_signing does not encode the timestamp as exact integer seconds (%s)" % (lossy[:1] or "Duration::as_secs missing"), bsg, bsg.lines[0])
        R.inst("C13.signing.precision", "K6 flows-to", "timestamp → duration_since(EPOCH).as_secs() → bytes, no lossy conversion", len(names), ok)
    QV = "ant_node::quote::quotes_verification"
    okc, nc_ = True, 0
    for b in F.item(QV):
        prep(b)
        pid_calls = Taint(b, through="all").closure(call_results([PQ + "::peer_id"])(b))
        for blk in b.blocks:
            t = blk["term"]
            if t["k"] == "call" and not blk["cleanup"] and callee_matches(t, [PQ + "::check_is_signed_by_claimed_peer"]):
                nc_ += 1
                # the claimed id: field .0 of the (PeerId, PaymentQuote) element the closure was handed
                claimed = set()
                for b2 in b.blocks:
                    for st in b2["stmts"]:
                        rv = st["rv"]
                        pl = rv["a"][1] if rv["k"] == "use" and rv["a"][0] in ("cp", "mv") else rv.get("p") if rv["k"] == "ref" else None
                        if pl and ".0" in pl[1:] and "PeerId" in b.locals.get(str(st["d"][0]), ""):
                            claimed.add(st["d"][0])
                claimed = Taint(b).closure(claimed)
                if op_local(t["args"][1]) in pid_calls or op_local(t["args"][1]) not in claimed:
                    okc = False
                    R.viol("C13.claimed", "self-claimed", "quotes_verification verifies a quote against the peer id derived from the quote's own key instead of the id it was claimed for", b, t["l"])
        # also inside closures handed to Result combinators
    if nc_ == 0 and F.item(QV):
        okc = False
        R.viol("C13.claimed", "anchor-missing:check", "quotes_verification no longer calls check_is_signed_by_claimed_peer", F.item(QV)[0], F.item(QV)[0].lines[0])
    R.inst("C13.claimed", "K6 flows-to", "received quotes are verified for the peer id they were claimed for", nc_, okc)
