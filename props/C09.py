"""C09 — records held by a node replicate to in-range neighbours (structural clauses)."""
import tables as T
from cfg import cfg_of
from flow import Taint, Tracker, callee_matches, field_reads, op_local, prep, backward, backward_calls
from rules import CallGuard, CallSink, CmpGuard, RetSink, AggSink, BlockSink, FieldOptGuard, compare_sites
from rules import PL
from props.C03 import PV, KIND, STORE_FNS
from props.C04 import call_results, agg_field_operands, ARMS, SRIR, STORE

META = {
    "explanation_more": "Also (round 5): the transaction union is built in an ordered set (or sorted) so that the stored bytes depend on the set only (C09.converge.tx.union), and an accepted delivery is stored (C09.converge.tx.stored).",
    "explanation_more2": 'Also (round 4): accepted means held — the store rules on failed writes, removal and the completion notice are evaluated here as C09.held.*.',
    "explanation": "Decides: (1) the periodic Cmd::Replicate carries the clone of *all* values of record_addresses_ref() — no filter/take/"
                   "retain on the way — and is sent to get_replicate_candidates(self); (2) advertisements are acted on "
                   "(replication_fetcher.add_keys) only behind closest_k_peers.contains(holder) && holder != self; (3) the "
                   "GetReplicatedRecord arm answers with the bytes of get_local_record(key) unchanged; (4) store_replicated_in_record has a "
                   "storing arm for each payment-free kind and rejects the four with-payment kinds (exhaustive); (5) the advertised "
                   "RecordType takes part in add_keys' local-presence test, so a differing version of a held mutable record is fetched; (6) the "
                   "functions the replication path stores mutable kinds through keep the higher-counter validly signed scratchpad, the verified "
                   "merge of registers and the union of verified transactions (the C07 merge rules, evaluated under C09.converge.*). "
                   "Not decided: convergence as a dynamic fact, byte-identical copies.",
    "not_decided": ["that rounds of replication actually converge (dynamic)", "byte equality of replicated copies"],
}

TIR = "ant_networking::cmd::<impl ant_networking::driver::SwarmDriver>::try_interval_replication"
AKRF = "ant_networking::event::request_response::<impl ant_networking::driver::SwarmDriver>::add_keys_to_replication_fetcher"
ADDK = "ant_networking::replication_fetcher::ReplicationFetcher::add_keys"
ALLOWED_ON_ADVERT_CHAIN = ("record_addresses_ref", "::values", "::cloned", "::collect", "::clone", "::store_mut", "::behaviour_mut", "::deref", "::deref_mut",
                           "::into_iter", "::iter", "::map", "::to_vec", "::from_iter", "::into")
FILTERS = ("::filter", "::filter_map", "::take", "::skip", "::retain", "::truncate", "::take_while", "::skip_while", "::step_by", "::drain", "::split_off", "::dedup", "::pop", "::remove")


def second_round_rules(R):
    """Rules added after the second probe set: the essential step of each stage of replication follows on every path, with the
    legitimate reasons for doing nothing enumerated."""
    F = R.F
    RFX = "ant_networking::replication_fetcher::ReplicationFetcher::"
    # (1) a replication list from a close peer always reaches the fetcher: ignored only if the sender is no peer, not among the closest
    #     K peers, or this node itself
    ak = R.body("C09.accept.listed", "ant_networking::event::request_response::<impl ant_networking::driver::SwarmDriver>::add_keys_to_replication_fetcher")
    if ak is not None:
        prep(ak)
        closest = Taint(ak, through="all").closure(call_results(["*::get_closest_k_value_local_peers"])(ak))
        selfid = Taint(ak).closure({d for d, r, p in field_reads(ak, "self_peer_id")})
        holder = Taint(ak, through="all").closure(call_results(["ant_protocol::NetworkAddress::as_peer_id"])(ak))
        R.reaches_except("C09.accept.listed", ak, CallSink(RFX + "add_keys"),
                         [CallGuard(["ant_protocol::NetworkAddress::as_peer_id"], ("Some",), "the sender is not a peer"),
                          CallGuard(["alloc::vec::Vec::contains", "core::slice::<impl [T]>::contains", "*::contains"], ("true",), "the sender is not among the closest K peers",
                                    arg_pred=lambda b, blk, t, c=closest: op_local(t["args"][0]) in c),
                          CmpGuard(lambda b: holder, lambda b: selfid, "Ne", "the sender is this node itself", close=False)],
                         "a replication list from one of the closest peers is always handed to ReplicationFetcher::add_keys", key="list-ignored")
    # (2) what was fetched for replication is handed to store_replicated_in_record: the only way out is a failed network re-attempt
    fk = [c for c in F.item("ant_node::replication::<impl ant_node::node::Node>::fetch_replication_keys_without_wait") if c.kind == "closure" and c.coroutine]
    if not fk:
        R.viol("C09.fetch.stored", "anchor-missing:fetch-task", "the fetch task of fetch_replication_keys_without_wait was not found")
    for c in fk[:1]:
        R.reaches_except("C09.fetch.stored", c, CallSink(PV + "store_replicated_in_record"),
                         [CallGuard(["ant_networking::Network::get_record_from_network"], ("Ok",), "the record could not be fetched from the network either")],
                         "every record fetched for replication is handed to store_replicated_in_record", key="fetched-copy-dropped")
    # (3) the per-peer throttle is a fixed window: the predicate choosing this round's targets does not itself restart a peer's window
    tir = R.body("C09.throttle.window", TIR)
    if tir is not None:
        prep(tir)
        from rules import closures_passed
        bad = []
        for blk in tir.blocks:
            t = blk["term"]
            if t["k"] == "call" and not blk["cleanup"] and (t.get("ngen") or t.get("ncallee") or "").endswith(("Vec::retain", "Iterator::filter", "Iterator::partition")):
                for cl in closures_passed(F, tir, t):
                    prep(cl)
                    for x in cl.blocks:
                        xt = x["term"]
                        if xt["k"] == "call" and not x["cleanup"] and (xt.get("ncallee") or "").endswith(("Map::insert", "Map::remove", "Map::entry", "::get_mut", "::retain", "::clear")):
                            bad.append((cl, xt))
        for cl, xt in bad[:1]:
            R.viol("C09.throttle.window", "predicate-mutates:%s" % xt["ncallee"].split("::")[-1], "the predicate selecting this round's replication targets changes the per-peer replication window (%s): a peer seen again before its window ends never gets the list" % xt["ncallee"], cl, xt["l"])
        R.inst("C09.throttle.window", "K2 mutator whitelist", "the target-selection predicate of try_interval_replication does not touch replication_targets", 1, not bad)
    # (4) a scratchpad is refused as outdated only because of its counter
    pad = R.body("C09.pad.outdated", PV + "validate_and_store_scratchpad_record::{closure#0}")
    if pad is not None:
        prep(pad)
        g = cfg_of(pad)
        PADT = "ant_protocol::storage::scratchpad::Scratchpad"

        def counts_of(body, src_locals):
            src = Taint(body, through="all").closure(src_locals)
            return Taint(body).closure({b["term"]["d"][0] for b in body.blocks if b["term"]["k"] == "call" and callee_matches(b["term"], [PADT + "::count"]) and op_local(b["term"]["args"][0]) in src})
        lc = counts_of(pad, call_results(["ant_protocol::storage::header::try_deserialize_record"])(pad))
        nc = counts_of(pad, PL(pad, 1))
        newer = CmpGuard(lambda b: lc, lambda b: nc, "Lt", "local.count() < new.count()", close=False)
        n, acc, rej = newer.edges(pad)
        out = set(AggSink("*Error", "IgnoringOutdatedScratchpadPut").blocks(pad))
        ok = bool(acc) and bool(out) and not any(g.reach((d,), cut=rej) & out for _, d in acc)
        if not ok:
            R.viol("C09.pad.outdated", "newer-pad-refused", "a scratchpad with a strictly higher counter can still be refused as outdated: replicas holding different counters do not converge to the highest", pad, pad.lines[0])
        R.inst("C09.pad.outdated", "K4r reject-edge", "IgnoringOutdatedScratchpadPut only when local.count() >= new.count()", len(out), ok)
    # (4b) the periodic replication arm of Node::run's event loop always triggers replication: from the arm of the `select!` dispatch
    #      that leads to the spawn of try_interval_replication, the next loop iteration is not reachable without that spawn
    run_bodies = [c for c in F.item("ant_node::node::Node::run") if c.kind == "closure" and c.coroutine]
    okp, narm = False, 0
    for rb in run_bodies:
        prep(rb)
        g = cfg_of(rb)
        from rules import closures_passed
        spawns = []
        for blk in rb.blocks:
            t = blk["term"]
            if t["k"] == "call" and not blk["cleanup"] and (t.get("ncallee") or "").endswith("task::spawn::spawn"):
                # the spawned future is an async block of this body: find the one that calls try_interval_replication
                l = op_local(t["args"][0])
                ty = rb.locals.get(str(l), "")
                for c2 in F.item(rb.path):
                    if c2.kind == "closure" and c2 is not rb and (":%d:" % c2.lines[0]) in ty and any((x["ncallee"] or "").endswith("::try_interval_replication") for x in c2.calls):
                        spawns.append(blk["id"])
        if not spawns:
            continue
        switches = [b for b in rb.blocks if b["term"]["k"] == "switch" and not b["cleanup"] and len(b["term"]["targets"]) >= 4]
        for S in sorted(switches, key=lambda b: -len(b["term"]["targets"])):
            arms = [d for _, d in S["term"]["targets"]] + [S["term"]["otherwise"]]
            mine = [d for d in arms if set(spawns) & g.reach((d,), avoid={S["id"]})]
            # the arm of the periodic tick is the one whose *every* path spawns it (the other spawn sites sit in event-handling arms)
            for d in mine:
                if S["id"] not in g.reach((d,), avoid=set(spawns)) or True:
                    pass
            if mine:
                narm = len(mine)
                okp = any(S["id"] not in g.reach((d,), avoid=set(spawns)) for d in mine)
                break
    if run_bodies:
        if not okp:
            R.viol("C09.periodic", "periodic-skipped", "no arm of Node::run's event loop triggers try_interval_replication unconditionally: the periodic re-advertisement can be skipped (records that missed a push are never advertised again)", run_bodies[0], run_bodies[0].lines[0])
        R.inst("C09.periodic", "K5 must-follow", "the periodic arm of Node::run always spawns try_interval_replication", narm, okp)
    # (5) the responsible range set on the fetcher is exactly the range given (rule of C08, evaluated here: keys in range must be accepted)
    from props.C08 import liveness_rules
    liveness_rules(R, "C09.fetcher")


def run(R):
    F = R.F
    second_round_rules(R)
    # convergence of mutable kinds goes through the same validate/compare/merge functions the replication path calls (rules shared with C07)
    from props.C07 import merge_rules
    merge_rules(R, "C09.converge")
    # "accepted" must mean "held": a record whose store call answered Ok is on disk and in the index, and a failed write leaves no
    # trace (index, cache, file) that would make the next delivery of the same record look stored (rules of C01, evaluated here)
    import props.C01 as _C01
    R.import_rules("C01", _C01.run, ["C01.remove", "C01.failed-write", "C01.mark-after-write", "C01.mark.", "C01.arm.always", "C01.cache-shortcut"], "C09.held")
    tir = R.body("C09.advertise", TIR)
    if tir is not None:
        prep(tir)
        ops = agg_field_operands(tir, "ant_protocol::messages::cmd::Cmd", "keys")
        ok = bool(ops)
        names = []
        for _, s, o in ops:
            loc, calls = backward_calls(tir, op_local(o))
            names = sorted({c["ncallee"] or "?" for c in calls})
            if not any("record_addresses_ref" in n for n in names):
                ok = False
                R.viol("C09.advertise", "not-all-records", "Cmd::Replicate.keys does not derive from record_addresses_ref()", tir, s["l"])
            for n in names:
                if any(n.endswith(f) or (f + "<") in n for f in FILTERS):
                    ok = False
                    R.viol("C09.advertise", "filtered:%s" % n, "the advertised key list passes through %s (not every held record is advertised)" % n, tir, s["l"])
        # no retain/truncate on the list after it was built
        if ops:
            ta = Taint(tir, through="all")
            lst = ta.closure({op_local(ops[0][2])}) | backward(tir, op_local(ops[0][2]))
            for b in tir.blocks:
                t = b["term"]
                if t["k"] == "call" and not b["cleanup"] and any((t["ncallee"] or "").endswith(f) for f in FILTERS) and t["args"] and op_local(t["args"][0]) in backward(tir, op_local(ops[0][2])):
                    ok = False
                    R.viol("C09.advertise", "filtered:%s" % t["ncallee"], "the advertised key list is reduced by %s" % t["ncallee"], tir, t["l"])
        else:
            R.viol("C09.advertise", "replicate-cmd-missing", "no Cmd::Replicate{keys} literal in try_interval_replication", tir, tir.lines[0])
        R.inst("C09.advertise", "K6 flows-to", "Cmd::Replicate.keys = all values of record_addresses_ref(), unfiltered", len(ops), ok, {"calls_on_chain": names[:12]})
        # every selected target is sent the list
        R.every_iteration("C09.advertise.every", tir, lambda names, fields: any(n.endswith("get_replicate_candidates") for n in names),
                          CallSink("ant_networking::driver::SwarmDriver::queue_network_swarm_cmd", "*SwarmDriver::queue_network_swarm_cmd"),
                          "every replication target is sent the request", "the replication targets")
        # the in-range candidates are used whole: nothing truncates the result of get_peers_in_range
        grc = R.body("C09.candidates.all", "ant_networking::cmd::<impl ant_networking::driver::SwarmDriver>::get_replicate_candidates")
        if grc is not None:
            prep(grc)
            from rules import _chain_calls, DROPPING_ADAPTORS
            okc = True
            defs0 = [("s", st, blk) for blk in grc.blocks if not blk["cleanup"] for st in blk["stmts"] if st["d"] == [0]] + \
                    [("c", blk["term"], blk) for blk in grc.blocks if not blk["cleanup"] and blk["term"]["k"] == "call" and blk["term"]["d"] == [0]]
            for kind, x, blk in defs0:
                if kind == "s":
                    l = op_local(x["rv"]["a"]) if x["rv"]["k"] == "use" else None
                    names = [(c["ncallee"] or "") for c in backward_calls(grc, l)[1]] if l is not None else []
                else:
                    names = [x["ncallee"] or ""]
                    for a in x["args"]:
                        if op_local(a) is not None:
                            names += [(c["ncallee"] or "") for c in backward_calls(grc, op_local(a))[1]]
                if any(n.endswith("get_peers_in_range") for n in names):
                    dropped = [n for n in names if any(n.endswith(d) or (d + "<") in n for d in DROPPING_ADAPTORS)]
                    if dropped:
                        okc = False
                        R.viol("C09.candidates.all", "candidates-truncated", "get_replicate_candidates cuts down the peers within the responsible range (%s): in-range neighbours beyond the cut never get the list" % dropped[0].split("::")[-1],
                               grc, x.get("l"))
            R.inst("C09.candidates.all", "K6 flows-to", "when enough peers are in range, all of them are replication targets", len(defs0), okc)
        # holder is self, targets are the replicate candidates
        ta = Taint(tir, through="all")
        cand = ta.closure(call_results(["ant_networking::cmd::<impl ant_networking::driver::SwarmDriver>::get_replicate_candidates"])(tir))
        peers = agg_field_operands(tir, "ant_networking::cmd::NetworkSwarmCmd", "peer")
        okp = bool(peers) and all(op_local(o) in cand for _, _, o in peers)
        if not okp:
            R.viol("C09.advertise.targets", "targets", "the replication list is not sent to get_replicate_candidates(self)", tir, tir.lines[0])
        R.inst("C09.advertise.targets", "K6 flows-to", "SendRequest.peer ∈ get_replicate_candidates(self_addr)", len(peers), okp)

    ak = R.body("C09.holder", AKRF)
    if ak is not None:
        prep(ak)

        def holder(b):
            # the advertising peer: payload of sender.as_peer_id()
            return Taint(b, through="all").closure(call_results(["ant_protocol::NetworkAddress::as_peer_id"])(b))

        def selfid(b):
            return Taint(b).closure({d for d, r, p in field_reads(b, "self_peer_id")})
        R.gate("C09.holder", ak, CallSink(ADDK),
               [[CallGuard(["*::contains"], ("true",), "closest_k_peers.contains(&holder)",
                           arg_pred=lambda b, blk, t: op_local(t["args"][0]) in Taint(b, through="all").closure(
                               call_results(["ant_networking::cmd::<impl ant_networking::driver::SwarmDriver>::get_closest_k_value_local_peers",
                                             "*::get_closest_k_value_local_peers"])(b)))],
                [CmpGuard(holder, selfid, "Ne", "holder != self", close=False)]],
               descr="advertisements are acted on only from a peer among the closest K and not from self")
        # the holder handed to add_keys is the sender
        ta = Taint(ak, through="all")
        snd = ta.closure(PL(ak, 1))  # (self, sender, incoming_keys)
        cs = [b for b in ak.blocks if b["term"]["k"] == "call" and callee_matches(b["term"], [ADDK])]
        ok = bool(cs) and all(op_local(b["term"]["args"][1]) in snd for b in cs)
        if not ok:
            R.viol("C09.holder.sender", "holder-is-sender", "add_keys is not given the advertisement's sender as holder", ak, ak.lines[0])
        R.inst("C09.holder.sender", "K6 flows-to", "holder passed to add_keys = peer id of the sender", len(cs), ok)

    # (3) serve what is held
    hq = [b for b in F.item("ant_node::node::Node::handle_query") if b.kind == "closure" and b.coroutine]
    okq = False
    for b in hq:
        prep(b)
        ops = [s for blk in b.blocks for s in blk["stmts"] if s["rv"]["k"] == "agg" and s["rv"]["adt"].endswith("QueryResponse") and s["rv"]["variant"] == "GetReplicatedRecord"]
        if not ops:
            continue
        ta = Taint(b, through="all")
        rec = ta.closure(call_results(["ant_networking::Network::get_local_record"])(b))
        # Ok((addr, Bytes::from(record.value)))
        oks = [s for blk in b.blocks for s in blk["stmts"] if s["rv"]["k"] == "agg" and s["rv"]["variant"] == "Ok" and "Bytes" in b.locals.get(str(s["d"][0]), "")]
        vals = {d for d, r, p in field_reads(b, "value") if r in rec}
        byt = [blk for blk in b.blocks if blk["term"]["k"] == "call" and (blk["term"]["ncallee"] or "").endswith("bytes::Bytes as core::convert::From<alloc::vec::Vec<u8>>>::from")
               and op_local(blk["term"]["args"][0]) in Taint(b).closure(vals)]
        okq = bool(byt) and bool(oks)
        # key asked = key looked up
        keys = ta.closure(call_results(["ant_protocol::NetworkAddress::as_record_key"])(b))
        gl = [blk for blk in b.blocks if blk["term"]["k"] == "call" and callee_matches(blk["term"], ["ant_networking::Network::get_local_record"])
              and op_local(blk["term"]["args"][1]) in keys]
        okq = okq and bool(gl)
    if not okq:
        R.viol("C09.serve", "serve-held", "GetReplicatedRecord does not answer with the unchanged bytes of get_local_record(requested key)")
    R.inst("C09.serve", "K6 flows-to", "GetReplicatedRecord → Bytes::from(get_local_record(key).value)", len(hq), okq)

    # (4) accept path is total
    sr = R.body("C09.accept", SRIR)
    if sr is not None:
        prep(sr)
        arms, _ = T.arm_targets(F, sr, KIND, min_frac=0.4)
        names = T.variant_names(F, KIND) or {}
        g = cfg_of(sr)
        ok = bool(arms)
        tab = {}
        any_store = CallSink(*STORE_FNS)
        for v in names.values():
            want = ARMS[SRIR].get(v, "?")
            st = [b for b in any_store.blocks(sr) if b in g.reach(tuple((arms or {}).get(v, ())))]
            got = sorted({g.term(b)["ncallee"].split("::")[-1] for b in st})
            tab[v] = got
            if want is None and st:
                ok = False
                R.viol("C09.accept", "with-payment-stored:%s" % v, "replicated %s (with payment) reaches a store call" % v, sr, sr.lines[0])
            if want not in (None, "?") and got != [STORE[want].split("::")[-1]]:
                ok = False
                R.viol("C09.accept", "no-arm:%s" % v, "replicated RecordKind::%s is not stored through %s" % (v, STORE[want].split("::")[-1]), sr, sr.lines[0])
            if want == "?":
                ok = False
                R.viol("C09.accept", "unknown-kind:%s" % v, "RecordKind::%s is not in the rule table" % v, sr, sr.lines[0])
        R.inst("C09.accept", "K7 table agreement", "store_replicated_in_record: one storing arm per payment-free kind, none for with-payment kinds", len(tab), ok, {"arms": tab})

    # (4a) a stored record is not refused by an honest neighbour for a reason the original acceptance did not have: in each storing
    #      arm the only refusals before the store function are a body that does not decode, a key that does not match, and
    #      (chunks) the existence check's own error — no further Err is constructed in the arm
    if sr is not None and arms:
        from props.C04 import TRK, VKE
        allowed = [CallGuard(["ant_protocol::storage::header::try_deserialize_record"], ("Ok",), "the record body decodes"),
                   CallGuard([VKE], ("Ok",), "validate_key_and_existence did not fail"),
                   CmpGuard(lambda b: Taint(b, through="all").closure(call_results([TRK])(b)), lambda b: Taint(b, through="all").closure({d for d, r, p in field_reads(b, "key")}), "Eq",
                            "record.key == key derived from the content", close=False)]
        rejects = set()
        for gd in allowed:
            rejects |= gd.edges(sr)[2]
        errs = set(AggSink("core::result::Result", "Err").blocks(sr))
        oka, na = True, 0
        for v, want in ARMS[SRIR].items():
            if want is None or v not in arms:
                continue
            na += 1
            live = g.reach(tuple(arms[v]), cut=rejects)
            extra = sorted(errs & live)
            if extra:
                oka = False
                R.viol("C09.accept.complete", "extra-refusal:%s" % v, "replicated RecordKind::%s can be refused (Err) for a reason other than an undecodable body or a key mismatch: "
                       "a record the holder accepted is then never accepted by its neighbours" % v, sr, g.term(extra[0]).get("l"))
        R.inst("C09.accept.complete", "K4 gate (must-reach)", "storing arms refuse only undecodable bodies and key mismatches before handing over to the store function", na, oka)

    # (4b) mutable kinds are always handed to their merge/validate function: the only accepting outcome of those arms is that
    #      function's verdict (an early `Ok(())` would leave two replicas with different versions un-merged)
    if sr is not None and arms:
        n = 0
        okb = True
        for v, want in ARMS[SRIR].items():
            if want in (None, "chunk"):
                continue  # chunks are immutable: "already held" is a legitimate early Ok
            starts = tuple(arms.get(v, ()))
            if not starts:
                continue
            n += 1
            stores = set(b for b in any_store.blocks(sr) if b in g.reach(starts))
            early = [b for b in RetSink("Ok").blocks(sr) if b in g.reach(starts, avoid=stores)]
            if early:
                okb = False
                R.viol("C09.accept.no-bypass", "early-ok:%s" % v, "replicated RecordKind::%s can be acknowledged (Ok) without reaching %s: a differing version held by a neighbour is not merged"
                       % (v, STORE[want].split("::")[-1]), sr, g.term(early[0]).get("l"))
        R.inst("C09.accept.no-bypass", "K5 must-follow", "mutable kinds: every accepting path of the replication arm goes through the merge/validate-and-store function", n, okb)

    # (5) version-aware presence test
    addk = R.body("C09.versions", ADDK)
    if addk is not None:
        ok = False
        for b in F.item(ADDK):
            prep(b)
            ta = Taint(b, through="all")
            stored = ta.closure(PL(b, 3)) if b.kind != "closure" else set()
            # advertised types: RecordType values coming out of the incoming_keys parameter
            from flow import locals_of_type
            adv = Taint(b, through="all").closure(PL(b, 2)) if b.kind != "closure" else set()
            types = {l for l in adv if "RecordType" in b.locals.get(str(l), "") and "HashMap" not in b.locals.get(str(l), "") and "Vec" not in b.locals.get(str(l), "")} - stored
            for s in compare_sites(b):
                la, lb = op_local(s["a"]), op_local(s["b"])
                if s["op"] in ("Eq", "Ne") and ((la in stored and lb in types and la not in types) or (lb in stored and la in types and lb not in types)):
                    ok = True
        if not ok:
            R.viol("C09.versions", "presence-ignores-type:add_keys",
                   "add_keys skips an advertised key as soon as the key is held, without comparing the advertised RecordType with the stored one", addk, addk.lines[0])
        R.inst("C09.versions", "K6 flows-to", "advertised RecordType takes part in the local-presence test of add_keys", 1, ok)
        # sibling that does it right (reference instance)
        rsk = [c for c in F.item("ant_networking::replication_fetcher::ReplicationFetcher::remove_stored_keys") if c.kind == "closure"]
        okr = False
        for c in rsk:
            prep(c)
            if any(s["op"] in ("Eq", "Ne") for s in compare_sites(c)) and any((x["ncallee"] or "").endswith("HashMap::get") for x in c.calls):
                okr = True
        if not okr:
            R.viol("C09.versions.sibling", "remove-stored-keys", "remove_stored_keys no longer compares the record type with the stored one", addk, addk.lines[0])
        R.inst("C09.versions.sibling", "K6 flows-to", "remove_stored_keys drops a queued entry only if the stored type equals the advertised one", len(rsk), okr)
        # a stored / early-completed version clears only the queued entries of *that* version: other versions advertised for the
        # key stay queued (they are what lets divergent holders converge through this node)
        from rules import closures_passed
        RF = "ant_networking::replication_fetcher::ReplicationFetcher::"
        for fn in ("notify_about_new_put", "notify_fetch_early_completed"):
            fb = R.body("C09.versions.queue", RF + fn)
            if fb is None:
                continue
            prep(fb)
            q = Taint(fb).closure({d for d, r, p in field_reads(fb, "to_be_fetched")})
            rets = [blk for blk in fb.blocks if blk["term"]["k"] == "call" and not blk["cleanup"] and (blk["term"]["ncallee"] or "").endswith("::retain") and op_local(blk["term"]["args"][0]) in q]
            okq = bool(rets)
            for blk in rets:
                typed = False
                for cl in closures_passed(F, fb, blk["term"]):
                    prep(cl)
                    for c in compare_sites(cl):
                        ta_, tb_ = cl.locals.get(str(op_local(c["a"])), ""), cl.locals.get(str(op_local(c["b"])), "")
                        if c["op"] in ("Eq", "Ne") and "RecordType" in ta_ and "RecordType" in tb_:
                            typed = True
                    if not typed:
                        # the comparison may sit in a local predicate closure the retain closure calls
                        from rules import closure_truth_table
                        from props.C08 import _kt
                        tt = closure_truth_table(cl, _kt)
                        typed = tt is not None and "T" in tt[0]
                if not typed:
                    okq = False
            if not okq:
                R.viol("C09.versions.queue", "queue-ignores-type:%s" % fn, "%s drops queued fetches by key alone: a differing version of the record advertised by another holder is never fetched" % fn, fb, fb.lines[0])
            R.inst("C09.versions.queue", "K6 flows-to", "%s: queued entries are dropped only for the same (key, record type)" % fn, len(rets), okq)
        # the in-flight entry of a key is completed by the arrival of *any* version of it (a merged / newer version arrives under
        # another hash): notify_about_new_put clears on_going_fetches by key alone, otherwise the honest holder is blamed at time-out
        nb = R.body("C09.versions.inflight", RF + "notify_about_new_put")
        if nb is not None:
            prep(nb)
            q2 = Taint(nb).closure({d for d, r, p in field_reads(nb, "on_going_fetches")})
            rets2 = [blk for blk in nb.blocks if blk["term"]["k"] == "call" and not blk["cleanup"] and (blk["term"]["ncallee"] or "").endswith("::retain") and op_local(blk["term"]["args"][0]) in q2]
            oki = bool(rets2)
            for blk in rets2:
                for cl in closures_passed(F, nb, blk["term"]):
                    prep(cl)
                    for c in compare_sites(cl):
                        ta_, tb_ = cl.locals.get(str(op_local(c["a"])), ""), cl.locals.get(str(op_local(c["b"])), "")
                        if "RecordType" in ta_ and "RecordType" in tb_:
                            oki = False
            if not oki:
                R.viol("C09.versions.inflight", "inflight-by-type", "notify_about_new_put keeps the in-flight entry of a key when the stored version's type/hash differs from the advertised one: "
                       "the fetch then times out and its (honest) holder is reported", nb, nb.lines[0])
            R.inst("C09.versions.inflight", "K6 flows-to", "a stored record completes the in-flight fetches of its key whatever version was advertised", len(rets2), oki)
        # exact polarity of the queue / in-flight pruning closures (truth tables; rules of C08 evaluated here)
        from props.C08 import retain_rules
        retain_rules(R, "C09.versions")
        # add_keys' skip tests look at (key, type[, holder]) entries, never at the key alone of an in-flight fetch: a second, differing
        # version advertised while the first is being fetched must still be queued
        akb = R.body("C09.versions.skip", ADDK)
        if akb is not None:
            prep(akb)
            oks = True
            for cl in [c for c in F.item(ADDK) if c.kind == "closure"]:
                prep(cl)
                # closures handed to any()/find()/position() over on_going_fetches keys that compare only the Key component
                for c in compare_sites(cl):
                    ta_, tb_ = cl.locals.get(str(op_local(c["a"])), ""), cl.locals.get(str(op_local(c["b"])), "")
                    if "libp2p_kad::record::Key" in ta_ and "libp2p_kad::record::Key" in tb_ and "RecordType" not in ta_ and "(" not in ta_.replace("&", "").strip()[:1]:
                        par = [blk for blk in akb.blocks if blk["term"]["k"] == "call" and not blk["cleanup"] and cl in closures_passed(F, akb, blk["term"])
                               and (blk["term"]["ngen"] or "").endswith(("Iterator::any", "Iterator::find", "Iterator::position", "Iterator::all"))]
                        if par:
                            oks = False
                            R.viol("C09.versions.skip", "skip-by-key", "add_keys skips an advertised record because *some* version of its key is being fetched: a differing version advertised meanwhile is never queued", akb, par[0]["term"]["l"])
            R.inst("C09.versions.skip", "K6 flows-to", "add_keys never skips an advertised version on the key of an in-flight fetch alone", 1, oks)
