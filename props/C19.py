"""C19 — service lifecycle state matches the managed processes (typestate clauses)."""
import tables as T
from cfg import cfg_of
from flow import Taint, Tracker, callee_matches, field_reads, op_local, prep, backward, backward_calls
from rules import CallGuard, CallSink, CmpGuard, RetSink, AggSink, BlockSink, FieldOptGuard, compare_sites
from rules import PL
from props.C04 import call_results, agg_field_operands

META = {
    "explanation_r6": "Also (round 6): a process found by refresh (lookup Ok) is always recorded through on_start before the service's iteration ends (C19.refresh.found); on_start refreshes no recorded field depending on that field's own previous value (C19.on_start.fresh).",
    "explanation_more": "Also (round 5): refresh looks the process up whatever status is recorded except Removed (C19.refresh.lookup); 'a removed service stays removed' is decided from the head of the per-service iteration.",
    "explanation_more2": 'Also (round 4): after the new definition was installed every outcome of upgrade records the new version (C19.upgrade.version.always).',
    "explanation": "Decides: (1) NodeServiceData.status and .pid are assigned only in NodeService::{on_start,on_stop,on_remove}; NodeServiceData "
                   "literals exist only in add_node (status Added, pid None) and local::run_node (status Running with the pid the freshly "
                   "spawned node reported over RPC); (2) every call of on_start — ServiceManager::start and both branches of "
                   "refresh_node_registry — is cut by Ok(pid) from get_process_pid / node_info and passes that pid; in start it is also cut "
                   "by service_control.start == Ok; inside on_start no call follows the `status = Running` write and every fallible RPC "
                   "precedes it; (3) on_stop in stop is cut by {service_control.stop Ok} ∪ {process not found}; on_remove in remove is cut "
                   "by {uninstall Ok or a tolerated error} and by `not running`; (4) add_node validates the requested ports against the "
                   "registry before the loop, pushes a NodeServiceData only on the Ok side of install, saves after every push, and numbers "
                   "new services after the highest recorded number (or never skips a number), so names/data dirs cannot repeat. "
                   "Also: start() returns Ok only behind get_process_pid == Ok; upgrade replaces binary and definition only after stop() succeeded, records the new version only after install succeeded, and reports Upgraded/Forced only if the restart succeeded; check_port_availability collects node, metrics and RPC ports, walks a requested range inclusively and cannot return Ok once a requested port is taken. Not decided: enumeration of operation histories × fault placements; registry reload equality (serde).",
    "not_decided": ["exploration of histories and fault placements (a different technique)", "serde_json reload equality of the registry"],
}

NM = "ant_node_manager::"
SM = NM + "ServiceManager::"
SSA = "ant_service_management::ServiceStateActions::"
SC = "ant_service_management::control::ServiceControl::"
NSD = "ant_service_management::node::NodeServiceData"
NS = "<ant_service_management::node::NodeService<'_> as ant_service_management::ServiceStateActions>::"
ADD = NM + "add_services::add_node"
RUN = NM + "local::run_node"
RESTART = NM + "rpc::restart_node_service"
REG = "ant_service_management::NodeRegistry"


def run(R):
    from serdepair import serde_agreement
    serde_agreement(R, "C19.registry.fields", ["ant_service_management::NodeRegistry"], 9)
    port_rules(R)
    port_count_rule(R)
    R.whole_file_write("C19.registry.whole", "ant_service_management::NodeRegistry::save", "the registry saved after each step is replaced whole (loads back to the same state)")
    F = R.F
    owners = [NS + "on_start", NS + "on_stop", NS + "on_remove"]
    R.who_may_write("C19.own.status", NSD, "status", owners, floor=2, descr="NodeServiceData.status is assigned only in NodeService::on_start/on_stop/on_remove")
    R.who_may_write("C19.own.pid", NSD, "pid", owners, floor=2, descr="NodeServiceData.pid is assigned only in NodeService::on_start/on_stop")
    lits = R.who_may_construct("C19.own.literal", NSD, None, [ADD, RUN, RESTART], floor=3, descr="NodeServiceData literals only in add_node, rpc::restart_node_service and local::run_node")
    for b, a in lits:
        root = R.root_path(b)
        prep(b)
        st = agg_field_operands(b, NSD, "status")
        pid = agg_field_operands(b, NSD, "pid")

        def variant_of(op):
            l = op_local(op)
            for blk in b.blocks:
                for s in blk["stmts"]:
                    if s["d"] == [l] and s["rv"]["k"] == "agg":
                        return s["rv"]["variant"]
            return None
        if root in (ADD, RESTART):
            ok = bool(st) and all(variant_of(o) == "Added" for _, _, o in st) and bool(pid) and all(variant_of(o) == "None" for _, _, o in pid)
            if not ok:
                R.viol("C19.literal.add", "initial-state:%s" % root.split("::")[-1], "%s must record a new service as status Added with pid None" % root, b, a["line"])
            R.inst("C19.literal.add", "K3 construct-site guard", "%s records {status: Added, pid: None}" % root.split("::")[-1], len(st), ok)
        elif root == RUN:
            ta = Taint(b, through="all")
            info = ta.closure(call_results(["*RpcActions::node_info", "ant_service_management::rpc::RpcActions::node_info", "*::node_info"])(b))
            ok = bool(st) and all(variant_of(o) == "Running" for _, _, o in st) and bool(pid) and all(
                any(op_local(x) in info for x in _agg_ops(b, op_local(o))) for _, _, o in pid)
            if ok:
                ok = R.gate("C19.literal.run.gate", b, AggSink(NSD), [[CallGuard(["*::node_info"], ("Ok",), "rpc node_info is Ok")]],
                            descr="local::run_node records Running only after the node answered over RPC")
            else:
                R.viol("C19.literal.run", "running-without-evidence", "local::run_node records Running without the pid reported by the node", b, a["line"])
            R.inst("C19.literal.run", "K3 construct-site guard", "run_node records {status: Running, pid: Some(node_info.pid)}", len(st), ok)

    # (2) Running only after evidence
    start = R.body("C19.start", SM + "start::{closure#0}")
    if start is not None:
        prep(start)
        onst = CallSink(SSA + "on_start")
        g_pid = CallGuard([SC + "get_process_pid"], ("Ok",), "get_process_pid is Ok(pid)")
        g_started = CallGuard([SC + "start"], ("Ok",), "service_control.start is Ok")
        R.gate("C19.start", start, onst, [[g_pid], [g_started]], descr="start: on_start only after the OS started the service and a PID was found")
        _pid_arg(R, "C19.start.pid", start, [SC + "get_process_pid"])
        # start() reports success only if a live process was found — on the "already running" shortcut as well as after a launch
        R.gate("C19.start.ok", start, RetSink("Ok"), [[g_pid]],
               descr="start returns Ok only behind get_process_pid == Ok(pid): a service left recorded as Running has a live process")
    ref = R.body("C19.refresh", NM + "refresh_node_registry::{closure#0}")
    if ref is not None:
        prep(ref)
        g = cfg_of(ref)
        sites = CallSink(SSA + "on_start", NS + "on_start").blocks(ref)
        ok = len(sites) >= 2
        g_any = [CallGuard([SC + "get_process_pid"], ("Ok",), "get_process_pid is Ok(pid)"), CallGuard(["*::node_info"], ("Ok",), "rpc node_info is Ok")]
        R.gate("C19.refresh", ref, CallSink(SSA + "on_start", NS + "on_start"), [g_any], descr="refresh: on_start only behind Ok(pid) from the OS or Ok(info) from the node")
        _pid_arg(R, "C19.refresh.pid", ref, [SC + "get_process_pid", "*::node_info"])
        # a removed service stays removed: where the refresh looks the process up by its binary, on_stop (→ Stopped) is reached only on a
        # branch that has established the recorded status is not Removed (nor Added)
        import tables as T_
        sn = {v: k for k, v in (T_.variant_names(F, "ant_service_management::ServiceStatus") or {}).items()}
        gpp = [b["id"] for b in ref.blocks if b["term"]["k"] == "call" and not b["cleanup"] and callee_matches(b["term"], [SC + "get_process_pid"])]
        nxt = {b["id"] for b in ref.blocks if b["term"]["k"] == "call" and not b["cleanup"] and (b["term"].get("ngen") or "").endswith("iterator::Iterator::next")}
        # (within one iteration of the per-service loop)
        stops = [b for b in CallSink(SSA + "on_stop", NS + "on_stop").blocks(ref) if gpp and b in g.reach(tuple(gpp), avoid=nxt)]
        okr = bool(stops) and "Removed" in sn
        if okr:
            cut = set()
            from rules import VariantGuard
            n_, acc_, rej_ = VariantGuard(call_results(["*::status"]), "Removed", sn["Removed"], "status is Removed").edges(ref)
            if not acc_:
                okr = False
            rem_rej, rem_acc = set(rej_), set(acc_)
            # on_stop must lie behind a rejecting edge of "status is Removed" (i.e. status known not to be Removed) — decided after the
            # lookup or ahead of it, so the paths are taken from the head of the per-service iteration …
            heads = tuple(d for n_b in nxt for d, _ in g.succ[n_b] if set(gpp) & g.reach((d,), avoid=nxt))    # the `next` of the per-service loop, not of the loops inside logging macros
            if okr and (set(stops) & g.reach(heads, cut=rem_rej, avoid=nxt)):
                okr = False
            # … and never after its accepting edge
            if okr and any(set(stops) & g.reach((d,), cut=rem_rej, avoid=nxt) for _, d in rem_acc):
                okr = False
        if not okr:
            R.viol("C19.refresh.removed", "removed-resurrected", "refresh_node_registry can mark a service Stopped (on_stop) without having established that it is not Removed: a removed service does not stay removed", ref, ref.lines[0])
        R.inst("C19.refresh.removed", "K4 gate", "refresh: on_stop after a failed process lookup only for a service that is not Removed", len(stops), okr)
        # a process that was found is recorded — always: from the Ok side of either lookup the per-service iteration comes round (or the
        # function returns) only through on_start, the one place that writes the looked-up PID and Running into the registry (seed C19-r6:
        # on_start skipped on a partial refresh for a service already recorded Running — a service restarted by the OS under a new PID keeps
        # its dead PID in the registry)
        starts_ = set(CallSink(SSA + "on_start", NS + "on_start").blocks(ref))
        loop_next = {n_b for n_b in nxt if any(set(gpp) & g.reach((d,), avoid=nxt) for d, _ in g.succ[n_b])}
        rets = {b["id"] for b in ref.blocks if b["term"]["k"] == "return"}
        okf, nfound = bool(starts_) and bool(loop_next), 0
        for gd in g_any:
            _n, acc_e, _rej = gd.edges(ref)
            for _src, dst in acc_e:
                nfound += 1
                if dst in starts_:
                    continue
                seen = g.reach((dst,), avoid=starts_)
                if seen & (loop_next | rets):
                    okf = False
                    R.viol("C19.refresh.found", "found-not-recorded:%s" % gd.label.split()[0], "refresh_node_registry can finish a service's iteration after `%s` without on_start(pid): the PID / Running "
                           "status found is not recorded (a service restarted under a new PID keeps the dead one)" % gd.label, ref, g.term(_src)["l"])
        if not nfound:
            okf = False
            R.viol("C19.refresh.found", "anchor-missing:lookup-ok", "no Ok side of a process lookup found in refresh_node_registry", ref, ref.lines[0])
        R.inst("C19.refresh.found", "K5 must-follow", "refresh: a found process (lookup Ok) is always recorded through on_start before the iteration ends", nfound, okf)
        # whatever status is recorded, the process is looked up: a service recorded Added (a start that failed after the launch) or Stopped
        # whose process lives is only ever noticed here — a `continue` on the recorded status in front of the lookup leaves it unnoticed,
        # and remove / stop then act on a live process
        if gpp and "Removed" in sn:
            from rules import VariantGuard as _VG
            heads = tuple(d for n_b in nxt for d, _ in g.succ[n_b] if set(gpp) & g.reach((d,), avoid=nxt))    # the `next` of the per-service loop, not of the loops inside logging macros
            skipped = []
            for vname, vidx in sorted(sn.items(), key=lambda kv: kv[1]):
                if vname == "Removed":
                    continue        # a removed service has no process to look for
                _n, _a, rej_v = _VG(call_results(["*::status"]), vname, vidx, "status is %s" % vname).edges(ref)
                if not (set(gpp) & g.reach(heads, cut=set(rej_v), avoid=nxt)):
                    skipped.append(vname)
            if skipped:
                R.viol("C19.refresh.lookup", "lookup-skipped:%s" % ",".join(skipped), "refresh_node_registry does not look up the process of a service recorded as %s: a live process behind it "
                       "is never noticed (the registry keeps saying %s while remove / stop act on it)" % (" / ".join(skipped), skipped[0]), ref, ref.lines[0])
            R.inst("C19.refresh.lookup", "K4 gate (must-reach)", "the process lookup is reached whatever status is recorded (Added, Running, Stopped)", len(gpp), not skipped)
    ost = R.body("C19.on_start", NS + "on_start::{closure#0}")
    if ost is not None:
        prep(ost)
        g = cfg_of(ost)
        w = [b["id"] for b in ost.blocks for s in b["stmts"] if len(s["d"]) > 1 and s["d"][-1] == ".status"]
        ok = len(w) == 1
        if ok:
            after = g.reach((w[0],))
            calls = [g.term(b) for b in after if g.term(b)["k"] == "call" and b != w[0] and not (g.term(b)["ncallee"] or "").startswith("core::ptr::drop")]
            yields = [b for b in after if g.term(b)["k"] == "yield"]
            ok = not calls and not yields
            # the status written is Running, the pid written is the argument
            st = [s for b in ost.blocks for s in b["stmts"] if len(s["d"]) > 1 and s["d"][-1] == ".status"]
            ok = ok and all(_written_variant(ost, s) == "Running" for s in st)
            pw = [s for b in ost.blocks for s in b["stmts"] if len(s["d"]) > 1 and s["d"][-1] == ".pid"]
            pids = Taint(ost).closure(PL(ost, 1))  # (self, pid, full_refresh)
            ok = ok and bool(pw) and all(op_local(s["rv"].get("a", ["?"])) in pids for s in pw)
            # … on every path: the pid recorded is the one the caller found for the service's own binary, never one obtained elsewhere
            from flow import must_be_copy_of
            ok = ok and all(s["rv"]["k"] == "use" and s["rv"]["a"][0] in ("cp", "mv") and must_be_copy_of(ost, op_local(s["rv"]["a"]), PL(ost, 1)) for s in pw)
        if not ok:
            R.viol("C19.on_start", "running-last", "NodeService::on_start must set status = Running (and the given pid) as its last effect, after every fallible RPC", ost, ost.lines[0])
        R.inst("C19.on_start", "K5 must-follow", "on_start: nothing fallible follows `status = Running`; pid written = pid argument", len(w), ok)
        # what on_start records is what the live process reports, never what happened to be on record: no write of a service_data field is
        # decided by the previous value of that same field (seed C19-r7: `if node_port.is_none() { node_port = <port the node listens on> }` —
        # a service restarted on another port keeps the old one on record; the port check then refuses a free port and admits a taken one)
        from flow import backward
        idom = g.dominators()
        nfw, okfw = 0, True
        for b in ost.blocks:
            if b["cleanup"]:
                continue
            for s_ in b["stmts"]:
                if len(s_["d"]) < 2 or not str(s_["d"][-1]).startswith(".") or ".service_data" not in s_["d"]:
                    continue
                fld = s_["d"][-1][1:]
                nfw += 1
                olds = {d for d, r, p_ in field_reads(ost, fld) if p_[-1] == "." + fld}
                olds = Taint(ost, through="all").closure(olds) if olds else set()
                d_ = b["id"]
                while d_ != 0 and olds:
                    d_ = idom[d_]
                    t_ = g.term(d_)
                    if t_["k"] != "switch":
                        continue
                    sides = [x for x, _ in g.succ[d_]]
                    if all(b["id"] in g.reach((x,)) for x in sides):
                        continue        # not a deciding branch for this write
                    l_ = op_local(t_["on"])
                    if l_ is not None and (backward(ost, l_) & olds or l_ in olds):
                        okfw = False
                        R.viol("C19.on_start.fresh", "stale-guard:%s" % fld, "NodeService::on_start records `%s` only depending on the value of `%s` already on record: what the live "
                               "process reports does not replace a stale entry" % (fld, fld), ost, t_.get("l") or ost.lines[0])
                        break
        if nfw < 4:
            okfw = False
            R.viol("C19.on_start.fresh", "instance-floor", "only %d writes of service_data fields found in on_start (floor 4)" % nfw, ost, ost.lines[0])
        R.inst("C19.on_start.fresh", "K4 gate (forbidden guard)", "on_start: no recorded field is refreshed depending on its own previous value", nfw, okfw)
    osp = R.body("C19.on_stop", NS + "on_stop::{closure#0}")
    if osp is not None:
        prep(osp)
        st = [s for b in osp.blocks for s in b["stmts"] if len(s["d"]) > 1 and s["d"][-1] == ".status"]
        pw = [s for b in osp.blocks for s in b["stmts"] if len(s["d"]) > 1 and s["d"][-1] == ".pid"]
        ok = bool(st) and all(_written_variant(osp, s) == "Stopped" for s in st) and bool(pw) and all(_written_variant(osp, s) == "None" for s in pw)
        if not ok:
            R.viol("C19.on_stop", "stopped-clears-pid", "on_stop must record Stopped and clear the pid", osp, osp.lines[0])
        R.inst("C19.on_stop", "K6 flows-to", "on_stop: status = Stopped, pid = None", len(st) + len(pw), ok)

    # (3) stop / remove
    stop = R.body("C19.stop", SM + "stop::{closure#0}")
    if stop is not None:
        g_stopped = CallGuard([SC + "stop"], ("Ok",), "service_control.stop is Ok")
        # "already gone" must be the lookup's positive answer (ServiceProcessNotFound), not just any failure of the lookup:
        # with OS calls failing at arbitrary points, a lookup fault while the process lives must not lead to Stopped being recorded
        _names = T.variant_names(F, "ant_service_management::error::Error") or {}
        _idx = {v: k for k, v in _names.items()}
        g_gone = CallGuard([SC + "get_process_pid"], ("Err", "ServiceProcessNotFound#%d" % _idx.get("ServiceProcessNotFound", -1)), "process lookup says ServiceProcessNotFound")
        # `.is_ok()` form: is_ok false ⇒ not found
        R.gate("C19.stop", stop, CallSink(SSA + "on_stop"), [[g_stopped, g_gone]], descr="stop: on_stop only after the OS stopped the service or the process was already gone")
    upg = R.body("C19.upgrade", SM + "upgrade::{closure#0}")
    if upg is not None:
        prep(upg)
        g_stop = CallGuard([SM + "stop"], ("Ok",), "self.stop() is Ok")
        g_inst = CallGuard([SC + "install"], ("Ok",), "service_control.install is Ok")
        g_start = CallGuard([SM + "start"], ("Ok",), "self.start() is Ok")
        R.gate("C19.upgrade.stop", upg, CallSink("std::fs::copy", SC + "uninstall", SC + "install"), [[g_stop]],
               descr="upgrade replaces the binary and the service definition only after the service was stopped")
        R.gate("C19.upgrade.uninstall", upg, CallSink(SC + "install"), [[CallGuard([SC + "uninstall"], ("Ok",), "service_control.uninstall is Ok")]],
               descr="upgrade installs the new definition only after the old one was uninstalled (a service whose definition is gone — removed — is not brought back)")
        R.gate("C19.upgrade.version", upg, CallSink(SSA + "set_version"), [[g_inst]],
               descr="the new version is recorded only after the new definition was installed", min_sinks=1)
        # ... and always then: once the new definition is installed, every normal return (also "upgraded but not started") has
        # recorded the new version — the registry must describe what is installed
        n_i, acc_i, _ = g_inst.edges(upg)
        if acc_i:
            from rules import final_edges as _fe
            R.must_pass("C19.upgrade.version.always", upg, [("set_version(target)", CallSink(SSA + "set_version"))], from_blocks=tuple(d for _, d in _fe(cfg_of(upg), acc_i)),
                        descr="after the new definition was installed every outcome records the new version")
        from rules import FieldBoolGuard
        done = AggSink("ant_service_management::UpgradeResult", "Upgraded")
        forced = AggSink("ant_service_management::UpgradeResult", "Forced")
        both = BlockSink(lambda b: sorted(set(done.blocks(b)) | set(forced.blocks(b))), "UpgradeResult::Upgraded/Forced")
        R.gate("C19.upgrade.result", upg, both, [[g_start, FieldBoolGuard("start_service", want=False, label="start was not requested")]],
               descr="Upgraded/Forced is reported only if the restart succeeded (or none was requested)")
    rem = R.body("C19.remove", SM + "remove::{closure#0}")
    if rem is not None:
        prep(rem)
        g_un = CallGuard([SC + "uninstall"], ("Ok",), "uninstall is Ok")
        # tolerated errors: ServiceRemovedManually / ServiceDoesNotExists — arms of the match on the error
        SE = "ant_service_management::error::Error"
        names = T.variant_names(F, SE) or {}
        idx = {v: k for k, v in names.items()}
        tol = [CallGuard([SC + "uninstall"], ("Err", "%s#%d" % (v, idx[v])), "uninstall failed with %s" % v) for v in ("ServiceRemovedManually", "ServiceDoesNotExists") if v in idx]
        R.gate("C19.remove.os", rem, CallSink(SSA + "on_remove"), [[g_un] + tol], descr="remove: on_remove only after uninstall succeeded or the service was already gone")
        # the "marked running but actually stopped" correction (on_stop inside remove) needs the same positive answer
        _i2 = idx.get("ServiceProcessNotFound", -1)
        R.gate("C19.remove.on_stop", rem, CallSink(SSA + "on_stop"), [[CallGuard([SC + "get_process_pid"], ("Err", "ServiceProcessNotFound#%d" % _i2), "process lookup says ServiceProcessNotFound")]],
               descr="remove records Stopped for a service marked Running only if the lookup positively reports the process gone")
        # not running: the Running && process-alive branch returns an error
        g = cfg_of(rem)
        alive = CallGuard([SC + "get_process_pid"], ("Ok",), "process is alive")
        n_, acc, rej = alive.edges(rem)
        onrem = set(CallSink(SSA + "on_remove").blocks(rem))
        ok = bool(acc) and all(not (g.reach((d,)) & onrem) for _, d in acc)
        if not ok:
            R.viol("C19.remove.running", "remove-running", "remove can mark a service removed although its process is alive", rem, rem.lines[0])
        R.inst("C19.remove.running", "K4r reject-edge", "a service whose process is alive is never marked removed", len(acc), ok)
    onr = R.body("C19.on_remove", NS + "on_remove")
    if onr is not None:
        st = [s for b in onr.blocks for s in b["stmts"] if len(s["d"]) > 1 and s["d"][-1] == ".status"]
        ok = bool(st) and all(_written_variant(onr, s) == "Removed" for s in st)
        if not ok:
            R.viol("C19.on_remove", "removed", "on_remove must record Removed", onr, onr.lines[0])
        R.inst("C19.on_remove", "K6 flows-to", "on_remove: status = Removed", len(st), ok)

    _save_after_ops(R)
    # (4) add
    add = R.body("C19.add", ADD + "::{closure#0}")
    if add is not None:
        prep(add)
        g = cfg_of(add)
        push = BlockSink(lambda b: [blk["id"] for blk in b.blocks if blk["term"]["k"] == "call" and not blk["cleanup"] and callee_matches(blk["term"], ["alloc::vec::Vec::push"])
                                    and "NodeServiceData" in b.locals.get(str(op_local(blk["term"]["args"][1])), "")], "node_registry.nodes.push")
        R.gate("C19.add.install", add, push, [[CallGuard([SC + "install"], ("Ok",), "service_control.install is Ok")]], descr="add: a service is recorded only after install succeeded")
        pb = set(push.blocks(add))
        sv = set(CallSink(REG + "::save").blocks(add))
        # save follows every push before the next iteration / return
        nxt = set(CallSink(NM + "helpers::increment_port_option").blocks(add))
        rets = {b["id"] for b in add.blocks if b["term"]["k"] == "return"}
        ok = bool(pb) and bool(sv) and not (g.reach(tuple(pb), avoid=sv) & (rets | nxt))
        if not ok:
            R.viol("C19.add.save", "push-without-save", "add_node can continue or return after recording a service without saving the registry", add, add.lines[0])
        R.inst("C19.add.save", "K5 must-follow", "registry.save() follows every recorded service", len(pb), ok)
        # ports validated and checked against the registry before anything is installed
        inst = set(CallSink(SC + "install").blocks(add))
        val = CallSink(NM + "add_services::config::PortRange::validate").blocks(add)
        chk = CallSink(NM + "helpers::check_port_availability").blocks(add)
        # one validate + check pair per port option (node, metrics, rpc) — or one pair in a loop over an array of the three options
        in_cycle = lambda bb: bb in g.reach(tuple(d for d, _ in g.succ[bb]))
        arr3 = [st for blk in add.blocks if not blk["cleanup"] for st in blk["stmts"] if st["rv"]["k"] == "agg" and st["rv"].get("ak") == "array" and len(st["rv"]["ops"]) >= 3]
        opt_fields = {p[-1] for f_ in ("node_port", "metrics_port", "rpc_port") for d, r, p in field_reads(add, f_)}
        looped = bool(arr3) and {".node_port", ".metrics_port", ".rpc_port"} <= opt_fields and bool(val) and bool(chk) and all(in_cycle(x) for x in list(val) + list(chk))
        need = 1 if looped else 3
        ok = len(val) >= need and len(chk) >= need
        # every check precedes the loop: none of them is reachable from an install site
        ok = ok and not (set(val) | set(chk)) & g.reach(tuple(inst))
        # and each is `?`-propagated
        for pats, nm in (([NM + "helpers::check_port_availability"], "check_port_availability"),):
            gd = CallGuard(pats, ("Ok",), nm + " is Ok")
            n_, acc, rej = gd.edges(add)
            ok = ok and len(acc) >= need and all(not (g.reach((d,)) & inst) for _, d in rej)
        if not ok:
            R.viol("C19.add.ports", "ports-unchecked", "requested ports are not validated and checked against the registry before services are installed", add, add.lines[0])
        R.inst("C19.add.ports", "K4r reject-edge", "a requested port another service records makes add_node fail before any install", len(chk), ok)
        # numbering
        # the service counter: the plain local that NodeServiceData.number is copied from
        nops = agg_field_operands(add, NSD, "number")
        nn = set()
        for _, s_, o_ in nops:
            l_ = op_local(o_)
            seen_ = set()
            while l_ is not None and l_ not in seen_:
                seen_.add(l_)
                nxt_ = [st["rv"]["a"][1][0] for blk in add.blocks for st in blk["stmts"] if st["d"] == [l_] and st["rv"]["k"] == "use" and st["rv"]["a"][0] in ("cp", "mv") and len(st["rv"]["a"][1]) == 1]
                if len(nxt_) != 1:
                    break
                l_ = nxt_[0]
            if l_ is not None:
                nn.add(l_)
        ok = False
        how = None
        if nn:
            l = sorted(nn)[0]
            _, calls = backward_calls(add, l)
            names = {c["ncallee"] or "" for c in calls}
            from rules import DROPPING_ADAPTORS
            narrowed = [n for n in names if any(n.endswith(x) or (x + "<") in n for x in DROPPING_ADAPTORS)]
            if narrowed:
                how = "max over a narrowed set of the recorded services (%s)" % narrowed[0].split("::")[-1]
            elif any(n.endswith(("Iterator::max", "Iterator::fold", "Iterator>::fold", "Iterator>::max")) for n in names) and {d for d, r, p in field_reads(add, "number")} | {1}:
                inner = [c for c in F.item(ADD) if c.kind == "closure" and any(p[-1] == ".number" for d, r, p in (prep(c) or field_reads(c, "number")))]
                ok = bool(inner)
                if ok and not any(n.endswith(("Iterator::max", "Iterator>::max")) for n in names):
                    # `fold(0, |highest, node| highest.max(node.number))`: the folding closure takes the maximum
                    ok = any(any(((c_["ncallee"] or "").endswith("::max") and "cmp" in (c_["ncallee"] or "")) for c_ in c.calls) for c in inner)
                how = "max(recorded number) + 1"
            elif any(n.endswith("Vec::len") for n in names):
                # len-based: allowed only if the number never advances without a push
                adv = [b["id"] for b in add.blocks for s in b["stmts"] if s["d"] == [l] and s["rv"]["k"] in ("use", "bin") and b["id"] != 0]
                gd = CallGuard([SC + "install"], ("Ok",), "install Ok")
                n_, acc, rej = gd.edges(add)
                ok = bool(rej) and all(not (g.reach((d,), avoid=pb) & set(adv)) for _, d in rej)
                how = "nodes.len() + 1, never advanced without a push" if ok else "nodes.len() + 1 but a failed install skips a number"
            else:
                rm = _running_max(F, add, l)
                if rm:
                    ok, how = True, rm
        if not ok:
            R.viol("C19.add.number", "number-reuse", "a new service's number (hence its name and data dir) can repeat one already recorded: %s" % (how or "numbering not recognised"), add, add.lines[0])
        R.inst("C19.add.number", "K6 flows-to", "new service numbers cannot collide with recorded ones", 1, ok, {"scheme": how})
        _number_scheme(R, RESTART + "::{closure#0}", "C19.restart.number")
        # name and data dir derive from that number
        ta = Taint(add, through="all")
        num = ta.closure(nn)
        okn = True
        for f in ("service_name", "data_dir_path", "number"):
            ops = agg_field_operands(add, NSD, f)
            if not ops or not all(op_local(o) in num for _, _, o in ops):
                okn = False
                R.viol("C19.add.name", "name-from-number:%s" % f, "NodeServiceData.%s is not derived from the unique service number" % f, add, add.lines[0])
        R.inst("C19.add.name", "K6 flows-to", "service_name, data_dir_path and number derive from the same counter", 3, okn)


def _running_max(F, body, counter):
    """`let mut cur = 0; for n in &registry.nodes { if n.number > cur { cur = n.number } }` — the explicit-loop form of
    max(recorded number): the counter derives from a variable that is (a) assigned a recorded `number` only on the branch where that
    number is greater than the variable, (b) inside a loop over all of `nodes` (no dropping adaptor)."""
    from rules import CmpGuard, loops_over, DROPPING_ADAPTORS
    locs, _ = backward_calls(body, counter)
    g = cfg_of(body)
    numreads = {d for d, r, p in field_reads(body, "number")}
    tn = Taint(body).closure(numreads)
    assigns = []
    for blk in body.blocks:
        if blk["cleanup"]:
            continue
        for st in blk["stmts"]:
            rv = st["rv"]
            if len(st["d"]) == 1 and st["d"][0] in locs and rv["k"] == "use" and rv["a"][0] in ("cp", "mv") and (
                    rv["a"][1][-1] == ".number" or (len(rv["a"][1]) == 1 and rv["a"][1][0] in tn and rv["a"][1][0] not in locs)):
                assigns.append((blk["id"], st["d"][0]))
    if not assigns:
        return None
    loops = loops_over(F, body, lambda names, fields: "nodes" in fields)
    loops = [lp for lp in loops if not [n for n in lp[3] if any(n.endswith(x) or (x + "<") in n for x in DROPPING_ADAPTORS)]]
    if not loops:
        return None
    for bb, cur in assigns:
        gd = CmpGuard(lambda b: numreads, lambda b, cur=cur: {cur}, "Gt", "recorded number > running maximum")
        n_, acc, rej = gd.edges(body)
        if not acc or bb in g.reach((0,), cut=acc):
            return None
        if not any(bb in g.reach(lp[1]) for lp in loops):
            return None
    return "running maximum of the recorded numbers (explicit loop) + 1"


def _save_after_ops(R):
    """cmd::node::{start,stop,remove,upgrade}: a successful ServiceManager operation is followed by registry.save()
    before the next service is touched or the command returns"""
    F = R.F
    CMD = NM + "cmd::node::"
    for cmd, op in (("start", SM + "start"), ("stop", SM + "stop"), ("remove", SM + "remove"), ("upgrade", SM + "upgrade")):
        b = R.body("C19.save." + cmd, CMD + cmd + "::{closure#0}")
        if b is None:
            continue
        prep(b)
        g = cfg_of(b)
        gd = CallGuard([op], ("Ok",), "ServiceManager::%s is Ok" % cmd)
        n_, acc, rej = gd.edges(b)
        sv = set(CallSink(REG + "::save").blocks(b))
        ops = set(CallSink(op).blocks(b))
        rets = {x["id"] for x in b.blocks if x["term"]["k"] == "return"}
        ok = bool(acc) and bool(sv) and all(not (g.reach((d,), avoid=sv) & (rets | ops)) for _, d in acc)
        if not ok:
            R.viol("C19.save." + cmd, "unsaved:%s" % cmd, "cmd::node::%s can move on after a successful %s without saving the registry" % (cmd, cmd), b, b.lines[0])
        R.inst("C19.save." + cmd, "K5 must-follow", "cmd::node::%s: registry.save() follows every successful %s" % (cmd, cmd), len(acc), ok)


def _number_scheme(R, body_path, rule):
    """numbering of a service created outside add_node's loop: must count from max(recorded number)"""
    F = R.F
    b = R.body(rule, body_path)
    if b is None:
        return
    prep(b)
    ops = agg_field_operands(b, NSD, "number")
    ok = bool(ops)
    how = None
    for _, s, o in ops:
        _, calls = backward_calls(b, op_local(o))
        names = {c["ncallee"] or "" for c in calls}
        from rules import DROPPING_ADAPTORS
        narrowed = [n for n in names if any(n.endswith(x) or (x + "<") in n for x in DROPPING_ADAPTORS)]
        if narrowed:
            how = "max over a narrowed set of the recorded services (%s)" % narrowed[0].split("::")[-1]
            ok = False
        elif any(n.endswith("Iterator::max") for n in names):
            how = "max(recorded number) + 1"
        elif any(n.endswith("Vec::len") for n in names):
            how = "nodes.len() + 1"
            ok = False
        else:
            how = "unrecognised"
            ok = False
    if not ok:
        R.viol(rule, "number-reuse:%s" % body_path.split("::")[-2], "%s numbers the new service by %s: it can repeat a recorded number (hence name and data dir) once the registry has a gap" % (body_path, how), b, b.lines[0])
    R.inst(rule, "K6 flows-to", "%s: new service number cannot collide with recorded ones" % body_path.split("::")[-2], len(ops), ok, {"scheme": how})


def _written_variant(body, stmt):
    """variant name of the value a statement writes (directly an aggregate, or a local holding one)"""
    rv = stmt["rv"]
    if rv["k"] == "agg":
        return rv["variant"]
    if rv["k"] == "use" and rv["a"][0] in ("cp", "mv"):
        l = rv["a"][1][0]
        for blk in body.blocks:
            for s in blk["stmts"]:
                if s["d"] == [l] and s["rv"]["k"] == "agg":
                    return s["rv"]["variant"]
    return None


def _agg_ops(body, local):
    out = []
    for blk in body.blocks:
        for s in blk["stmts"]:
            if s["d"] == [local] and s["rv"]["k"] == "agg":
                out.extend(s["rv"]["ops"])
    return out


def _pid_arg(R, rule, body, srcs):
    """the pid handed to on_start is the one the evidence call returned"""
    prep(body)
    ta = Taint(body, through="all")
    ev = ta.closure(call_results(srcs)(body))
    cs = [b for b in body.blocks if b["term"]["k"] == "call" and not b["cleanup"] and callee_matches(b["term"], [SSA + "on_start", NS + "on_start"])]
    ok = bool(cs)
    for b in cs:
        a = op_local(b["term"]["args"][1])
        if a not in ev and not any(op_local(x) in ev for x in _agg_ops(body, a)):
            ok = False
    if not ok:
        R.viol(rule, "pid-source", "the pid given to on_start is not the one reported by the OS / the node", body, body.lines[0])
    R.inst(rule, "K6 flows-to", "on_start(Some(pid)) receives the pid from get_process_pid / node_info", len(cs), ok)


CPA = NM + "helpers::check_port_availability"


def port_count_rule(R):
    """PortRange::validate(count) is Ok only when `count` *equals* the number of ports named: add_node checks exactly the named ports
    against the registry and then hands out port, port+1, … per service — a count larger than the range would hand out ports that were
    never compared with what other services record."""
    F = R.F
    vb = R.body("C19.ports.count", NM + "add_services::config::PortRange::validate")
    if vb is None:
        return
    prep(vb)
    g = cfg_of(vb)
    cnt = Taint(vb, through="all").closure(PL(vb, 1))
    tr = Tracker(vb)
    n, weak = 0, []
    for c in compare_sites(vb):
        la, lb = op_local(c["a"]), op_local(c["b"])
        if (la in cnt) == (lb in cnt):
            continue
        n += 1
        if c["op"] == "Eq":
            tr.seed_bool(c["d"], True)
        elif c["op"] == "Ne":
            tr.seed_bool(c["d"], False)
        else:
            weak.append(c)
    tr.run()
    oks = set(RetSink("Ok", computed=True).blocks(vb))
    ok = n >= 2 and not weak and bool(tr.accept) and bool(oks) and not (oks & g.reach((0,), cut=tr.accept))
    if not ok:
        R.viol("C19.ports.count", "count-not-equal", "PortRange::validate accepts a count that differs from the number of ports named (%s): services beyond the range get ports that were never checked against the registry" % (
            "comparison is %s" % weak[0]["op"] if weak else "Ok reachable without count == number of ports"), vb, (weak[0]["line"] if weak else vb.lines[0]))
    R.inst("C19.ports.count", "K4 gate", "PortRange::validate is Ok only if count == number of ports (single: 1; range: end - start + 1)", n, ok)


def port_rules(R):
    """check_port_availability: every port a service records (node, metrics, RPC) is collected; a requested single port or *every*
    port of a requested range (inclusive: `PortRange::Range(a, b)` means a..=b everywhere else) is compared with them; Ok only if
    none is taken."""
    from flow import backward_calls
    from rules import ForallGuard, closures_passed
    F = R.F
    cp = R.body("C19.ports", CPA)
    if cp is None:
        return
    prep(cp)
    g = cfg_of(cp)
    # (1) the three recorded ports are collected: pushed into the collection, or yielded by a closure of a map/flat_map chain
    tree = [b for b in F.item(CPA)]
    pushes = [b for b in cp.blocks if b["term"]["k"] == "call" and not b["cleanup"] and callee_matches(b["term"], ["alloc::vec::Vec::push"])]
    got = set()

    def fields_behind(body, local):
        locs, calls = backward_calls(body, local)
        out = set()
        for blk in body.blocks:
            for st in blk["stmts"]:
                if st["d"][0] in locs:
                    rv = st["rv"]
                    pl = rv["a"][1] if rv["k"] == "use" and rv["a"][0] in ("cp", "mv") else rv.get("p") if rv["k"] in ("ref", "discr") else None
                    for e in (pl or [])[1:]:
                        if e in (".metrics_port", ".node_port", ".rpc_socket_addr"):
                            out.add(e[1:])
            t = blk["term"]
            if t["k"] == "call" and len(t.get("d") or []) == 1 and t["d"][0] in locs:
                for a in t["args"]:
                    if a[0] in ("cp", "mv"):
                        for e in a[1][1:]:
                            if e in (".metrics_port", ".node_port", ".rpc_socket_addr"):
                                out.add(e[1:])
        return out
    for b in pushes:
        got |= fields_behind(cp, op_local(b["term"]["args"][1]))
    nsrc = len(pushes)
    for cl in tree:
        if cl.kind == "closure" and cl is not cp:
            prep(cl)
            fb = fields_behind(cl, 0)      # what the closure yields
            if fb:
                # every port must reach the yielded sequence through element-preserving combinators only (`a.or(b)` keeps one of two)
                _, cs = backward_calls(cl, 0)
                names = {(c.get("ngen") or c.get("ncallee") or "?") for c in cs}
                KEEP = ("::into_iter", "::chain", "::once", "::port", "::copied", "::cloned", "::iter", "::flatten", "::as_ref", "::clone", "::deref")
                odd = sorted(n for n in names if not n.endswith(KEEP))
                if odd:
                    continue
                nsrc += 1
                got |= fb
    ok1 = got == {"metrics_port", "node_port", "rpc_socket_addr"}
    if not ok1:
        R.viol("C19.ports.collected", "ports-collected", "check_port_availability compares only %s of a recorded service (expected node_port, metrics_port and the RPC port)" % sorted(got), cp, cp.lines[0])
    R.inst("C19.ports.collected", "K6 flows-to", "node, metrics and RPC port of every recorded service take part in the comparison", nsrc, ok1, {"fields": sorted(got)})
    # (2) a range is walked inclusively
    incl = [c for c in cp.calls if (c["ncallee"] or "") == "core::ops::range::RangeInclusive::new"]
    excl = [a for a in cp.aggregates if (a.get("adt") or "").startswith("core::ops::range::Range") and not (a.get("adt") or "").startswith("core::ops::range::RangeInclusive")]
    ok2 = bool(incl) and not excl
    if not ok2:
        R.viol("C19.ports.range", "range-exclusive", "check_port_availability does not walk a requested port range inclusively (start..=end): the last port of the range is not compared", cp, cp.lines[0])
    R.inst("C19.ports.range", "K7 table agreement", "PortRange::Range(a, b) is checked as a..=b", len(incl) + len(excl), ok2)
    # (3) Ok only if no requested port is taken: from the "taken" side of each membership test Ok is unreachable
    MEMBER = ["*core::iter::traits::iterator::Iterator>::any", "core::slice::<impl [T]>::contains", "alloc::vec::Vec::contains", "*::contains"]
    taken = CallGuard(MEMBER, ("true",), "requested port is recorded by a service")
    n, acc, rej = taken.edges(cp)
    acc = set(acc)
    # the membership test may sit in the predicate closure of a find / filter / position / any over the requested port(s):
    # then "found" (Some / true) is the taken side
    tr = Tracker(cp)      # one tracker for all of them: the verdicts of the Single and the Range arm may meet in one variable
    seeded = 0
    for blk in cp.blocks:
        t = blk["term"]
        if t["k"] != "call" or blk["cleanup"] or len(t.get("d") or []) != 1:
            continue
        nm = t.get("ngen") or t.get("ncallee") or ""
        if not nm.endswith(("Iterator::find", "Option::filter", "Iterator::position", "Iterator::any", "Iterator::find_map")):
            continue
        def _member_verdict(cl, depth=2):
            """the bool this closure returns is true only for a recorded port: the membership test itself, or (two levels deep) the verdict
            of a sibling closure / same-crate helper that performs it (`let is_taken = |p| all.iter().any(..); … .find(|i| is_taken(*i))`)"""
            prep(cl)
            if any(callee_matches(b2["term"], MEMBER) for b2 in cl.blocks if b2["term"]["k"] == "call" and not b2["cleanup"]):
                return R.bool_verdict("C19.ports.refuse", cl, CallGuard(MEMBER, ("true",), "requested port is recorded by a service"), "", emit=False)
            if depth == 0:
                return False
            for b2 in cl.blocks:
                t2 = b2["term"]
                if t2["k"] != "call" or b2["cleanup"]:
                    continue
                for hb in F.by_npath.get(t2.get("ncallee") or "", []):
                    if hb.crate == cl.crate and hb is not cl and _member_verdict(hb, depth - 1):
                        if R.bool_verdict("C19.ports.refuse", cl, CallGuard([t2["ncallee"]], ("true",), "requested port is recorded by a service"), "", emit=False):
                            return True
            return False
        inner = [cl for cl in closures_passed(F, cp, t) if _member_verdict(cl)]
        if not inner:
            continue
        n += 1
        seeded += 1
        if nm.endswith("Iterator::any"):
            tr.seed_bool(t["d"][0], True)
        else:
            tr.seed_call_result(t["d"][0], ("Some",), False)
    if seeded:
        tr.run()
        acc |= set(tr.accept)
    oks = set(RetSink("Ok").blocks(cp))
    ok3 = n >= 2 and bool(acc) and all(not (g.reach((d,)) & oks) for _, d in acc)
    if not ok3:
        R.viol("C19.ports.refuse", "taken-port-accepted", "check_port_availability can return Ok although a requested port is recorded by another service (or a membership test is missing: %d found, 2 expected)" % n, cp, cp.lines[0])
    R.inst("C19.ports.refuse", "K4r reject-edge", "a taken port (single, or any of a range) makes the check fail", n, ok3)
