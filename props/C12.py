"""C12 — record and message encodings round-trip and stay wire-stable (structural clauses)."""
import panics  # noqa: F401
import tables as T
from flow import Taint, callee_matches, op_local, prep
from cfg import cfg_of

META = {
    "explanation_more": "Also (round 4): the field / variant order written for every record content type equals the pinned wire layout (records use rmp's positional struct form: C12.layout); decoded chunk bytes always become Ok(Chunk::new(bytes)) (C12.chunk.total); no panic-capable site is reachable from the Deserialize / Visitor impls of anything a Request or Response contains (C12.messages.nopanic).",
    "explanation": "Decides: (1) <RecordKind as Serialize> and <RecordKind as Deserialize> are mutually inverse tables, exhaustive over the "
                   "enum's variants, equal to the pinned wire table, every tag < 128 (so the rmp header is [0x91, tag] = RecordHeader::SIZE "
                   "bytes); (2) writer and readers agree on the header offset: try_serialize_record writes header then payload into one buffer, "
                   "try_deserialize_record slices at RecordHeader::SIZE, from_record reads SIZE+1 bytes, both behind a length test; "
                   "(3) no panic-capable construct is reachable from the record decoders; (4) Chunk's Deserialize constructs only through "
                   "Chunk::new and no other Chunk{..} literal exists in the workspace, so a decoded chunk's address is recomputed. "
                   "Also: the header is encoded and decoded with rmp_serde's default configuration (its 2-byte size depends on it); panic reachability follows format_args! arguments to the Debug/Display impls of the argument's type closure. Not decided: value-level round trip of serde-derived payloads and messages.",
    "not_decided": ["value round trip of serde-derived records and request/response messages (serde / rmp-serde behaviour)"],
    "trusted": ["rmp-serde encodes a struct of one u32<128 as [0x91, tag]"],
}

HDR = "ant_protocol::storage::header::"
KIND = HDR + "RecordKind"
WIRE = {"ChunkWithPayment": 0, "Chunk": 1, "Transaction": 2, "Register": 3, "RegisterWithPayment": 4,
        "Scratchpad": 5, "ScratchpadWithPayment": 6, "TransactionWithPayment": 7}


def run(R):
    codec_rules(R)
    derive_rules(R)
    F = R.F
    names = T.variant_names(F, KIND)
    ser = R.body("C12.tags", "<%s as serde::ser::Serialize>::serialize" % KIND)
    de = R.body("C12.tags", "<%s as serde::de::Deserialize<'de>>::deserialize" % KIND)
    if names is None:
        R.viol("C12.tags", "anchor-missing:RecordKind", "enum RecordKind not found")
    if ser is not None and de is not None and names is not None:
        w = T.switch_table_const_arg(ser, ["*Serializer::serialize_u32"], 1, min_targets=3)
        r = T.switch_table(de, T.m_agg_variant("header::RecordKind"), min_targets=3)
        ok = True
        W = {}
        if not w or not r:
            R.viol("C12.tags", "table-missing", "could not extract the tag tables of RecordKind", ser, ser.lines[0])
            ok = False
        else:
            for idx, tag in w.items():
                if idx == "otherwise":
                    continue
                t = T.int_of_const(tag) if tag else None
                if t is None:
                    ok = False
                    R.viol("C12.tags", "writer-arm:%s" % names.get(idx, idx), "serialize arm of %s does not write a constant u32 tag" % names.get(idx, idx), ser, ser.lines[0])
                else:
                    W[names[idx]] = t
            Rd = {t: v for t, v in r.items() if t != "otherwise" and v is not None}
            for v in names.values():
                if v not in W:
                    ok = False
                    R.viol("C12.tags", "writer-missing:%s" % v, "RecordKind::%s has no serialize arm" % v, ser, ser.lines[0])
                elif Rd.get(W[v]) != v:
                    ok = False
                    R.viol("C12.tags", "not-inverse:%s" % v, "RecordKind::%s is written as tag %s but tag %s is read as %s" % (v, W[v], W[v], Rd.get(W[v])), de, de.lines[0])
            for t, v in Rd.items():
                if W.get(v) != t:
                    ok = False
                    R.viol("C12.tags", "not-inverse-tag:%s" % t, "tag %s is read as %s but %s is written as %s" % (t, v, v, W.get(v)), ser, ser.lines[0])
            if len(set(W.values())) != len(W):
                ok = False
                R.viol("C12.tags", "duplicate-tag", "two RecordKind variants share a tag: %s" % W, ser, ser.lines[0])
            for v, t in W.items():
                if WIRE.get(v) != t:
                    ok = False
                    R.viol("C12.wire", "wire-changed:%s" % v, "RecordKind::%s has tag %s, the pinned wire table says %s" % (v, t, WIRE.get(v)), ser, ser.lines[0])
                if not (0 <= t < 128):
                    ok = False
                    R.viol("C12.wire", "tag-width:%s" % v, "tag %s of %s is not a positive fixint (header would not be %d bytes)" % (t, v, 2), ser, ser.lines[0])
            # unknown tags are an error
            if r.get("otherwise") is not None:
                ok = False
                R.viol("C12.tags", "reader-default", "unknown tag is decoded as RecordKind::%s instead of an error" % r.get("otherwise"), de, de.lines[0])
        R.inst("C12.tags", "K7 table agreement", "RecordKind Serialize/Deserialize tables inverse, exhaustive, pinned, < 128",
               len(W), ok, {"writer": W, "reader": {str(k): v for k, v in (r or {}).items()}, "pinned": WIRE})
        R.must_call("C12.tags.u32", de.path, ["*<impl serde::de::Deserialize<'de> for u32>::deserialize", "*Deserialize>::deserialize"], "reader decodes a u32 tag", 1)

    R.const_rel("C12.size", "RecordHeader::SIZE == 2 ([0x91, fixint tag])", lambda F: (R.const(HDR + "RecordHeader::SIZE") == 2, {"SIZE": R.const(HDR + "RecordHeader::SIZE")}))

    # (2) offsets: readers slice with ranges built from RecordHeader::SIZE
    import panics as P
    for fn, want, what in ((HDR + "try_deserialize_record", ("RangeFrom", [2]), "payload = value[SIZE..]"),
                           (HDR + "RecordHeader::from_record", ("RangeTo", [3]), "header = value[..SIZE+1]")):
        b = R.body("C12.offset", fn)
        if b is None:
            continue
        prep(b)
        env = P.fold_consts(F, b)
        found = []
        for blk in b.blocks:
            for s in blk["stmts"]:
                rv = s["rv"]
                if rv["k"] == "agg" and rv["adt"].startswith("core::ops::range::Range"):
                    found.append((rv["adt"].split("::")[-1], [P._const_int(o, F, env) for o in rv["ops"]]))
        ok = (want[0], want[1]) in found
        if not ok:
            R.viol("C12.offset", "offset:%s" % fn.split("::")[-1], "%s: expected slice %s%s, found %s" % (fn, want[0], want[1], found), b, b.lines[0])
        R.inst("C12.offset", "K9 constant relation", what, len(found), ok, {"ranges": found})
    # writer: header first, then payload, same buffer
    b = R.body("C12.order", HDR + "try_serialize_record")
    if b is not None:
        prep(b)
        g = cfg_of(b)
        hdr = [blk for blk in b.blocks if blk["term"]["k"] == "call" and callee_matches(blk["term"], [HDR + "RecordHeader::try_serialize"])]
        pay = [blk for blk in b.blocks if blk["term"]["k"] == "call" and callee_matches(blk["term"], ["serde::ser::Serialize::serialize"]) and not blk["cleanup"]]
        ok = bool(hdr) and bool(pay)
        if ok:
            ta = Taint(b, through="all")
            t = ta.closure({hdr[0]["term"]["d"][0]})
            for p in pay:
                if not g.dominates(hdr[0]["id"], p["id"]):
                    ok = False
                if not any(op_local(a) in t for a in p["term"]["args"]):
                    ok = False
            ret_ok = 0 in t
            ok = ok and ret_ok
        if not ok:
            R.viol("C12.order", "header-then-payload", "try_serialize_record does not serialise the payload into the buffer that already holds the header", b, b.lines[0])
        R.inst("C12.order", "K6 flows-to", "header bytes precede payload in one buffer that is returned", len(pay), ok)

    # (2b) hand-written Serialize/Deserialize pairs agree on the serde data-model kind
    serde_pairs(R)
    # (3) decoders cannot panic
    R.no_panic_reach("C12.nopanic", [HDR + "RecordHeader::from_record", HDR + "RecordHeader::try_deserialize", HDR + "try_deserialize_record",
                                     HDR + "RecordHeader::is_record_of_type_chunk"], floor_bodies=8)
    # (4) chunk address recomputed
    chunk_rules(R, "C12")
    wire_layout_rule(R)
    chunk_total_rule(R)
    message_decoders_rule(R)


def chunk_rules(R, pfx):
    CH = "ant_protocol::storage::chunks::Chunk"
    R.who_may_construct(pfx + ".chunk-literal", CH, None, [CH + "::new"], floor=1,
                        descr="the only Chunk{..} literal is in Chunk::new (address = hash(value))")
    R.must_call(pfx + ".chunk-de", "ant_protocol::storage::chunks::<impl serde::de::Deserialize<'de> for %s>::deserialize" % CH if False else
                "<%s as serde::de::Deserialize<'de>>::deserialize" % CH, [CH + "::new"], "Chunk's Deserialize builds through Chunk::new")
    R.must_call(pfx + ".chunk-new", CH + "::new", ["*XorName::from_content", "xor_name::XorName::from_content"], "Chunk::new derives the address from the content hash")


SER_KIND = [("Serializer::serialize_u32", "u32"), ("Serializer::serialize_u64", "u64"), ("Serializer::serialize_u8", "u8"), ("Serializer::serialize_bytes", "bytes"),
            ("Serializer::serialize_str", "str"), ("Serialize for bytes::bytes::Bytes>::serialize", "bytes"), ("Serialize for [T]>::serialize", "seq"),
            ("Serialize for alloc::vec::Vec<T>>::serialize", "seq"), ("Serialize for str>::serialize", "str"), ("Serialize for alloc::string::String>::serialize", "str"),
            ("Serializer::collect_seq", "seq"), ("Serializer::collect_str", "str")]
DE_KIND = [("Deserialize<'de> for u32>::deserialize", "u32"), ("Deserialize<'de> for u64>::deserialize", "u64"), ("Deserialize<'de> for u8>::deserialize", "u8"),
           ("Deserialize<'de> for bytes::bytes::Bytes>::deserialize", "bytes"), ("Deserialize<'de> for alloc::vec::Vec<T>>::deserialize", "seq"),
           ("Deserialize<'de> for alloc::string::String>::deserialize", "str"), ("Deserialize<'de> for &'a [u8]>::deserialize", "bytes(borrowed-only)"),
           ("Deserialize<'de> for &'a str>::deserialize", "str(borrowed-only)"), ("Deserialize<'de> for alloc::boxed::Box<[T]>>::deserialize", "seq")]


def serde_pairs(R):
    """every hand-written (non-derive) Serialize impl in the workspace and its Deserialize twin hand the same data-model kind to serde"""
    import re
    F = R.F
    impls = {}
    for b in F.bodies.values():
        if b.kind == "assoc_fn" and b.mac is None and b.trait in ("serde::ser::Serialize", "serde::de::Deserialize") and b.crate != "node_launchpad":
            ty = re.sub(r"<'[a-z_]+>", "", b.self_ty or "")
            impls.setdefault(ty, {})[b.trait.split("::")[-1]] = b
    n = 0
    ok = True
    detail = {}
    for ty, pair in sorted(impls.items()):
        if len(pair) != 2:
            continue
        n += 1
        w = sorted({k for c in pair["Serialize"].calls for pat, k in SER_KIND if (c["ncallee"] or "").endswith(pat)})
        r = sorted({k for c in pair["Deserialize"].calls for pat, k in DE_KIND if (c["ncallee"] or "").endswith(pat)})
        detail[ty] = {"writes": w, "reads": r}
        if not w or not r:
            ok = False
            R.viol("C12.serde-pairs", "unrecognised:%s" % ty, "cannot tell which serde kind the hand-written impls of %s use (writes %s, reads %s)" % (ty, w, r), pair["Serialize"], pair["Serialize"].lines[0])
        elif w != r:
            ok = False
            R.viol("C12.serde-pairs", "kind-mismatch:%s" % ty, "%s is written as %s but read as %s: a value it encodes does not decode" % (ty, w, r), pair["Deserialize"], pair["Deserialize"].lines[0])
    if n < 3:
        ok = False
        R.viol("C12.serde-pairs", "instance-floor", "expected >= 3 hand-written serde pairs (Chunk, RecordKind, PrettyPrintRecordKey), found %d" % n)
    R.inst("C12.serde-pairs", "K7 table agreement", "hand-written Serialize/Deserialize twins use the same serde data-model kind", n, ok, detail)


RMP_DEFAULT = {"rmp_serde::encode::to_vec", "rmp_serde::encode::Serializer::new", "rmp_serde::decode::from_slice", "rmp_serde::decode::from_read",
               "rmp_serde::decode::from_read_ref", "rmp_serde::decode::Deserializer::new", "rmp_serde::decode::Deserializer::from_read_ref",
               "rmp_serde::encode::write", "rmp_serde::encode::Serializer::into_inner", "rmp_serde::encode::Serializer::get_ref",
               "rmp_serde::encode::Serializer::get_mut"}


def codec_rules(R):
    """The fixed-size header relies on rmp_serde's default (compact, array) struct encoding on both sides: `to_vec_named` /
    `with_struct_map` / `with_human_readable` on the header path changes its length, which SIZE and the reader's slice assume.
    (The payload may use any configuration the default reader accepts; it is not judged here.)"""
    F = R.F
    n, odd = 0, []
    HDR = "ant_protocol::storage::header::RecordHeader::"
    for fn in (HDR + "try_serialize", HDR + "try_deserialize", HDR + "from_record", HDR + "is_record_of_type_chunk"):
        for b in F.item(fn):
            for c in b.calls:
                nc = c["ncallee"] or ""
                if nc.startswith("rmp_serde::") and "::Error" not in nc:
                    n += 1
                    if nc not in RMP_DEFAULT:
                        odd.append((b, c))
    for b, c in odd:
        R.viol("C12.codec", "non-default-codec:%s!%s" % (R.root_path(b).split("::")[-1], c["ncallee"].split("::")[-1]),
               "%s uses %s: the 2-byte header (SIZE) is the default compact encoding of a one-field struct; this call changes its length or shape" % (R.root_path(b), c["ncallee"]), b, c["line"])
    if n < 2:
        R.viol("C12.codec", "instance-floor", "only %d rmp_serde call sites found on the header path (floor 2)" % n)
    R.inst("C12.codec", "K1 forbidden-callee", "the record header is encoded and decoded with rmp_serde's default configuration", n, not odd and n >= 2)


SER_ALLOWED = ("core::ops::try_trait::Try>::branch", "core::ops::try_trait::FromResidual", "serde::ser::SerializeStruct::serialize_field", "serde::ser::SerializeStruct::end",
               "serde::ser::SerializeStructVariant::serialize_field", "serde::ser::SerializeStructVariant::end", "serde::ser::SerializeTupleStruct::serialize_field",
               "serde::ser::SerializeTupleStruct::end", "serde::ser::SerializeTupleVariant::serialize_field", "serde::ser::SerializeTupleVariant::end",
               "serde::ser::SerializeTuple::serialize_element", "serde::ser::SerializeTuple::end", "serde::ser::Serializer::serialize_")
WORKSPACE = ("ant_", "evmlib::", "autonomi::", "antnode::", "antctl::")


def derive_rules(R):
    """The derive-generated codecs of the record payload types (and everything else in the protocol / payment / register crates) are
    the plain field-by-field ones: no field is skipped, defaulted or routed through a custom `with` module on one side, and no two
    variants of an enum share a wire name.  (Such attributes change what is written or what is accepted on one side only, so a
    value no longer decodes to an equal value.)"""
    F = R.F
    n, bad = 0, []
    for p_, b in F.bodies.items():
        if b.crate not in ("ant_protocol", "ant_evm", "ant_registers") or b.mac not in ("Serialize", "Deserialize"):
            continue
        n += 1
        for c in b.calls:
            nc = c["ncallee"] or c.get("ngen") or ""
            if b.mac == "Serialize":
                if not any(a in nc for a in SER_ALLOWED):
                    bad.append((b, c, "the derived Serialize impl calls %s" % nc))
            else:
                free_ws = nc.startswith(WORKSPACE) and not nc.startswith("<")
                if free_ws or nc.endswith("core::default::Default>::default") or nc == "core::default::Default::default":
                    bad.append((b, c, "the derived Deserialize impl calls %s" % nc))
    seen = set()
    for b, c, why in bad:
        key = (R.root_path(b), why)
        if key in seen:
            continue
        seen.add(key)
        R.viol("C12.derive.plain", "custom-field-codec:%s" % R.root_path(b).split(" as ")[0].lstrip("<").split("::")[-1],
               "%s: %s (a skipped / defaulted / custom-encoded field: the two directions no longer agree field by field)" % (R.root_path(b), why), b, c["line"])
    if n < 40:
        R.viol("C12.derive.plain", "instance-floor", "only %d derive-generated serde bodies found (floor 40)" % n)
    R.inst("C12.derive.plain", "K1 forbidden-callee", "derive-generated Serialize/Deserialize impls are plain field-by-field codecs", n, not bad and n >= 40)
    # unique wire names per enum
    dup, ne = [], 0
    for p_, b in F.bodies.items():
        if b.crate not in ("ant_protocol", "ant_evm", "ant_registers") or b.mac != "Serialize":
            continue
        names = []
        for c in b.calls:
            nc = c["ncallee"] or c.get("ngen") or ""
            if nc.endswith(("serialize_unit_variant", "serialize_newtype_variant", "serialize_struct_variant", "serialize_tuple_variant")):
                ks = [k[1] for k in (c.get("consts") or []) if isinstance(k[1], str) and k[1].startswith('"')]
                if len(ks) >= 2:
                    names.append(ks[1])
        if names:
            ne += 1
            d = sorted({x for x in names if names.count(x) > 1})
            if d:
                dup.append((b, d))
    for b, d in dup:
        R.viol("C12.derive.names", "duplicate-variant-name:%s" % R.root_path(b).split(" as ")[0].lstrip("<").split("::")[-1], "%s writes two variants under the same wire name %s" % (R.root_path(b), d), b, b.lines[0])
    R.inst("C12.derive.names", "K7 table agreement", "no enum writes two variants under one wire name", ne, not dup)


def wire_layout_rule(R):
    """Records are encoded with rmp_serde's compact form: a struct is an array of its fields in declaration order.  Re-ordering, adding
    or dropping a field of a record content type changes the bytes every other build reads — same statement as the pinned kind tags,
    one level down.  The order the derive-generated Serialize writes is compared with the pinned table (props/C12_wire_layout.json)."""
    import json, os, serdepair
    pin = json.load(open(os.path.join(os.path.dirname(os.path.abspath(__file__)), "C12_wire_layout.json")))
    now = serdepair.wire_layout(R.F, pin["roots"])
    ok = True
    for a, want in sorted(pin["layout"].items()):
        got = now.get(a)
        if got != want:
            ok = False
            R.viol("C12.layout", "layout:%s" % a.split("::")[-1], "%s is written as %s but the pinned wire layout is %s: a record encoded by this build does not decode (or decodes to other "
                   "values) on a node built from the pinned layout" % (a, got, want))
    for a in sorted(set(now) - set(pin["layout"])):
        ok = False
        R.viol("C12.layout", "layout-new:%s" % a.split("::")[-1], "%s (%s) is now part of a record's encoding but not of the pinned wire layout" % (a, now[a]))
    R.inst("C12.layout", "K7 table agreement (pinned)", "field / variant order written for every record content type equals the pinned wire layout", len(now), ok and len(now) >= 10, {"types": sorted(now)})


def chunk_total_rule(R):
    """Every value a chunk encodes to decodes again: once the inner byte-string decode succeeded, <Chunk as Deserialize>::deserialize
    answers Ok(Chunk::new(bytes)) — it has no refusal of its own (an `if value.is_empty() { Err }` breaks the round trip for that value)."""
    de = R.body("C12.chunk.total", "<ant_protocol::storage::chunks::Chunk as serde::de::Deserialize<'de>>::deserialize")
    if de is None:
        return
    from rules import CallGuard, RetSink
    prep(de)
    g = cfg_of(de)
    inner = CallGuard(["serde::de::Deserialize::deserialize", "*::deserialize"], ("Ok",), "the inner decode of the bytes is Ok")
    n, acc, rej = inner.edges(de)
    oks = set(RetSink("Ok", computed=True).blocks(de))
    rets = {b["id"] for b in de.blocks if b["term"]["k"] == "return"}
    from rules import final_edges
    ok = bool(acc) and bool(oks)
    if ok:
        starts = tuple(d for _, d in final_edges(g, acc))
        ok = not (g.reach(starts, avoid=oks) & rets)
    if not ok:
        R.viol("C12.chunk.total", "chunk-refused", "<Chunk as Deserialize>::deserialize can refuse bytes that decoded (or does not build the chunk from them): a chunk value exists whose "
               "encoding does not decode", de, de.lines[0])
    R.inst("C12.chunk.total", "K5 must-follow", "decoded bytes always become Ok(Chunk::new(bytes))", n, ok)


def message_decoders_rule(R):
    """Request / response messages arrive through libp2p's CBOR codec, i.e. through the Deserialize / Visitor impls of everything a
    Request or Response can contain.  None of those impls written in (or derived for) the workspace reaches a panic-capable site."""
    F = R.F
    roots = ["ant_protocol::messages::Request", "ant_protocol::messages::Response"]
    missing = [r for r in roots if r not in F.adts]
    for r in missing:
        R.viol("C12.messages.nopanic", "anchor-missing:%s" % r, "message type not found: %s" % r)
    clo = panics.type_closure(F, [r for r in roots if r in F.adts])
    entries = []
    for b in F.bodies.values():
        if b.trait in panics.DESER_TRAITS[:3] and b.self_ty and b.kind == "assoc_fn" and any(a in b.self_ty for a in clo):
            entries.append(b.path)
    entries = sorted(set(entries))
    if entries:
        R.no_panic_reach("C12.messages.nopanic", entries, descr="no panic-capable site reachable from the Deserialize / Visitor impls of anything a Request or Response contains (%d types, %d impl fns)" % (len(clo), len(entries)),
                         floor_bodies=60)
    else:
        R.viol("C12.messages.nopanic", "instance-floor", "no Deserialize impls found under Request / Response")
