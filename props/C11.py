"""C11 — all distance computations agree with one XOR metric over hashed addresses (structural clauses)."""
import tables as T
from cfg import cfg_of
from flow import Taint, Tracker, callee_matches, field_reads, op_local, prep, backward
from rules import CallGuard, CallSink, CmpGuard, RetSink, AggSink, BlockSink, compare_sites
from rules import PL
from props.C04 import call_results, TRK
from panics import LOG_MACROS

META = {
    "explanation_r6": 'Also (round 6): get_peers_in_range decides each peer by its own distance — no order-dependent adaptor (take_while, take, skip, …) and no early exit (C11.range.pointwise).',
    "explanation_more": "Also (round 5): the K closest local peers are cut from a distance-ordered sequence — the routing table's iterator for this node's own key, or a sort that no take/truncate precedes (C11.kclosest).",
    "explanation_more2": 'Also (round 4): every routing-table peer within the responsible range is a replication candidate — none is cut away before or after the range filter (C09.candidates.* as C11.replicate.*).',
    "explanation": "Decides: (1) one metric: KBucketKey::distance is called only from NetworkAddress::distance, sort_peers_by_key and the two "
                   "bucket-index computations of network_discovery (which only take ilog2 to pick a k-bucket); keys are built only by "
                   "as_kbucket_key (KBucketKey::new(as_bytes())) / KBucketKey::from(PeerId); no XorName ordering/XOR is used anywhere; "
                   "(2) one conversion: a Distance is turned into a U256 only inside convert_distance_to_u256, and every U256 range "
                   "comparison against a distance takes its operand from it; (3) as_bytes and to_record_key use the same byte source per "
                   "NetworkAddress variant, so a typed address and its raw record key hash the same bytes; (4) polarity: in-range filters "
                   "use <=, sorts are ascending (a before b) and take(n) follows the sort. Also: reference point — in each closeness-deciding function (get_replicate_candidates, get_peers_in_range, the record store's distance bookkeeping, the replication fetcher, calculate_get_closest_peers) every distance is measured from that function's own target / self address, also through closure captures. Not decided: that the integer equals "
                   "SHA-256-XOR big-endian (libp2p internals and the Debug-string conversion are value-level).",
    "not_decided": ["the numeric value of the distance (libp2p KBucketKey hashing, Distance Debug format parsed by convert_distance_to_u256)",
                    "sort_peers_by_key compares CLOSE_GROUP_SIZE (not expected_entries) with peers.len(): the statement is ambiguous, not armed"],
}

KD = "libp2p_kad::kbucket::key::Key::distance"
NAD = "ant_protocol::NetworkAddress::distance"
CONV = "ant_protocol::convert_distance_to_u256"
NA = "ant_protocol::NetworkAddress"


def run(R):
    # what the network layer hands out as "the closest peers" is the sorted, size-checked list: an answer is produced only from a
    # successful sort_peers_by_address (which refuses a list shorter than the close group), never from the raw look-up result
    # storage challenge: the chunks expected from a peer are the closest to the *target* among ALL candidates — the list sorted by
    # closeness to self is re-sorted by distance to the target without being cut down in between
    sc = R.body("C11.challenge.whole", "ant_node::node::Node::storage_challenge::{closure#0}")
    if sc is not None:
        prep(sc)
        g_ = cfg_of(sc)
        sorts = [b for b in sc.blocks if b["term"]["k"] == "call" and not b["cleanup"] and (b["term"].get("ncallee") or "").endswith("::sort_by_key")]
        okc = len(sorts) >= 2
        if okc:
            ta_ = Taint(sc, through="all")
            vec = set()
            for b in sorts:
                r_ = op_local(b["term"]["args"][0])
                vec |= backward(sc, r_)          # the slice handed to sort_by_key comes from `&mut vec` through DerefMut
            refs = ta_.closure(vec)
            first, last = sorts[0]["id"], sorts[-1]["id"]
            between = g_.reach((first,)) & {b["id"] for b in sc.blocks if last in g_.reach((b["id"],))}
            SHRINK = ("::truncate", "::retain", "::drain", "::split_off", "::pop", "::remove", "::clear", "::dedup", "::swap_remove")
            cutters = [b for b in sc.blocks if b["id"] in between and b["term"]["k"] == "call" and not b["cleanup"] and (b["term"].get("ncallee") or "").startswith("alloc::vec::Vec::")
                       and (b["term"].get("ncallee") or "").endswith(SHRINK) and op_local(b["term"]["args"][0]) in refs]
            if cutters:
                okc = False
                R.viol("C11.challenge.whole", "candidates-cut:%s" % cutters[0]["term"]["ncallee"].split("::")[-1], "storage_challenge shortens the candidate list (%s) between sorting by closeness to self and re-sorting by distance to the target: the chunks nearest the target need not be among those nearest to self" % cutters[0]["term"]["ncallee"], sc, cutters[0]["term"]["l"])
        else:
            R.viol("C11.challenge.whole", "anchor-missing:two-sorts", "storage_challenge no longer sorts its candidates by closeness to self and then by distance to the target", sc, sc.lines[0])
        R.inst("C11.challenge.whole", "K2 mutator whitelist", "the candidate list is not shortened between the two sorts of storage_challenge", len(sorts), okc)
    gc = R.body("C11.closest.sorted", "ant_networking::Network::get_all_close_peers_in_range_or_close_group::{closure#0}")
    if gc is not None:
        R.gate("C11.closest.sorted", gc, RetSink("Ok", computed=True),
               [[CallGuard(["ant_networking::sort_peers_by_address"], ("Ok",), "sort_peers_by_address is Ok")]],
               descr="get_all_close_peers_in_range_or_close_group answers Ok only with the result of a successful sort_peers_by_address")
        prep(gc)
        sp_ = Taint(gc, through="all").closure(call_results(["ant_networking::sort_peers_by_address"])(gc))
        oks_ = [st for b in gc.blocks if not b["cleanup"] for st in b["stmts"] if st["d"] == [0] and st["rv"]["k"] == "agg" and st["rv"].get("variant") == "Ok" and not st.get("norm")]
        okv_ = bool(oks_) and all(op_local(st["rv"]["ops"][0]) in sp_ for st in oks_)
        if not okv_:
            R.viol("C11.closest.sorted", "unsorted-answer", "get_all_close_peers_in_range_or_close_group can answer with a list that is not the sorted result", gc, gc.lines[0])
        R.inst("C11.closest.sorted.value", "K6 flows-to", "the list answered derives from sort_peers_by_address", len(oks_), okv_)
    # the closeness comparisons of the fetcher's full-node bound and of the store's eviction are decided under C08 / C10; this
    # property ("one distance metric, used consistently for every closeness decision") is answerable for them as well
    import props.C08 as _C08
    import props.C10 as _C10
    R.import_rules("C08", _C08.run, ["C08.admit", "C08.shrink"], "C11.fetcher")
    R.import_rules("C10", _C10.run, ["C10.prune", "C10.put.prune"], "C11.evict")
    # "choosing replication candidates ... filters exactly as this integer does": every routing-table peer within the range is a
    # candidate, none is cut away before or after the range filter (rule of C09)
    import props.C09 as _C09
    R.import_rules("C09", _C09.run, ["C09.candidates"], "C11.replicate")
    F = R.F
    refpoint_rules(R)
    order_and_endian_rules(R)
    # (1) one metric
    R.who_may_call("C11.metric", [KD], [NAD, "ant_networking::sort_peers_by_key",
                                        "ant_networking::network_discovery::NetworkDiscovery::generate_candidates",
                                        "ant_networking::network_discovery::NetworkDiscovery::handle_get_closest_query"], floor=4,
                   descr="KBucketKey::distance only in NetworkAddress::distance, sort_peers_by_key and bucket-index selection")
    # the two discovery sites only take ilog2 (bucket index), no closeness decision
    okb = True
    nb = 0
    for fn in ("generate_candidates", "handle_get_closest_query"):
        for b in F.item("ant_networking::network_discovery::NetworkDiscovery::" + fn):
            prep(b)
            for blk in b.blocks:
                t = blk["term"]
                if t["k"] == "call" and callee_matches(t, [KD]):
                    nb += 1
                    ta = Taint(b)
                    d = ta.closure({t["d"][0]})
                    uses = [x["term"]["ncallee"] for x in b.blocks if x["term"]["k"] == "call" and not x["cleanup"] and x["term"]["args"] and
                            any(op_local(a) in d for a in x["term"]["args"]) and x is not blk]
                    cmpd = [c for c in compare_sites(b) if op_local(c["a"]) in d or op_local(c["b"]) in d]
                    if cmpd or not uses or not all((u or "").endswith("Distance::ilog2") for u in uses):
                        okb = False
                        R.viol("C11.metric.bucket", "bucket-index:%s" % fn, "network_discovery::%s uses a raw KBucketKey distance for more than ilog2()" % fn, b, t["l"])
    R.inst("C11.metric.bucket", "K6 flows-to", "raw KBucketKey distances in network_discovery feed only ilog2()", nb, okb and nb >= 2)
    nad = R.body("C11.metric.def", NAD)
    if nad is not None:
        prep(nad)
        ks = [b for b in nad.blocks if b["term"]["k"] == "call" and callee_matches(b["term"], ["ant_protocol::NetworkAddress::as_kbucket_key"])]
        ok = len(ks) == 2
        if not ok:
            R.viol("C11.metric.def", "distance-def", "NetworkAddress::distance is not as_kbucket_key(self).distance(as_kbucket_key(other))", nad, nad.lines[0])
        R.inst("C11.metric.def", "K1 must-call", "distance(a,b) = as_kbucket_key(a).distance(as_kbucket_key(b))", len(ks), ok)
    kk = R.body("C11.metric.key", "ant_protocol::NetworkAddress::as_kbucket_key")
    if kk is not None:
        prep(kk)
        ta = Taint(kk, through="all")
        ab = ta.closure(call_results(["ant_protocol::NetworkAddress::as_bytes"])(kk))
        nk = [b for b in kk.blocks if b["term"]["k"] == "call" and callee_matches(b["term"], ["libp2p_kad::kbucket::key::Key::new"])]
        ok = bool(nk) and all(op_local(b["term"]["args"][0]) in ab for b in nk)
        if not ok:
            R.viol("C11.metric.key", "kbucket-key", "as_kbucket_key is not KBucketKey::new(self.as_bytes())", kk, kk.lines[0])
        R.inst("C11.metric.key", "K6 flows-to", "as_kbucket_key = KBucketKey::new(as_bytes())", len(nk), ok)
    R.who_may_call("C11.metric.keynew", ["libp2p_kad::kbucket::key::Key::new"], ["ant_protocol::NetworkAddress::as_kbucket_key"], floor=1,
                   descr="KBucketKey::new(bytes) only in as_kbucket_key")
    # no XorName metric anywhere
    bad = []
    for b in F.bodies.values():
        for c in b.calls_raw:
            n = c["ncallee"] or ""
            if "cmp_distance" in n or ("BitXor" in n and "XorName" in n) or ("xor_name" in n and n.endswith("::bitxor")):
                bad.append((b, c))
    for b, c in bad:
        R.viol("C11.metric.xorname", "xorname-metric:%s" % R.root_path(b), "%s uses XorName's own ordering/XOR (%s) instead of the KBucketKey metric" % (R.root_path(b), c["ncallee"]), b, c["line"])
    R.inst("C11.metric.xorname", "K1 forbidden-callee", "no XorName::cmp_distance / BitXor anywhere in the workspace", len(F.bodies), not bad)

    # (2) one conversion
    sites = []
    for b in F.bodies.values():
        for c in b.calls_raw:
            if (c["ncallee"] or "").endswith("Argument::new_debug") and "kbucket::key::Distance" in c["targs"] and "BTreeMap" not in c["targs"]:
                sites.append((b, c))
    okc = True
    for b, c in sites:
        root = R.root_path(b)
        if root == CONV or c["mac"] in LOG_MACROS or (b.trait or "").endswith("fmt::Debug"):
            continue
        okc = False
        R.viol("C11.convert", "second-conversion:%s" % root, "%s formats a Distance outside convert_distance_to_u256 (a second Distance→number path)" % root, b, c["line"])
    if not any(R.root_path(b) == CONV for b, _ in sites):
        okc = False
        R.viol("C11.convert", "anchor-missing:convert", "convert_distance_to_u256 no longer formats the Distance")
    R.inst("C11.convert", "K1 who-may-call", "Distance is rendered to a number only in convert_distance_to_u256", len(sites), okc)
    # range comparisons take their operand from the conversion
    n = 0
    okr = True
    FNS = ["ant_networking::cmd::get_peers_in_range", "ant_node::node::Node::calculate_get_closest_peers",
           "ant_networking::replication_fetcher::ReplicationFetcher::add_keys"]
    for fn in FNS:
        found = False
        for b in F.item(fn):
            prep(b)
            ta = Taint(b)
            conv = ta.closure(call_results([CONV])(b))
            dist = Taint(b, through="all").closure(call_results([NAD])(b))
            for c in compare_sites(b):
                la, lb = op_local(c["a"]), op_local(c["b"])
                tys = (b.locals.get(str(la), ""), b.locals.get(str(lb), ""))
                if not any("Uint<256" in t for t in tys):
                    continue
                if la in dist or lb in dist:
                    n += 1
                    found = True
                    side_ok = (la in conv and c["op"] == "Le") or (lb in conv and c["op"] == "Ge")
                    if not side_ok:
                        okr = False
                        R.viol("C11.range", "range-polarity:%s" % fn.split("::")[-1], "%s: range test is not convert_distance_to_u256(distance) <= range" % fn, b, c["line"])
        if not found:
            okr = False
            R.viol("C11.range", "range-missing:%s" % fn.split("::")[-1], "%s has no U256 range comparison fed by convert_distance_to_u256" % fn)
    R.inst("C11.range", "K10 polarity", "in-range tests are convert_distance_to_u256(distance) <= range", n, okr and n >= 3)
    # ... and a peer's membership is decided pointwise, by its own distance alone: nothing in get_peers_in_range stops at, skips to or
    # counts elements of the list it is given (seed C11-r6: `take_while(distance <= range)` returns the in-range *prefix* — the answer
    # depends on the order of the slice, not on the metric)
    ORDER_DEPENDENT = ("::take_while", "::skip_while", "::map_while", "::take", "::skip", "::step_by", "::nth", "::last", "::find", "::find_map", "::position", "::rev",
                       "::first", "::split_first", "::split_last", "::split_at", "::windows", "::chunks", "::partition_point", "::binary_search_by", "::binary_search_by_key")
    gp = F.item("ant_networking::cmd::get_peers_in_range")
    bad = [(b, c) for b in gp for c in b.calls_raw if (c["ncallee"] or c["ngen"] or "").endswith(ORDER_DEPENDENT)]
    brk = 0
    from rules import loop_early_exits
    for b in gp:
        prep(b)
        for nid, (starts, common, rb) in loop_early_exits(b).items():
            if common:
                brk += 1
                R.viol("C11.range.pointwise", "loop-stops-early", "get_peers_in_range leaves its loop over the peers early: peers behind that point are never tested against the range", b, b.lines[0])
    for b, c in bad:
        R.viol("C11.range.pointwise", "order-dependent:%s" % (c["ncallee"] or c["ngen"]).split("::")[-1], "get_peers_in_range walks the peers through %s: which peers are returned depends on the order of the "
               "list, not on each peer's distance alone" % (c["ncallee"] or c["ngen"]).split("::")[-1], b, c.get("l") or b.lines[0])
    R.inst("C11.range.pointwise", "K1 forbidden callee", "get_peers_in_range decides each peer by its own distance (no order-dependent adaptor, no early exit)", sum(len(b.calls_raw) for b in gp), bool(gp) and not bad and not brk)
    # conversion is applied to the same two addresses that are being compared (target vs candidate)
    # (3) typed / raw byte source
    ab = R.body("C11.addr-table", "ant_protocol::NetworkAddress::as_bytes")
    rk = R.body("C11.addr-table", TRK)
    if ab is not None and rk is not None:
        ta_, _ = T.arm_targets(F, ab, NA, min_frac=0.5)
        tb_, _ = T.arm_targets(F, rk, NA, min_frac=0.5)
        ok = bool(ta_) and bool(tb_)
        tab = {}
        if ok:
            ga, gb = cfg_of(ab), cfg_of(rk)
            mk = T.m_call_name(["*::xorname"])
            for v in (T.variant_names(F, NA) or {}).values():
                a = T.follow(ga, ta_[v][0], mk, limit=4) if v in ta_ else "missing"
                b = T.follow(gb, tb_[v][0], mk, limit=4) if v in tb_ else "missing"
                tab[v] = (a, b)
                if a != b:
                    ok = False
                    R.viol("C11.addr-table", "byte-source:%s" % v, "NetworkAddress::%s: as_bytes uses %s, to_record_key uses %s" % (v, a, b), ab, ab.lines[0])
        R.inst("C11.addr-table", "K7 table agreement", "typed address and raw record key hash the same bytes per variant", len(tab), ok)
    frk = R.body("C11.from-key", "ant_protocol::NetworkAddress::from_record_key")
    if frk is not None:
        ok = any(a["variant"] == "RecordKey" for a in frk.aggregates)
        if not ok:
            R.viol("C11.from-key", "from-record-key", "from_record_key no longer wraps the raw key bytes as NetworkAddress::RecordKey", frk, frk.lines[0])
        R.inst("C11.from-key", "K3 who-may-construct", "from_record_key wraps the raw key bytes (hashed as-is by as_bytes)", 1, ok)

    # (4) sorts ascending, take after sort
    sp = R.body("C11.sort.peers", "ant_networking::sort_peers_by_key")
    if sp is not None:
        prep(sp)
        g = cfg_of(sp)
        ok = False
        for c in F.item("ant_networking::sort_peers_by_key"):
            if c.kind != "closure":
                continue
            prep(c)
            for blk in c.blocks:
                t = blk["term"]
                if t["k"] == "call" and (t["ngen"] or "").endswith("cmp::Ord::cmp"):
                    ba = backward(c, op_local(t["args"][0])) & {2, 3}
                    bb = backward(c, op_local(t["args"][1])) & {2, 3}
                    ok = ba == {2} and bb == {3} and t["d"] == [0]
        srt = [b["id"] for b in sp.blocks if b["term"]["k"] == "call" and callee_matches(b["term"], ["alloc::slice::<impl [T]>::sort_by"])]
        tk = [b["id"] for b in sp.blocks if b["term"]["k"] == "call" and callee_matches(b["term"], ["core::iter::traits::iterator::Iterator::take"])]
        ok = ok and bool(srt) and bool(tk) and g.dominates(srt[0], tk[0])
        if ok:
            # take(expected_entries)
            ok = op_local(g.term(tk[0])["args"][1]) in Taint(sp).closure(PL(sp, 2))
        if not ok:
            R.viol("C11.sort.peers", "sort-take", "sort_peers_by_key is not: sort ascending by distance, then take(expected_entries)", sp, sp.lines[0])
        R.inst("C11.sort.peers", "K10 polarity", "sort_by(a.dist.cmp(b.dist)) dominates take(expected_entries)", len(srt), ok)
        # the distance sorted on is key.distance(peer)
        ta = Taint(sp, through="all")
        d = ta.closure(call_results([KD])(sp))
        ps = [b for b in sp.blocks if b["term"]["k"] == "call" and callee_matches(b["term"], ["alloc::vec::Vec::push"]) and not b["cleanup"]]
        okd = bool(ps) and all(op_local(b["term"]["args"][1]) in d for b in ps)
        nsrc = len(ps)
        if not ps:
            # map/collect form: the sorted vector is collected from a `map` whose closure yields (peer, key.distance(peer))
            from rules import closures_passed
            srtb = [b for b in sp.blocks if b["term"]["k"] == "call" and not b["cleanup"] and callee_matches(b["term"], ["alloc::slice::<impl [T]>::sort_by", "alloc::slice::<impl [T]>::sort_by_key"])]
            for mb in [b for b in sp.blocks if b["term"]["k"] == "call" and not b["cleanup"] and (b["term"].get("ngen") or "").endswith("Iterator::map")]:
                for cl in closures_passed(F, sp, mb["term"]):
                    prep(cl)
                    kd = Taint(cl, through="all").closure(call_results([KD])(cl))
                    if 0 in kd and srtb and all(op_local(sb["term"]["args"][0]) in ta.closure({mb["term"]["d"][0]}) or
                                                   (ta.ref_of.get(op_local(sb["term"]["args"][0]), set()) & ta.closure({mb["term"]["d"][0]})) for sb in srtb):
                        okd = True
                        nsrc += 1
        if not okd:
            R.viol("C11.sort.peers.key", "sort-key", "sort_peers_by_key does not sort by key.distance(peer)", sp, sp.lines[0])
        R.inst("C11.sort.peers.key", "K6 flows-to", "sorted tuples carry key.distance(peer)", nsrc, okd)
    cg = R.body("C11.sort.closest", "ant_node::node::Node::calculate_get_closest_peers")
    if cg is not None:
        prep(cg)
        g = cfg_of(cg)
        srt = [b["id"] for b in cg.blocks if b["term"]["k"] == "call" and callee_matches(b["term"], ["alloc::slice::<impl [T]>::sort_by_key"])]
        tk = [b["id"] for b in cg.blocks if b["term"]["k"] == "call" and callee_matches(b["term"], ["core::iter::traits::iterator::Iterator::take"])]
        keyf = [c for c in F.item(cg.path) if c.kind == "closure" and any(x["ncallee"] == NAD for x in c.calls) and
                any(b["term"]["k"] == "call" and callee_matches(b["term"], [NAD]) and b["term"]["d"] == [0] for b in (prep(c) or c.blocks))]
        ok = bool(srt) and bool(tk) and bool(keyf) and any(g.dominates(s, t) for s in srt for t in tk)
        if ok:
            ok = any(op_local(g.term(t)["args"][1]) in Taint(cg, through="all").closure(PL(cg, 2)) for t in tk)
        if not ok:
            R.viol("C11.sort.closest", "sort-take", "calculate_get_closest_peers(num) is not sort_by_key(target.distance) then take(num)", cg, cg.lines[0])
        R.inst("C11.sort.closest", "K10 polarity", "closest-N = sort_by_key(target.distance(addr)) then take(num_of_peers)", len(srt), ok)


# ------------------------------------------------------------------ reference point of closeness decisions
REF_EXTRA = ["ant_protocol::NetworkAddress::from_peer", "ant_protocol::NetworkAddress::as_kbucket_key", "libp2p_kad::kbucket::key::Key::from",
             "*as core::convert::From<libp2p_identity::peer_id::PeerId>>::from"]
SD = "ant_networking::cmd::<impl ant_networking::driver::SwarmDriver>::"
NRS_ = "ant_networking::record_store::NodeRecordStore"
RF_ = "ant_networking::replication_fetcher::ReplicationFetcher::"
# function -> (kind, what): the address every distance in that function (and its closures) is measured from
REFPOINTS = {
    SD + "get_replicate_candidates": ("param", 1, "target"),
    "ant_networking::cmd::get_peers_in_range": ("param", 1, "address"),
    NRS_ + "::with_config": ("param", 0, "local_id"),
    NRS_ + "::calculate_farthest": ("field", "local_address", "self.local_address"),
    NRS_ + "::prune_records_if_needed": ("field", "local_address", "self.local_address"),
    NRS_ + "::mark_as_stored": ("field", "local_address", "self.local_address"),
    "<%s as libp2p_kad::record::store::RecordStore>::remove" % NRS_: ("field", "local_address", "self.local_address"),
    RF_ + "add_keys": ("field", "self_peer_id", "self.self_peer_id"),
    RF_ + "set_farthest_on_full": ("field", "self_peer_id", "self.self_peer_id"),
    RF_ + "next_keys_to_fetch": ("field", "self_peer_id", "self.self_peer_id"),
    "ant_node::node::Node::calculate_get_closest_peers": ("param", 1, "target"),
}
# calls that take the reference point as an argument: callee -> argument index
REF_ARG = {NAD: 0, "ant_protocol::NetworkAddress::as_kbucket_key": 0, "ant_networking::cmd::get_peers_in_range": 1}


def ref_locals(F, body, spec, _depth=0):
    """locals of `body` that hold (a copy of / reference to / address built from) the reference point"""
    prep(body)
    ta = Taint(body, extra_transparent=REF_EXTRA)
    if body.kind == "closure" and body.parent and _depth < 4:
        parent = F.body(body.parent)
        if parent is None:
            return set()
        ps = ref_locals(F, parent, spec, _depth + 1)
        seeds = set()
        for blk in parent.blocks:
            for st in blk["stmts"]:
                rv = st["rv"]
                if rv["k"] == "agg" and rv.get("ak") == "closure" and rv.get("adt") == body.path:
                    for k, o in enumerate(rv["ops"]):
                        if op_local(o) in ps:
                            tag = ".upv%d" % k
                            for b2 in body.blocks:
                                for s2 in b2["stmts"]:
                                    r2 = s2["rv"]
                                    pl = r2["a"][1] if r2["k"] == "use" and r2["a"][0] in ("cp", "mv") else r2.get("p") if r2["k"] in ("ref",) else None
                                    if pl and tag in pl:
                                        seeds.add(s2["d"][0])
                                t2 = b2["term"]
                                if t2["k"] == "call":
                                    for a in t2["args"]:
                                        if a[0] in ("cp", "mv") and tag in a[1]:
                                            seeds.add(("arg", b2["id"], t2["args"].index(a)))
        direct = {x for x in seeds if isinstance(x, tuple)}
        own = {d for d, r, p in field_reads(body, spec[1])} if spec[0] == "field" else set()   # `self` captured, field read inside the closure
        out = ta.closure({x for x in seeds if not isinstance(x, tuple)} | own)
        return out | direct
    kind = spec[0]
    if kind == "param":
        return ta.closure(PL(body, spec[1]))
    return ta.closure({d for d, r, p in field_reads(body, spec[1])})


def refpoint_rules(R):
    F = R.F
    n_sites, n_fns = 0, 0
    ok_all = True
    for fn, spec in REFPOINTS.items():
        root = R.body("C11.refpoint", fn)
        if root is None:
            ok_all = False
            continue
        n_fns += 1
        found = 0
        for b in F.item(fn):
            prep(b)
            refs = ref_locals(F, b, spec)
            for blk in b.blocks:
                t = blk["term"]
                if t["k"] != "call" or blk["cleanup"] or t.get("mac") in LOG_MACROS:
                    continue
                nc = t["ncallee"] or ""
                if nc not in REF_ARG:
                    continue
                idx = REF_ARG[nc]
                def is_ref(i):
                    a = t["args"][i]
                    return op_local(a) in refs or ("arg", blk["id"], i) in refs
                if nc == NAD:
                    found += 1
                    # symmetric metric: one of the two operands must be the reference point
                    if not (is_ref(0) or is_ref(1)):
                        ok_all = False
                        R.viol("C11.refpoint", "wrong-reference:%s!distance" % fn.split("::")[-1],
                               "a distance in %s is not measured from %s (the point its closeness decisions are relative to)" % (b.path, spec[2]), b, t["l"])
                elif nc == "ant_protocol::NetworkAddress::as_kbucket_key":
                    # only judged where the key feeds a closest-peers query of this function
                    if b.path == fn and fn.endswith("get_replicate_candidates"):
                        found += 1
                        if not is_ref(0):
                            ok_all = False
                            R.viol("C11.refpoint", "wrong-reference:%s!as_kbucket_key" % fn.split("::")[-1], "the closest-peers query of %s is not keyed by %s" % (fn, spec[2]), b, t["l"])
                else:
                    found += 1
                    if not is_ref(idx):
                        ok_all = False
                        R.viol("C11.refpoint", "wrong-reference:%s!%s" % (fn.split("::")[-1], nc.split("::")[-1]),
                               "%s is handed a reference address other than %s in %s" % (nc.split("::")[-1], spec[2], b.path), b, t["l"])
        if found == 0:
            ok_all = False
            R.viol("C11.refpoint", "anchor-missing:%s" % fn.split("::")[-1], "no distance computation found in %s (rule table out of date)" % fn, root, root.lines[0])
        n_sites += found
    R.inst("C11.refpoint", "K6 flows-to", "every distance in a closeness-deciding function is measured from that function's reference point (target / self)", n_sites, ok_all and n_sites >= 17,
           {"functions": n_fns, "sites": n_sites})


def order_and_endian_rules(R):
    """(a) sort_peers_by_key answers Ok only after sorting (no unsorted fast path); (b) the metric is big-endian everywhere a
    distance / range crosses a byte boundary: no little-endian U256 conversion in the node, networking or protocol crates;
    (c) record keys are taken from addresses with the total `to_record_key`, the partial `as_record_key` stays confined to its two
    logging call sites; (d) a client's own id is removed before the closest peers are sorted and cut, not after; (e) the store's
    distance index and farthest record are only touched by their owning functions (rules shared with C01 / C10)."""
    F = R.F
    sp = R.body("C11.sort.always", "ant_networking::sort_peers_by_key")
    if sp is not None:
        prep(sp)
        g = cfg_of(sp)
        srt = set(CallSink("alloc::slice::<impl [T]>::sort_by", "alloc::slice::<impl [T]>::sort_by_key", "alloc::slice::<impl [T]>::sort_unstable_by").blocks(sp))
        oks = set(RetSink("Ok").blocks(sp))
        ok = bool(srt) and bool(oks) and not (oks & g.reach((0,), avoid=srt))
        if not ok:
            R.viol("C11.sort.always", "unsorted-ok", "sort_peers_by_key can answer Ok without having sorted the peers by distance", sp, sp.lines[0])
        R.inst("C11.sort.always", "K5 must-follow", "sort_peers_by_key answers Ok only after sorting by distance", len(oks), ok)
    n, le = 0, []
    for b in F.bodies.values():
        if b.crate not in ("ant_node", "ant_networking", "ant_protocol") or "::tests::" in b.path or "::test" in b.path.split("::")[-1]:
            continue
        for c in b.calls_raw:
            nc = c["ncallee"] or ""
            if nc.startswith("ruint::") and any(x in nc for x in ("from_be_bytes", "from_be_slice", "to_be_bytes", "from_le_bytes", "from_le_slice", "to_le_bytes", "try_from_le_slice", "try_from_be_slice")):
                n += 1
                if "_le_" in nc:
                    le.append((b, c))
    for b, c in le:
        R.viol("C11.endian", "little-endian:%s" % R.root_path(b).split("::")[-1], "%s converts a 256-bit distance/range with %s: distances are big-endian integers everywhere else" % (R.root_path(b), c["ncallee"].split("::")[-1]), b, c["line"])
    if n < 3:
        R.viol("C11.endian", "instance-floor", "only %d U256 byte conversions found (floor 3)" % n)
    R.inst("C11.endian", "K1 forbidden-callee", "U256 ↔ bytes conversions of distances and ranges are big-endian", n, not le and n >= 3)
    R.who_may_call("C11.total-key", ["ant_protocol::NetworkAddress::as_record_key"], ["ant_node::node::Node::handle_network_event", "ant_node::node::Node::handle_query", "ant_protocol::*"], floor=1,
                   descr="the partial NetworkAddress::as_record_key is used only where a raw key is expected; everywhere else keys come from the total to_record_key",
                   ignore_crates=("autonomi", "ant_cli", "ant"))
    gc = R.body("C11.self-first", "ant_networking::Network::get_all_close_peers_in_range_or_close_group::{closure#0}")
    if gc is not None:
        prep(gc)
        g = cfg_of(gc)
        srt = [blk["id"] for blk in gc.blocks if blk["term"]["k"] == "call" and not blk["cleanup"] and callee_matches(blk["term"], ["ant_networking::sort_peers_by_address"])]
        ret = [blk["id"] for blk in gc.blocks if blk["term"]["k"] == "call" and not blk["cleanup"] and (blk["term"]["ncallee"] or "").endswith("Vec::retain")]
        ok = bool(srt) and bool(ret) and all(not (set(ret) & g.reach((x,))) for x in srt)
        if not ok:
            R.viol("C11.self-first", "self-after-cut", "get_all_close_peers_in_range_or_close_group removes the client's own id after the peers were sorted and cut: the answer is one short / misses the next nearest peer", gc, gc.lines[0])
        R.inst("C11.self-first", "K5 must-follow", "self is removed before sort_peers_by_address, never after", len(srt) + len(ret), ok)
    # the K closest local peers (who may pay / hold / be challenged / define the responsible range): either the routing table's own
    # distance-ordered iterator for this node's key, cut afterwards — or, when the list is ordered here, the ordering comes first and the
    # cut after it.  Cutting bucket order to K and sorting the survivors keeps an arbitrary part of the boundary bucket.
    kc = R.body("C11.kclosest", "ant_networking::driver::SwarmDriver::get_closest_k_value_local_peers")
    if kc is not None:
        prep(kc)
        g = cfg_of(kc)
        items = [b_ for b_ in F.item(kc.path)]
        def _calls(pred):
            return [blk["id"] for blk in kc.blocks if blk["term"]["k"] == "call" and not blk["cleanup"] and pred(blk["term"].get("ngen") or blk["term"].get("ncallee") or "")]
        lib = _calls(lambda n: n.endswith("Behaviour::get_closest_local_peers") or n.endswith("Behaviour<TStore>::get_closest_local_peers"))
        cuts = _calls(lambda n: n.endswith(("Iterator::take", "Vec::truncate", "Vec<T, A>::truncate", "Vec::split_off", "Vec::drain", "Iterator::take_while", "Iterator::step_by", "Iterator::skip")))
        sorts = _calls(lambda n: n.split("::")[-1] in ("sort", "sort_by", "sort_by_key", "sort_unstable", "sort_unstable_by", "sort_unstable_by_key", "sort_by_cached_key") or n.endswith("sort_peers_by_address") or n.endswith("sort_peers_by_key"))
        inner_cuts = any(callee_matches(blk["term"], ["*Iterator::take", "*::truncate"]) for c_ in items if c_ is not kc for blk in c_.blocks if blk["term"]["k"] == "call" and not blk["cleanup"])
        if lib:
            # the library orders by distance to the key it is handed: this node's own id
            selfk = Taint(kc, through="all").closure({d for d, r, p in field_reads(kc, "self_peer_id")})
            okk = all(op_local(g.term(x)["args"][1]) in selfk for x in lib) and not inner_cuts
            why = "get_closest_local_peers is not asked for this node's own key"
        else:
            okk = bool(sorts) and not (set(cuts) & g.reach((0,), avoid=set(sorts))) and not inner_cuts
            why = "the routing table's entries are cut to K before they are ordered by distance (or never ordered)"
        if not okk:
            R.viol("C11.kclosest", "cut-before-order", "get_closest_k_value_local_peers: %s — the K kept are not the K nearest" % why, kc, kc.lines[0])
        R.inst("C11.kclosest", "K5 must-precede", "the K closest local peers are cut from a distance-ordered sequence (library iterator for self, or sort before take)", len(lib) + len(sorts) + len(cuts), okk)
    from props.C01 import store_rules
    store_rules(R, "C11.store")
