"""C20 — upgraded services keep every setting; antnode accepts what antctl writes (sibling cross-checks)."""
import re
import argmodel as A
import tables as T
from cfg import cfg_of
from flow import Taint, Tracker, callee_matches, field_reads, op_local, prep, backward, backward_calls
from rules import CallGuard, CallSink, RetSink, AggSink, PL
from props.C04 import call_results, agg_field_operands

META = {
    "explanation_r6": 'Also (round 6): each peers option is written depending on that option alone (C20.peers.independent).',
    "explanation_more": "Also (round 5): hand-written value parsers of options the manager writes use the input string itself, not a trimmed / case-folded copy (C20.parser.verbatim).",
    "explanation": "Decides by cross-checking sibling implementations: (1) install vs upgrade: InstallNodeServiceCtxBuilder::build and "
                   "NodeService::build_upgrade_install_context emit the same multiset of flag literals, each with the same arity, the same "
                   "guarding field and the same value field under the install→registry field map; both call "
                   "push_arguments_from_peers_args; program/username/label correspond; autostart and environment of the upgrade come "
                   "from UpgradeOptions, which cmd::node::upgrade fills from the persisted NodeServiceData / registry (not a constant); "
                   "(2) persisted = installed: in add_node every field of the InstallNodeServiceCtxBuilder literal has a NodeServiceData "
                   "counterpart built from the same source value (a new installable option that is not persisted is reported); (3) writer "
                   "vs reader of the command line: every flag the three writer functions can emit is a long option clap registers for "
                   "antnode's Opt, the flattened PeersArgs or the evm-custom subcommand in the default-feature build, with matching arity "
                   "(SetTrue ↔ no value, Set/Append ↔ one value); the network names printed by <EvmNetwork as Display> equal the registered "
                   "subcommand names; (4) LogFormat::as_str and LogFormat::parse_from_str are inverse tables; (5) position: the network "
                   "subcommand is emitted after every top-level option and only its own options follow it. Also: option relations — no pair that antnode declares conflicting (clap conflicts_with) can be written together, unless both values come unchanged from antctl's own parse of the same definition or the write sits behind the other option being unset; evm-custom flags are written from the CustomNetwork field the reader stores them into. Not decided: that each value "
                   "string parses to the same typed value (clap value parsers at run time).",
    "not_decided": ["run-time parsing of each value string by clap's value parsers"],
}

BUILD = "ant_node_manager::add_services::config::InstallNodeServiceCtxBuilder::build"
UPG = "<ant_service_management::node::NodeService<'_> as ant_service_management::ServiceStateActions>::build_upgrade_install_context"
PEERS = "ant_service_management::node::push_arguments_from_peers_args"
BUILDER = "ant_node_manager::add_services::config::InstallNodeServiceCtxBuilder"
NSD = "ant_service_management::node::NodeServiceData"
ADD = "ant_node_manager::add_services::add_node::{closure#0}"
UPCMD = "ant_node_manager::cmd::node::upgrade::{closure#0}"
OPT = "<antnode::Opt as clap_builder::derive::Args>::augment_args"
PARGS = "<ant_bootstrap::initial_peers::PeersArgs as clap_builder::derive::Args>::augment_args"
PARGS_ADT = "ant_bootstrap::initial_peers::PeersArgs"
SUB = "<antnode::subcommands::EvmNetworkCommand as clap_builder::derive::Subcommand>::augment_subcommands"
# install-time field → persisted field
FIELD_MAP = {"name": "service_name", "service_user": "user", "autostart": "auto_restart", "env_variables": None}
SUBCMD_FLAGS = {"--rpc-url", "--payment-token-address", "--data-payments-address"}


def mapf(f):
    """install builder field path → registry field path"""
    parts = f.split(".")
    head = FIELD_MAP.get(parts[0], parts[0])
    return ".".join(["service_data", head] + parts[1:]) if head else None


def _behind_unset(body, bb, field):
    """is block `bb` of `body` reachable only through a branch on which `<x>.field` is false / empty / None?"""
    from rules import FieldBoolGuard, FieldOptGuard
    prep(body)
    g = cfg_of(body)
    acc = set()
    acc |= FieldBoolGuard(field, want=False).edges(body)[1]
    acc |= FieldOptGuard(field, ("None",)).edges(body)[1]
    reads = Taint(body).closure({d for d, r, p in field_reads(body, field)})
    acc |= CallGuard(["alloc::vec::Vec::is_empty", "core::option::Option::is_none"], ("true",), "unset",
                     arg_pred=lambda b_, blk, t: op_local(t["args"][0]) in reads).edges(body)[1]
    return bool(acc) and bb not in g.reach((0,), cut=acc)


def _behind_set(body, bb, field):
    """is block `bb` of `body` reachable only through a branch on which `<x>.field` is true / non-empty / Some?"""
    from rules import FieldBoolGuard, FieldOptGuard
    prep(body)
    g = cfg_of(body)
    last = field.split(".")[-1]
    acc = set()
    acc |= FieldBoolGuard(last, want=True).edges(body)[1]
    acc |= FieldOptGuard(last, ("Some",)).edges(body)[1]
    reads = Taint(body).closure({d for d, r, p in field_reads(body, last)})
    acc |= CallGuard(["alloc::vec::Vec::is_empty", "core::option::Option::is_none"], ("false",), "set",
                     arg_pred=lambda b_, blk, t: op_local(t["args"][0]) in reads).edges(body)[1]
    acc |= CallGuard(["core::option::Option::is_some"], ("true",), "set",
                     arg_pred=lambda b_, blk, t: op_local(t["args"][0]) in reads).edges(body)[1]
    return bool(acc) and bb not in g.reach((0,), cut=acc)


def run(R):
    F = R.F
    bi, bu, bp = R.body("C20.writers", BUILD), R.body("C20.writers", UPG), R.body("C20.writers", PEERS)
    if bi is None or bu is None or bp is None:
        return
    mi, mu, mp = A.model(bi), A.model(bu), A.model(bp)
    # (1) same flags, same arity, corresponding fields
    ok = True
    fi, fu = sorted(mi["order"]), sorted(mu["order"])
    if fi != fu:
        ok = False
        for f in sorted(set(fi) ^ set(fu)) or ["<multiplicity>"]:
            R.viol("C20.flags", "flag-set:%s" % f, "install and upgrade do not emit the same flags: %s is in only one of them (install=%s upgrade=%s)" % (f, f in fi, f in fu), bu, bu.lines[0])
    n = 0
    for f in sorted(set(fi) & set(fu)):
        for xi, xu in zip(mi["flags"][f], mu["flags"][f]):
            n += 1
            if xi["takes_value"] != xu["takes_value"]:
                ok = False
                R.viol("C20.flags", "arity:%s" % f, "%s takes a value in one builder but not in the other" % f, bu, xu["line"])
            if xi["conditional"] != xu["conditional"]:
                ok = False
                R.viol("C20.flags", "conditional:%s" % f, "%s is unconditional in one builder and conditional in the other" % f, bu, xu["line"])
            gi = {mapf(x) for x in xi["guard_fields"]}
            if gi != set(xu["guard_fields"]):
                ok = False
                R.viol("C20.flags", "guard:%s" % f, "%s is guarded by %s at install but by %s at upgrade" % (f, sorted(xi["guard_fields"]), sorted(xu["guard_fields"])), bu, xu["line"])
            vi = {mapf(x) if x.split(".")[0] in _builder_fields(F) else x for x in xi["value_fields"]}
            if vi != set(xu["value_fields"]):
                ok = False
                R.viol("C20.flags", "value:%s" % f, "%s carries %s at install but %s at upgrade" % (f, sorted(xi["value_fields"]), sorted(xu["value_fields"])), bu, xu["line"])
    R.inst("C20.flags", "K7 table agreement", "install and upgrade builders: same flags, arity, guard field and value field (under the field map)", n, ok,
           {"install": mi["order"], "upgrade": mu["order"]})
    if n < 15:
        R.viol("C20.flags", "instance-floor", "only %d flags compared (floor 15)" % n)
    # polarity: a conditional flag is written on the branch where its option is set (true / Some / non-empty), never on the other one
    npol, okpol, rows = 0, True, []
    for nm, m, body in (("install", mi, bi), ("upgrade", mu, bu), ("peers", mp, bp)):
        for f, xs in m["flags"].items():
            for x in xs:
                if not x["conditional"] or not x["guard_fields"] or f in SUBCMD_FLAGS:
                    continue        # the evm-custom options sit behind a match on the network variant (C20.custom / C20.position)
                npol += 1
                own = [gf for gf in sorted(x["guard_fields"]) if _behind_set(body, x["bb"], gf)]
                rows.append((nm, f, sorted(x["guard_fields"]), own))
                if not own:
                    okpol = False
                    R.viol("C20.polarity", "flag-on-unset:%s!%s" % (f, nm), "%s is written by %s on a branch where none of its options (%s) is known to be set" % (
                        f, body.npath.split("::")[-1], ", ".join(sorted(x["guard_fields"]))), body, x["line"])
    R.inst("C20.polarity", "K10 polarity", "each conditional flag is emitted behind the set side (true / Some / non-empty) of one of its guarding options", npol, okpol, {"rows": rows})
    if npol < 24:
        R.viol("C20.polarity", "instance-floor", "only %d conditional flag emissions examined (floor 24)" % npol)
    for nm, b in (("install", bi), ("upgrade", bu)):
        R.must_call("C20.peers." + nm, b.path, [PEERS], "%s builder emits the peers arguments through push_arguments_from_peers_args" % nm)
    pi = [x for b in (bi,) for x in b.blocks if x["term"]["k"] == "call" and callee_matches(x["term"], [PEERS])]
    pu = [x for x in bu.blocks if x["term"]["k"] == "call" and callee_matches(x["term"], [PEERS])]
    okp = bool(pi) and bool(pu) and op_local(pi[0]["term"]["args"][0]) in Taint(bi).closure({d for d, r, p in field_reads(bi, "peers_args")}) and \
        op_local(pu[0]["term"]["args"][0]) in Taint(bu).closure({d for d, r, p in field_reads(bu, "peers_args")})
    if not okp:
        R.viol("C20.peers.arg", "peers-args-source", "a builder does not pass its own peers_args to push_arguments_from_peers_args", bu, bu.lines[0])
    R.inst("C20.peers.arg", "K6 flows-to", "both builders pass their peers_args", 2, okp)
    # every peers option is written on its own: whether `--x` is emitted depends on option x alone (seed C20-r6: `if ignore_cache {..} else if
    # let Some(dir) = bootstrap_cache_dir {..}` — a service configured with both loses its cache directory at install and at every upgrade;
    # antnode still *writes* the cache there when told not to load it).  antctl's own parse has already refused combinations clap declares
    # conflicting, so no dependence between options is needed in the writer
    nind, okind = 0, True
    for f, xs in mp["flags"].items():
        for x in xs:
            if not x["conditional"]:
                continue
            nind += 1
            gf = {mapf(y).split(".")[-1] for y in x["guard_fields"]}
            own = {mapf(y).split(".")[-1] for y in x["value_fields"]} or gf
            if len(gf) != 1 or (x["value_fields"] and gf != own):
                okind = False
                R.viol("C20.peers.independent", "depends-on-other:%s" % f, "push_arguments_from_peers_args writes %s depending on %s: a service configured with the options together "
                       "is installed / upgraded without one of them" % (f, ", ".join(sorted(gf))), bp, x["line"])
    if nind < 6:
        okind = False
        R.viol("C20.peers.independent", "instance-floor", "only %d conditional peers flags found (floor 6)" % nind, bp, bp.lines[0])
    R.inst("C20.peers.independent", "K10 polarity (guard set)", "each peers option is emitted depending on that option alone", nind, okind)
    # positional (subcommand) value
    posi = [x for x in mi["positional"]]
    posu = [x for x in mu["positional"]]
    okpos = len(posi) == 1 and len(posu) == 1 and {mapf(x) for x in posi[0]["fields"]} == set(posu[0]["fields"])
    if not okpos:
        R.viol("C20.subcommand", "positional", "install and upgrade do not emit the same positional (network subcommand) value", bu, bu.lines[0])
    R.inst("C20.subcommand", "K7 table agreement", "the only positional element is the network name, from evm_network on both sides", len(posi) + len(posu), okpos)
    # ServiceInstallCtx fields
    CTX = "service_manager::ServiceInstallCtx"
    okc = True
    src_i, src_u = {}, {}
    for fld in ("program", "username", "label", "autostart", "environment", "args"):
        for b, dst in ((bi, src_i), (bu, src_u)):
            ops = agg_field_operands(b, "*ServiceInstallCtx", fld)
            if not ops:
                okc = False
                R.viol("C20.ctx", "ctx-field:%s" % fld, "ServiceInstallCtx.%s is not set in %s" % (fld, b.path), b, b.lines[0])
                dst[fld] = set()
            else:
                fs, _ = A._fields_behind(b, op_local(ops[0][2])) if op_local(ops[0][2]) is not None else (set(), set())
                dst[fld] = fs
    want = {"program": ({"antnode_path"}, {"service_data.antnode_path"}), "username": ({"service_user"}, {"service_data.user"}), "label": ({"name"}, {"service_data.service_name"}),
            "autostart": ({"autostart"}, {"auto_restart"}), "environment": ({"env_variables"}, {"env_variables"})}
    for fld, (wi, wu) in want.items():
        if src_i.get(fld) != wi or src_u.get(fld) != wu:
            okc = False
            R.viol("C20.ctx", "ctx-source:%s" % fld, "ServiceInstallCtx.%s: install takes %s (expected %s), upgrade takes %s (expected %s)" % (
                fld, sorted(src_i.get(fld, [])), sorted(wi), sorted(src_u.get(fld, [])), sorted(wu)), bu, bu.lines[0])
    R.inst("C20.ctx", "K7 table agreement", "program, username, label correspond; autostart/environment come from UpgradeOptions", len(want), okc)
    # UpgradeOptions provenance
    up = R.body("C20.options", UPCMD)
    if up is not None:
        prep(up)
        oko = True
        for fld, need in (("auto_restart", "auto_restart"), ("env_variables", "environment_variables")):
            ops = agg_field_operands(up, "ant_service_management::UpgradeOptions", fld)
            if not ops:
                oko = False
                R.viol("C20.options", "options-field:%s" % fld, "UpgradeOptions.%s is not set in cmd::node::upgrade" % fld, up, up.lines[0])
                continue
            for _, s, o in ops:
                if o[0] == "c":
                    oko = False
                    R.viol("C20.options", "options-constant:%s" % fld, "cmd::node::upgrade passes the constant %s as UpgradeOptions.%s instead of the service's persisted setting" % (o[1], fld), up, s["l"])
                    continue
                fs, _ = A._fields_behind(up, op_local(o))
                if not any(x.split(".")[-1] == need for x in fs):
                    oko = False
                    R.viol("C20.options", "options-source:%s" % fld, "UpgradeOptions.%s does not derive from the persisted %s (sources: %s)" % (fld, need, sorted(fs)), up, s["l"])
        R.inst("C20.options", "K6 flows-to", "UpgradeOptions.auto_restart ← node.auto_restart; env_variables ← provided or registry.environment_variables", 2, oko)

    # (2a) what is persisted survives the registry file (an upgrade is a new process: it sees only what was saved)
    from serdepair import serde_agreement
    serde_agreement(R, "C20.persist.file", [NSD], 6)
    # (2) persisted = installed
    add = R.body("C20.persist", ADD)
    if add is not None:
        prep(add)
        # the registry-wide environment (what every later upgrade regenerates services with) is replaced only by a supplied one
        from rules import BlockSink, FieldOptGuard
        envr = Taint(add).closure({d for d, r, p in field_reads(add, "env_variables")})

        def env_writes(b):
            out = []
            for blk in b.blocks:
                if blk["cleanup"]:
                    continue
                for st in blk["stmts"]:
                    rv = st["rv"]
                    if rv["k"] == "ref" and rv.get("mut") and ".environment_variables" in rv["p"][1:]:
                        out.append(blk["id"])
                    if len(st["d"]) > 1 and ".environment_variables" in st["d"][1:]:
                        out.append(blk["id"])
            return out
        if not env_writes(add):
            R.viol("C20.env.keep", "anchor-missing:environment_variables-write", "add_node no longer records the supplied environment in the registry", add, add.lines[0])
        R.gate("C20.env.keep", add, BlockSink(env_writes, "NodeRegistry.environment_variables is overwritten"),
               [[CallGuard(["core::option::Option::is_some"], ("true",), "options.env_variables is Some", arg_pred=lambda b_, blk, t: op_local(t["args"][0]) in envr),
                 FieldOptGuard("env_variables", ("Some",))]],
               descr="add_node replaces the registry-wide environment only when a new one is supplied (services added earlier are regenerated from it on upgrade)")
        bf = _builder_fields(F)
        df = {f["name"] for f in (F.adts.get(NSD) or {"variants": [{"fields": []}]})["variants"][0]["fields"]}
        okp = True
        n = 0
        roots = []
        for f in bf:
            tgt = FIELD_MAP.get(f, f)
            if f == "env_variables":
                # persisted registry-wide (NodeRegistry.environment_variables), checked in C20.options
                continue
            if tgt not in df:
                okp = False
                R.viol("C20.persist", "not-persisted:%s" % f, "installable option `%s` has no NodeServiceData field: an upgrade cannot regenerate it" % f, add, add.lines[0])
                continue
            oi = agg_field_operands(add, BUILDER, f)
            od = agg_field_operands(add, NSD, tgt)
            if not oi or not od:
                okp = False
                R.viol("C20.persist", "literal-field:%s" % f, "add_node does not set %s in both the install context and the registry record" % f, add, add.lines[0])
                continue
            n += 1
            roots.append((f, _value_root(add, oi[0][2]), _value_root(add, od[0][2])))
            si = _sources(add, oi[0][2])
            sd = _sources(add, od[0][2])
            ri, rd = _value_root(add, oi[0][2]), _value_root(add, od[0][2])
            if ri is not None and rd is not None and ri != rd:
                okp = False
                R.viol("C20.persist", "differs-value:%s" % f, "installed `%s` is a copy of %s but the persisted `%s` a copy of %s" % (f, ri, tgt, rd), add, od[0][1]["l"])
            elif si != sd:
                okp = False
                R.viol("C20.persist", "differs:%s" % f, "installed `%s` comes from %s but the persisted `%s` from %s" % (f, sorted(si), tgt, sorted(sd)), add, od[0][1]["l"])
        R.inst("C20.persist", "K7 table agreement", "every InstallNodeServiceCtxBuilder field is persisted in NodeServiceData from the same source", n, okp, {"copies_of": roots})
        if n < 18:
            R.viol("C20.persist", "instance-floor", "only %d builder fields compared (floor 18)" % n)

    # (3) writer vs reader
    bo, bpa, bs = R.body("C20.clap", OPT), R.body("C20.clap", PARGS), R.body("C20.clap", SUB)
    if bo is not None and bpa is not None and bs is not None:
        top = dict(A.clap_args(bo))
        top.update(A.clap_args(bpa))
        sub = A.clap_args(bs)
        flat = any(c["ncallee"] == PARGS for c in bo.calls)
        subreg = any(c["ncallee"] == SUB for c in bo.calls)
        okr = flat and subreg and len(top) >= 20 and len(sub) == 3
        if not flat:
            R.viol("C20.clap", "not-flattened", "antnode's Opt does not flatten PeersArgs", bo, bo.lines[0])
        if not subreg:
            R.viol("C20.clap", "no-subcommand", "antnode's Opt does not register the EvmNetworkCommand subcommand", bo, bo.lines[0])
        n = 0
        for nm, m, body in (("install", mi, bi), ("upgrade", mu, bu), ("peers", mp, bp)):
            for f, xs in m["flags"].items():
                for x in xs:
                    n += 1
                    table = sub if f in SUBCMD_FLAGS else top
                    reg = table.get(f[2:])
                    if reg is None:
                        okr = False
                        R.viol("C20.clap", "unknown-flag:%s" % f, "%s writes %s, which antnode's %s does not register in the default-feature build" % (
                            body.npath.split("::")[-1], f, "evm-custom subcommand" if f in SUBCMD_FLAGS else "top-level options"), body, x["line"])
                        continue
                    takes = reg["action"] in ("Set", "Append")
                    # a value written as a separator-joined list must be split by the reader with the same separator
                    for sep in x.get("joined_with", []):
                        if reg.get("delimiter") != sep:
                            okr = False
                            R.viol("C20.clap", "list-delimiter:%s" % f, "%s is written as a list joined with %r but antnode registers it with value_delimiter %r: the list is read back as one value" % (
                                f, sep, reg.get("delimiter")), body, x["line"])
                    if reg.get("delimiter") and not x.get("joined_with") and reg["action"] == "Append" and x["takes_value"]:
                        pass  # a single value is fine with or without a delimiter
                    if takes != x["takes_value"]:
                        okr = False
                        R.viol("C20.clap", "arity:%s" % f, "%s is written %s a value but antnode registers it as %s" % (f, "with" if x["takes_value"] else "without", reg["action"]), body, x["line"])
        R.inst("C20.clap", "K7 table agreement", "every emitted flag is a registered long option of antnode with matching arity", n, okr, {"top_level": sorted(top), "evm_custom": sorted(sub)})
        # (3a) a hand-written value parser on an option the manager writes must not be able to refuse: the writer does not validate,
        # so any string the reader rejects makes the node refuse its own service definition.  (LogFormat's parser is the inverse of
        # the writer's as_str: C20.logformat.)
        INVERSE_CHECKED = ("ant_logging::LogFormat::parse_from_str",)
        npar, okpar = 0, True
        for nm, m, body in (("install", mi, bi), ("upgrade", mu, bu), ("peers", mp, bp)):
            for f, xs in m["flags"].items():
                reg = (sub if f in SUBCMD_FLAGS else top).get(f[2:])
                if not reg or not reg.get("parser") or reg["parser"] in INVERSE_CHECKED:
                    continue
                for pb in F.by_npath.get(A.norm(reg["parser"]) if hasattr(A, "norm") else reg["parser"], []) or ([F.body(reg["parser"])] if F.body(reg["parser"]) else []):
                    npar += 1
                    prep(pb)
                    errs = RetSink("Err", computed=True).blocks(pb) + [b["id"] for b in pb.blocks if b["term"]["k"] == "call" and not b["cleanup"] and "from_residual" in (b["term"].get("ngen") or b["term"].get("ncallee") or "")]
                    if errs:
                        okpar = False
                        R.viol("C20.parser", "reader-can-refuse:%s" % f, "antnode parses %s with %s, which can fail, but the manager writes the value unvalidated: some service definitions it writes are refused by the node" % (f, reg["parser"]), pb, pb.lines[0])
                    break
        R.inst("C20.parser", "K7 table agreement", "hand-written value parsers of options the manager writes cannot refuse a value", npar, okpar)
        # (3a') … and must take the value as it was written: whatever the parser hands on (to PathBuf::from, to a constructor) is the input
        # string itself, not a trimmed / case-folded / otherwise rewritten copy — the manager prepared, chowned and recorded the directory
        # (or name) it wrote, not the one the reader derives from it.  Comparisons of the input with keywords are not affected: only calls
        # that receive a value *computed from* the input count.
        from flow import must_be_copy_of
        nver, okver = 0, True
        seen_p = set()
        for nm, m, body in (("install", mi, bi), ("upgrade", mu, bu), ("peers", mp, bp)):
            for f, xs in m["flags"].items():
                reg = (sub if f in SUBCMD_FLAGS else top).get(f[2:])
                if not reg or not reg.get("parser") or reg["parser"] in INVERSE_CHECKED or reg["parser"] in seen_p:
                    continue
                seen_p.add(reg["parser"])
                for pb in F.by_npath.get(reg["parser"], []) or ([F.body(reg["parser"])] if F.body(reg["parser"]) else []):
                    prep(pb)
                    params = set(PL(pb, 0))
                    derived = Taint(pb, through="all").closure(params)
                    for blk in pb.blocks:
                        t = blk["term"]
                        if t["k"] != "call" or blk["cleanup"] or t.get("from_macro") or (t.get("mac") or ""):
                            continue
                        for a_ in t["args"]:
                            l = op_local(a_)
                            if l is None or l not in derived:
                                continue
                            nver += 1
                            if not must_be_copy_of(pb, l, params):
                                okver = False
                                R.viol("C20.parser.verbatim", "value-rewritten:%s" % f, "antnode's parser of %s (%s) hands a value computed from the input to %s: the node does not use %s as the manager wrote it"
                                       % (f, reg["parser"], (t.get("ncallee") or t.get("ngen") or "?"), f), pb, t.get("l"))
                                break
                        if not okver:
                            break
                    break
        R.inst("C20.parser.verbatim", "K6 flows-to (must-copy)", "hand-written value parsers of written options use the input string itself", nver, okver)
        # (3b) relations between options (conflicts_with …): a pair the reader refuses must never be written together
        id2long = {v["id"]: k for k, v in top.items()}
        emitted = {}
        for nm, m, body in (("install", mi, bi), ("upgrade", mu, bu), ("peers", mp, bp)):
            for f, xs in m["flags"].items():
                for x in xs:
                    emitted.setdefault(f[2:], []).append((m, body, x))
        pa_fields = {v["id"] for v in A.clap_args(bpa).values()}
        nrel, okrel = 0, True
        for a_long, reg in sorted(top.items()):
            for kind, tgt in reg.get("relations", []):
                nrel += 1
                b_long = id2long.get(tgt, tgt)
                if not kind.startswith(("conflicts_with", "exclusive")):
                    if a_long in emitted:
                        okrel = False
                        R.viol("C20.relations", "unmodelled-relation:%s!%s" % (a_long, kind), "antnode registers `%s(%s)` on --%s, which the manager writes; this kind of relation is not modelled" % (kind, tgt, a_long), bpa, bpa.lines[0])
                    continue
                if a_long not in emitted or b_long not in emitted:
                    continue
                # (i) never both on one path of a writer
                together = None
                for (m1, body1, x1) in emitted[a_long]:
                    for (m2, body2, x2) in emitted[b_long]:
                        if body1 is body2:
                            g1 = cfg_of(body1)
                            if x2["bb"] in g1.reach((x1["bb"],)) or x1["bb"] in g1.reach((x2["bb"],)):
                                together = (body1, x1)
                if together is None:
                    continue
                # (ii) or both values come unchanged from antctl's own parse of the same clap definition (which refuses the pair)
                fa, fb = reg["id"], top[b_long]["id"]
                post = {}
                for fld in (fa, fb):
                    if fld in pa_fields:
                        other = fb if fld == fa else fa
                        ws = []
                        for w, sites in R.writers_of(PARGS_ADT, fld).items():
                            if "FromArgMatches" in w or "Deserialize" in w or "Default" in w:
                                continue
                            # a write after parsing is fine where the conflicting option is known to be unset
                            for wb, msite in sites:
                                if not _behind_unset(wb, msite["bb"], other):
                                    ws.append(w)
                                    break
                        if ws:
                            post[fld] = ws
                    else:
                        post[fld] = ["(not a PeersArgs field: not validated by antctl's parse)"]
                if post:
                    okrel = False
                    fld, ws = sorted(post.items())[0]
                    R.viol("C20.relations", "conflict-writable:%s+%s" % tuple(sorted((a_long, b_long))),
                           "antnode refuses --%s together with --%s, yet %s can write both: `%s` is set after antctl's own argument parsing in %s" % (
                               a_long, b_long, together[0].npath.split("::")[-1], fld, ", ".join(ws)), together[0], together[1]["line"])
        R.inst("C20.relations", "K7 table agreement", "no pair of options that antnode declares conflicting can be written together", nrel, okrel and nrel >= 3,
               {"relations": [(k, r) for k, v in sorted(top.items()) for r in v.get("relations", [])]})
        if nrel < 3:
            R.viol("C20.relations", "instance-floor", "only %d clap relations found in antnode's options (floor 3)" % nrel)
        custom_network_roundtrip(R, (("install", mi, bi), ("upgrade", mu, bu)))
        # subcommand names
        names = sorted({k[1].strip('"') for c in bs.calls if (c["ncallee"] or "").endswith("Command::new") for k in c["consts"]})
        disp = R.body("C20.names", "<evmlib::Network as core::fmt::Display>::fmt")
        if disp is not None:
            written = sorted({p["lit"] for f in R.fmt_in(disp) for p in f["pieces"] if "lit" in p})
            okn = written == names and len(names) == 3
            if not okn:
                R.viol("C20.names", "network-names", "EvmNetwork prints %s but antnode registers the subcommands %s" % (written, names), disp, disp.lines[0])
            R.inst("C20.names", "K7 table agreement", "<EvmNetwork as Display> strings == antnode's subcommand names", len(names), okn, {"written": written, "registered": names})
        # (5) position: top-level flags before the positional, subcommand flags after
        for nm, m, body in (("install", mi, bi), ("upgrade", mu, bu)):
            g = cfg_of(body)
            pos = m["positional"][0]["bb"] if m["positional"] else None
            okpo = pos is not None
            if okpo:
                after = g.reach((pos,))
                for f, xs in m["flags"].items():
                    for x in xs:
                        if f in SUBCMD_FLAGS and x["bb"] not in after:
                            okpo = False
                            R.viol("C20.position." + nm, "subflag-before:%s" % f, "%s is emitted before the network subcommand" % f, body, x["line"])
                        if f not in SUBCMD_FLAGS and x["bb"] in after:
                            okpo = False
                            R.viol("C20.position." + nm, "topflag-after:%s" % f, "top-level option %s is emitted after the network subcommand (clap stops parsing top-level options there)" % f, body, x["line"])
                pc = [b["id"] for b in body.blocks if b["term"]["k"] == "call" and callee_matches(b["term"], [PEERS])]
                if pc and pc[0] in after:
                    okpo = False
                    R.viol("C20.position." + nm, "peers-after", "peers arguments are emitted after the network subcommand", body, body.lines[0])
            R.inst("C20.position." + nm, "K5 must-follow", "%s: top-level options precede the network subcommand; only its own options follow" % nm, len(m["order"]), okpo)

    network_id_first(R)
    cache_dir_honoured(R)
    evm_subcommand_first(R)
    testnet_honoured(R)
    archived_logs_honoured(R)
    env_recorded_before_install(R)

    # (4) value vocabulary
    asb = R.body("C20.logformat", "ant_logging::LogFormat::as_str")
    psb = R.body("C20.logformat", "ant_logging::LogFormat::parse_from_str")
    if asb is not None and psb is not None:
        names = T.variant_names(F, "ant_logging::LogFormat") or {}
        w = T.switch_table(asb, lambda blk: next((s["rv"]["a"][1].strip('"') for s in blk["stmts"] if s["rv"]["k"] == "use" and s["rv"]["a"][0] == "c" and s["rv"]["a"][1].startswith('"')), None), min_targets=1)
        W = {names.get(k, k): v for k, v in (w or {}).items()}
        if "otherwise" in W and len(names) == 2:
            missing = [v for v in names.values() if v not in W]
            if len(missing) == 1:
                W[missing[0]] = W.pop("otherwise")
        prep(psb)
        g = cfg_of(psb)
        Rd = {}
        for blk in psb.blocks:
            t = blk["term"]
            if t["k"] == "call" and not blk["cleanup"] and (t["ngen"] or "").endswith("cmp::PartialEq::eq") and any(a[0] == "c" for a in t["args"]):
                lit = [a[1].strip('"') for a in t["args"] if a[0] == "c"][0]
                tr = Tracker(psb)
                tr.seed_bool(t["d"][0], True)
                tr.run()
                for _, d in tr.accept:
                    v = T.follow(g, d, T.m_agg_variant("LogFormat"), limit=6)
                    if v:
                        Rd[lit] = v
        if not Rd:
            # match on str lowers to memcmp-style calls; fall back to constants paired with aggregates in order
            pass
        okv = bool(W) and bool(Rd) and all(Rd.get(s) == v for v, s in W.items()) and all(W.get(v) == s for s, v in Rd.items()) and set(W) == set(names.values())
        if not okv:
            R.viol("C20.logformat", "vocabulary", "LogFormat::as_str writes %s but parse_from_str reads %s" % (W, Rd), asb, asb.lines[0])
        R.inst("C20.logformat", "K7 table agreement", "LogFormat::as_str and parse_from_str are inverse over all variants", len(W), okv, {"writer": W, "reader": Rd})


def _builder_fields(F):
    a = F.adts.get(BUILDER)
    return [f["name"] for f in a["variants"][0]["fields"]] if a else []


CLONES = ("core::clone::Clone::clone", "alloc::borrow::ToOwned::to_owned", "std::path::Path::to_path_buf", "core::option::Option::cloned", "core::option::Option::as_ref")


def _value_root(body, op):
    """the user variable / field place an operand is a plain copy (move, borrow, clone) of; None when it is computed"""
    if op[0] == "c":
        return "const:" + op[1]
    defs = {}
    for b in body.blocks:
        if b["cleanup"]:
            continue
        for st in b["stmts"]:
            if len(st["d"]) == 1:
                defs.setdefault(st["d"][0], []).append(("s", st["rv"]))
        t = b["term"]
        if t["k"] == "call" and len(t.get("d") or []) == 1:
            defs.setdefault(t["d"][0], []).append(("c", t))
    names = {v["v"][0]: v["name"] for v in body.vars if isinstance(v["v"], list) and len(v["v"]) == 1}
    l = op_local(op)
    place = op[1] if op[0] in ("cp", "mv") else None
    def stop(l):
        return "var:%s#%d" % (names[l], l) if l in names else None
    for _ in range(40):
        if place is not None and len(place) > 1 and any(e.startswith(".") for e in place[1:]):
            base = names.get(place[0], "_%d" % place[0])
            return base + "".join(e for e in place[1:] if e.startswith("."))
        ds = defs.get(l, [])
        if len(ds) != 1:
            return stop(l)
        k, d = ds[0]
        if k == "s":
            if d["k"] == "use" and d["a"][0] in ("cp", "mv"):
                place = d["a"][1]
                l = place[0]
            elif d["k"] == "ref":
                place = d["p"]
                l = place[0]
            else:
                return stop(l)
        else:
            if callee_matches(d, list(CLONES)) and d["args"] and d["args"][0][0] in ("cp", "mv"):
                place = d["args"][0][1]
                l = place[0]
            else:
                return stop(l)
    return None


def _sources(body, op):
    """descriptor of where an aggregate operand comes from: field paths read, else the user variables / constants"""
    if op[0] == "c":
        return {"const:" + op[1]}
    l = op_local(op)
    fs, calls = A._fields_behind(body, l)
    if fs:
        return fs
    locs, _ = backward_calls(body, l)
    names = {v["name"] for v in body.vars if isinstance(v["v"], list) and len(v["v"]) == 1 and v["v"][0] in locs}
    return {"var:" + n for n in names} or {"local"}


def custom_network_roundtrip(R, models):
    """evm-custom: the value written after each flag comes from the CustomNetwork field that the reader stores that flag's
    value into (flag → clap field → argument position of Network::new_custom → CustomNetwork::new → struct field)."""
    from flow import backward
    from rules import PL
    F = R.F
    convs = [b for b in F.bodies.values() if b.crate == "antnode" and any(c["ncallee"] == "evmlib::Network::new_custom" for c in b.calls_raw)]
    if len(convs) != 1:
        R.viol("C20.custom", "anchor-missing:new_custom-caller", "expected exactly one place in antnode turning the evm-custom subcommand into a Network (found %d)" % len(convs))
        return
    conv = convs[0]
    nc = R.body("C20.custom", "evmlib::Network::new_custom")
    cn = R.body("C20.custom", "evmlib::CustomNetwork::new")
    bs = R.body("C20.custom", SUB)
    if None in (conv, nc, cn, bs):
        return
    for b in (conv, nc, cn):
        prep(b)
    sub = A.clap_args(bs)   # long flag -> {"id": clap field}
    # reader: clap field -> position in new_custom
    pos_of_field = {}
    for blk in conv.blocks:
        t = blk["term"]
        if t["k"] == "call" and callee_matches(t, ["evmlib::Network::new_custom"]):
            for k, a in enumerate(t["args"]):
                back = backward(conv, op_local(a))
                for b2 in conv.blocks:
                    for st in b2["stmts"]:
                        if st["d"][0] in back:
                            rv = st["rv"]
                            pl = rv["a"][1] if rv["k"] == "use" and rv["a"][0] in ("cp", "mv") else rv.get("p") if rv["k"] == "ref" else None
                            if pl and any(e.startswith("@") for e in pl[1:]):
                                for e in pl[1:]:
                                    if e.startswith(".") and not e[1:].isdigit():
                                        pos_of_field[e[1:]] = k
    # new_custom: position -> position in CustomNetwork::new
    fwd = {}
    for blk in nc.blocks:
        t = blk["term"]
        if t["k"] == "call" and callee_matches(t, ["evmlib::CustomNetwork::new"]):
            for j, a in enumerate(t["args"]):
                back = backward(nc, op_local(a))
                for k in range(nc.argc):
                    if PL(nc, k) & back:
                        fwd[k] = j
    # CustomNetwork::new: position -> struct field
    field_of_pos = {}
    ta = Taint(cn, through="all")
    for blk in cn.blocks:
        for st in blk["stmts"]:
            rv = st["rv"]
            if rv["k"] == "agg" and (rv.get("adt") or "").endswith("CustomNetwork"):
                for fname, o in zip(rv["fields"], rv["ops"]):
                    for j in range(cn.argc):
                        if op_local(o) in ta.closure(PL(cn, j)):
                            field_of_pos.setdefault(j, fname)
    ok = True
    rows = []
    for flag in ("rpc-url", "payment-token-address", "data-payments-address"):
        reg = sub.get(flag)
        read_field = None
        if reg is not None and reg["id"] in pos_of_field and pos_of_field[reg["id"]] in fwd:
            read_field = field_of_pos.get(fwd[pos_of_field[reg["id"]]])
        for nm, m, body in models:
            for x in m["flags"].get("--" + flag, []):
                wf = sorted(f.split(".")[-1] for f in x["value_fields"])
                rows.append((nm, flag, wf, read_field))
                if read_field is None or read_field not in wf:
                    ok = False
                    R.viol("C20.custom", "custom-network-field:%s!%s" % (flag, nm), "--%s is written from CustomNetwork.%s but antnode stores its value into CustomNetwork.%s" % (flag, "/".join(wf) or "?", read_field), body, x["line"])
    if len(rows) < 6:
        ok = False
        R.viol("C20.custom", "instance-floor", "only %d evm-custom flag emissions found (floor 6)" % len(rows))
    R.inst("C20.custom", "K7 table agreement", "evm-custom flags: written from the CustomNetwork field the reader stores them into", len(rows), ok, {"rows": rows})


VERSION_LAZY = re.compile(r"^<ant_protocol::version::(?!NETWORK_ID\b)[A-Z_]+ as core::ops::deref::Deref>::deref$")


def network_id_first(R):
    """--network-id is interpreted as intended only if it is applied before anything reads the version strings derived from it
    (they are lazy statics: the first read freezes them)."""
    from rules import FieldOptGuard
    F = R.F
    main = R.body("C20.netid.first", "antnode::main")
    if main is None:
        return
    prep(main)
    g = cfg_of(main)
    # bodies that (transitively) read a version lazy
    readers = {b.npath for b in F.bodies.values() if any(VERSION_LAZY.match(c["ncallee"] or "") for c in b.calls_raw)}
    readers.discard("ant_protocol::version::set_network_id")
    callers = F.callers()
    todo = list(readers)
    while todo:
        x = todo.pop()
        for b, c in callers.get(x, ()):
            r = F.root_of(b).npath
            for nm in {b.npath, r}:
                if nm not in readers and nm != "antnode::main":
                    readers.add(nm)
                    todo.append(nm)
    read_blocks = {}
    for blk in main.blocks:
        t = blk["term"]
        if t["k"] == "call" and not blk["cleanup"]:
            nc = t.get("ncallee") or ""
            if VERSION_LAZY.match(nc) or nc in readers:
                read_blocks[blk["id"]] = nc
        if not blk["cleanup"]:
            for st in blk["stmts"]:
                rv = st["rv"]
                if rv["k"] == "agg" and rv.get("ak") in ("closure", "coroutine", "coroutine_closure"):
                    cb = F.body(rv.get("adt"))
                    if cb is not None and cb.npath in readers:
                        read_blocks[blk["id"]] = cb.npath
    sets = [blk["id"] for blk in main.blocks if blk["term"]["k"] == "call" and not blk["cleanup"] and callee_matches(blk["term"], ["ant_protocol::version::set_network_id"])]
    n, acc, rej = FieldOptGuard("network_id", ("Some",)).edges(main)
    if not acc:
        nidr = Taint(main).closure({d for d, r, p in field_reads(main, "network_id")})
        n, acc, rej = CallGuard(["core::option::Option::is_some"], ("true",), "network_id is Some", arg_pred=lambda b_, blk, t: op_local(t["args"][0]) in nidr).edges(main)
    ok = bool(sets) and bool(read_blocks)
    if sets and all(any(g.dominates(sb, rb) for sb in sets) for rb in read_blocks):
        pass        # applied unconditionally before every reader
    elif not sets or not acc:
        ok = False
        R.viol("C20.netid.first", "anchor-missing:set_network_id", "antnode::main no longer applies opt.network_id through version::set_network_id", main, main.lines[0])
    else:
        sw = {a for a, _ in acc}
        idom_ok = all(any(g.dominates(s_, rb) for s_ in sw) for rb in read_blocks)
        # on the Some side, the set call comes before any reader
        some_side = g.reach(tuple(d for _, d in acc), avoid=set(sets))
        late = [rb for rb in read_blocks if rb in some_side or not any(g.dominates(s_, rb) for s_ in sw)]
        # the value applied is the option's
        tn = Taint(main).closure({d for d, r, p in field_reads(main, "network_id")})
        okv = all(op_local(g.term(sb)["args"][0]) in tn for sb in sets)
        if late or not idom_ok:
            ok = False
            rb = sorted(late)[0]
            R.viol("C20.netid.first", "read-before-set:%s" % read_blocks[rb].split("::")[-1].replace(" as core", ""), "antnode::main reads the network version strings (%s) on a path that has not yet applied --network-id: the lazily built strings keep the default network" % read_blocks[rb], main, g.term(rb)["l"])
        if not okv:
            ok = False
            R.viol("C20.netid.first", "netid-value", "set_network_id is not called with opt.network_id", main, g.term(sets[0])["l"])
    R.inst("C20.netid.first", "K5 must-precede", "antnode::main applies --network-id before any (transitive) read of the version strings derived from it", len(read_blocks), ok,
           {"reading_calls": sorted(set(read_blocks.values()))[:30]})
    if len(read_blocks) < 2:
        R.viol("C20.netid.first", "instance-floor", "only %d version-reading calls found in antnode::main (floor 2)" % len(read_blocks))


def cache_dir_honoured(R):
    """--bootstrap-cache-dir (which the manager writes) must decide the cache location of the store the node really uses."""
    from rules import FieldOptGuard
    NEW = "ant_bootstrap::cache_store::BootstrapCacheStore::new_from_peers_args"
    b = R.body("C20.cachedir", NEW)
    if b is None:
        return
    prep(b)
    g = cfg_of(b)
    GET = "ant_bootstrap::initial_peers::PeersArgs::get_bootstrap_cache_path"
    news = {blk["id"] for blk in b.blocks if blk["term"]["k"] == "call" and not blk["cleanup"] and callee_matches(blk["term"], ["ant_bootstrap::cache_store::BootstrapCacheStore::new"])}
    gets = {blk["id"] for blk in b.blocks if blk["term"]["k"] == "call" and not blk["cleanup"] and callee_matches(blk["term"], [GET])}
    writes = {blk["id"] for blk in b.blocks if not blk["cleanup"] for st in blk["stmts"] if len(st["d"]) > 1 and ".cache_file_path" in st["d"][1:]}
    ok = bool(news) and bool(gets) and bool(writes)
    if not ok:
        R.viol("C20.cachedir", "anchor-missing:cache-path", "new_from_peers_args no longer reads PeersArgs::get_bootstrap_cache_path into config.cache_file_path before building the store", b, b.lines[0])
    else:
        if g.reach((0,), avoid=gets) & news:
            ok = False
            R.viol("C20.cachedir", "path-skips-arg", "new_from_peers_args can build the store without consulting --bootstrap-cache-dir (PeersArgs::get_bootstrap_cache_path)", b, b.lines[0],
                   trace=g.lines(g.path((0,), news, avoid=gets)))
        n, acc, rej = CallGuard([GET], ("Ok", "Some"), "a cache dir was given").edges(b)
        if not acc or (g.reach(tuple(d for _, d in acc), avoid=writes) & news):
            ok = False
            R.viol("C20.cachedir", "arg-not-applied", "a given --bootstrap-cache-dir does not replace config.cache_file_path before the store is built", b, b.lines[0])
    R.inst("C20.cachedir", "K5 must-pass", "new_from_peers_args: every path to BootstrapCacheStore::new consults --bootstrap-cache-dir and, when given, stores it in config.cache_file_path", 2, ok)


def evm_subcommand_first(R):
    """The network antctl writes as the `evm-*` subcommand decides; the environment is consulted only when no subcommand was given."""
    from rules import FieldOptGuard, closures_passed
    F = R.F
    main = R.body("C20.evm.precedence", "antnode::main")
    if main is None:
        return
    prep(main)
    g = cfg_of(main)
    ENV = "ant_evm::get_evm_network_from_env"
    ENVS = [ENV, "evmlib::utils::get_evm_network_from_env", "*::get_evm_network_from_env"]
    sub = Taint(main, through="all").closure({d for d, r, p in field_reads(main, "evm_network")})
    direct = [b["id"] for b in main.blocks if b["term"]["k"] == "call" and not b["cleanup"] and callee_matches(b["term"], ENVS)]
    # handed over as the default of `unwrap_or_else` / `or_else` / `map_or_else` on the subcommand option
    as_default = []
    for b in main.blocks:
        t = b["term"]
        if t["k"] != "call" or b["cleanup"]:
            continue
        nm = t.get("ngen") or t.get("ncallee") or ""
        if nm.endswith(("Option::unwrap_or_else", "Option::or_else", "Option::map_or_else", "Option::ok_or_else")) and op_local(t["args"][0]) in sub:
            cands = [a for a in t["args"][1:] if a and a[0] == "f" and a[1].endswith("get_evm_network_from_env")]
            cands += [cl for cl in closures_passed(F, main, t) if any(callee_matches(x["term"], ENVS) for x in (prep(cl) or cl.blocks) if x["term"]["k"] == "call")]
            if cands:
                as_default.append(b["id"])
    ok = bool(direct or as_default)
    if not ok:
        R.viol("C20.evm.precedence", "anchor-missing:get_evm_network_from_env", "antnode::main no longer falls back to the environment for the EVM network", main, main.lines[0])
    elif direct:
        n, acc, rej = FieldOptGuard("evm_network", ("None",), "no evm subcommand given").edges(main)
        if not acc or (set(direct) & g.reach((0,), cut=acc)):
            ok = False
            R.viol("C20.evm.precedence", "env-before-subcommand", "antnode::main consults the environment for the EVM network although an `evm-*` subcommand may have been given: the network antctl wrote can be overridden by the service environment", main, g.term(direct[0])["l"])
    R.inst("C20.evm.precedence", "K4 gate", "the EVM network from the environment is used only when no evm-* subcommand was given", len(direct) + len(as_default), ok)


def testnet_honoured(R):
    """`--testnet` (PeersArgs.disable_mainnet_contacts, which the manager writes) means the mainnet contacts are never fetched."""
    from rules import FieldBoolGuard
    b = R.body("C20.testnet", "ant_bootstrap::initial_peers::PeersArgs::get_bootstrap_addr::{closure#0}")
    if b is None:
        return
    prep(b)
    sink = CallSink("ant_bootstrap::contacts::ContactsFetcher::with_mainnet_endpoints", "*ContactsFetcher::with_mainnet_endpoints")
    R.gate("C20.testnet", b, sink, [[FieldBoolGuard("disable_mainnet_contacts", want=False, label="disable_mainnet_contacts is false")]],
           descr="the mainnet contacts are fetched only when --testnet was not given")


def archived_logs_honoured(R):
    """`--max-archived-log-files N` (written by the manager) decides the total kept: with it given, the total handed to the file rotater is
    N + the uncompressed count, not raised to a built-in minimum."""
    from rules import PL
    F = R.F
    fl = R.body("C20.logs.archived", "ant_logging::layers::TracingLayers::fmt_layer")
    if fl is None:
        return
    prep(fl)
    g = cfg_of(fl)
    rot = [b for b in fl.blocks if b["term"]["k"] == "call" and not b["cleanup"] and (b["term"].get("ncallee") or "").endswith("appender::file_rotater")]
    ok = bool(rot)
    if not rot:
        R.viol("C20.logs.archived", "anchor-missing:file_rotater", "fmt_layer no longer hands the file limits to appender::file_rotater", fl, fl.lines[0])
    else:
        tot = backward(fl, op_local(rot[0]["term"]["args"][3]))
        clamps = [b["id"] for b in fl.blocks if b["term"]["k"] == "call" and not b["cleanup"]
                  and (b["term"].get("ngen") or b["term"].get("ncallee") or "").endswith(("cmp::max", "cmp::min", "Ord::max", "Ord::min", "Ord::clamp"))
                  and len(b["term"].get("d") or []) == 1 and b["term"]["d"][0] in tot]
        tr = Tracker(fl)
        for l in Taint(fl).closure(PL(fl, 5)):     # (self, targets, dest, format, max_uncompressed, max_compressed, print)
            tr.seed_call_result(l, ("Some",), False)
        tr.run()
        if clamps:
            # a clamp on the total is fine only on the side where no explicit archived count was given
            if not tr.accept or (set(clamps) & g.reach((0,), cut=tr.reject)):
                ok = False
                R.viol("C20.logs.archived", "archived-count-clamped", "the total number of log files is raised to a built-in bound even when --max-archived-log-files was given: the option is accepted but ignored", fl, g.term(clamps[0])["l"])
        cmp_src = Taint(fl, through="all").closure(PL(fl, 5))
        if op_local(rot[0]["term"]["args"][3]) not in cmp_src:
            ok = False
            R.viol("C20.logs.archived", "archived-count-unused", "the archived-files count does not reach appender::file_rotater", fl, rot[0]["term"]["l"])
    R.inst("C20.logs.archived", "K6 flows-to", "max_archived_log_files reaches the rotater's total unclamped", len(rot), ok)


def env_recorded_before_install(R):
    """The environment given to `add` is recorded in the registry before any service is installed with it: an add that fails part-way
    must not leave services whose recorded (upgrade-time) environment differs from the one they were installed with."""
    add = R.body("C20.env.order", ADD)
    if add is None:
        return
    prep(add)
    g = cfg_of(add)
    writes = [blk["id"] for blk in add.blocks if not blk["cleanup"] for st in blk["stmts"]
              if (st["rv"]["k"] == "ref" and st["rv"].get("mut") and ".environment_variables" in st["rv"]["p"][1:]) or (len(st["d"]) > 1 and ".environment_variables" in st["d"][1:])]
    inst = [b["id"] for b in add.blocks if b["term"]["k"] == "call" and not b["cleanup"] and (b["term"].get("ncallee") or "").endswith("ServiceControl::install")]
    ok = bool(writes) and bool(inst) and not (set(writes) & g.reach(tuple(inst)))
    if not ok:
        R.viol("C20.env.order", "env-after-install", "add_node records the new environment in the registry after services were already installed with it (or not at all)", add, add.lines[0])
    R.inst("C20.env.order", "K5 must-precede", "registry.environment_variables is written before the first install", len(writes), ok)
