"""C17 — parsers of untrusted text and bytes never crash (K8: no panic-capable construct reachable in workspace code)."""
import panics  # noqa: F401  (attaches Run.no_panic_reach)

META = {
    "explanation_more": "Also (round 4): 'never panics or overflows' — the no-wrap and checked-arithmetic rules of C16's parser are evaluated here as C17.atto.*. Also (round 5): the merge of the parsed cache file into memory (sync_and_flush_to_disk → BootstrapAddr::sync) is a parser entry (C17.cache-merge).",
    "explanation": "Decides: from each listed parser entry point, the closure of workspace code reachable through resolved calls, "
                   "closures, fn items and serde Deserialize impls of the decoded types contains no panic-capable construct "
                   "(MIR Assert terminators for overflow/bounds/div-by-zero; unwrap/expect/panic!/Index/slicing/copy_from_slice/"
                   "ruint division and narrowing/Duration-SystemTime arithmetic) that is not discharged by a recognised dominating "
                   "length test or listed by exact key with a bounding reason. Not decided: panics inside third-party crates, and "
                   "the `parse(format(x)) == x` round trip.",
    "not_decided": ["panics inside third-party crates (hex, serde_json, libp2p multiaddr, ring, ruint parsing)", "formatter/parser round trip equality"],
    "trusted": ["table of panic-capable std/ruint APIs in engine/py/panics.py"],
    "technique": "static analysis: call-graph closure from parser entry points over rustc MIR + panic-site table + dominating-length-test recogniser",
}

ENTRIES = {
    "register-hex": ["ant_registers::address::RegisterAddress::from_hex"],
    "scratchpad-hex": ["ant_protocol::storage::address::scratchpad::ScratchpadAddress::from_hex"],
    "datamap-hex": ["autonomi::client::data::DataMapChunk::from_hex"],
    "str-to-addr": ["autonomi::client::address::str_to_addr"],
    "wallet-key": ["ant::wallet::encryption::decrypt_private_key"],
    "port-range-parse": ["ant_node_manager::add_services::config::PortRange::parse"],
    "port-range-validate": ["ant_node_manager::add_services::config::PortRange::validate"],
    "port-increment": ["ant_node_manager::helpers::increment_port_option"],
    "atto-from-str": ["<ant_evm::amount::AttoTokens as core::str::traits::FromStr>::from_str"],
    "multiaddr": ["ant_bootstrap::craft_valid_multiaddr_from_str", "ant_bootstrap::craft_valid_multiaddr"],
    "cache-file": ["ant_bootstrap::cache_store::BootstrapCacheStore::load_cache_data"],
    # what was parsed from the cache file is then merged into the in-memory cache (counters added, timestamps compared) before it is written back
    "cache-merge": ["ant_bootstrap::cache_store::BootstrapCacheStore::sync_and_flush_to_disk"],
    "registry-json": ["ant_service_management::NodeRegistry::from_json", "ant_service_management::NodeRegistry::load"],
    "record-header": ["ant_protocol::storage::header::RecordHeader::from_record", "ant_protocol::storage::header::RecordHeader::try_deserialize"],
    "record-body": ["ant_protocol::storage::header::try_deserialize_record"],
}

SUPPRESS = {}


# reachable-body floors (about half of what was measured on the pinned tree) keep the call-graph/serde closure honest
FLOORS = {"cache-file": 20, "registry-json": 60, "record-header": 7, "multiaddr": 4, "wallet-key": 5}


def run(R):
    from serdepair import serde_agreement
    serde_agreement(R, "C17.serde.pairs", ["ant_service_management::NodeRegistry", "ant_bootstrap::cache_store::CacheData"], 12)
    # formatter / parser pair of the registry file: what save() writes is what load() parses (the file is replaced whole)
    R.whole_file_write("C17.registry.whole", "ant_service_management::NodeRegistry::save", "NodeRegistry::save replaces the registry file whole")
    for name, entries in ENTRIES.items():
        R.no_panic_reach("C17." + name, entries, suppress=SUPPRESS, floor_bodies=FLOORS.get(name, 1))
    # "never panics or overflows": a silent wrap-around of the 256-bit amount while parsing is an overflow too (rules of C16)
    import props.C16 as _C16
    R.import_rules("C16", _C16.run, ["C16.nowrap", "C16.parse."], "C17.atto")
