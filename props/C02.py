"""C02 — a restarted node never serves corrupted records and keeps completed writes (structural clauses)."""
import os
import tomllib
from cfg import cfg_of
from flow import Taint, Tracker, callee_matches, field_reads, op_local, prep, backward
from rules import CallGuard, CallSink, CmpGuard, RetSink, AggSink, BlockSink
from rules import is_forward
from rules import PL
from props.C04 import call_results, NRS, agg_field_operands
from props.C01 import RS, WITHCFG
import facts

META = {
    "explanation_more": "Also (round 4): an acknowledged write is on disk — the completion notice is built only behind the file write's own Ok (a result that is also assigned a constant Ok on another path decides nothing) and always registers the key (C02.persist.*); with_config removes nothing from the recovered index or the directory (C02.rebuild.keeps) and hands the scan and the store derive_aes256gcm_siv_from_seed(seed) unmodified (C02.details.stable). Also (round 5): write and delete jobs of a record file go through one dispatch primitive (C02.disk.jobs.same-queue).",
    "explanation": "Decides: (1) the shipped configuration: ant-node's default features contain encrypt-records, which forwards to "
                   "ant-networking/encrypt-records, the analysed ant_networking build has cfg(feature=\"encrypt-records\"), and with the "
                   "literal cfg! folded the un-authenticated `return Some(record)` of get_record_from_bytes is unreachable; (2) "
                   "get_record_from_bytes returns Some only on the Ok side of Aead::decrypt; the start-up scan keeps an entry only if "
                   "get_record_from_bytes is Some and the header parses, and deletes the file on the failing sides, while on the side where every decode check accepts neither a deletion nor any exit other than the index entry is reachable (a completed write is always re-indexed); (3) with_config seeds "
                   "records, records_by_distance and farthest_record from that scan, so a completed file write is recovered even if its "
                   "AddLocalRecordAsStored was lost; (4) the encryption seed derives only from PeerId::from(keypair.public()) and the nonce "
                   "only from the record key — no time/random source flows into either. Also: the record directory is wiped, and the version marker that decides it rewritten, only on a version mismatch (or an absent marker); with_config scans the directory on every path and nothing bounds the walk; file APIs, paths, nonces and removals obey the disk rules shared with C01 (files touched only by their owning functions, remove() deletes the file on every path). Not decided: that every torn prefix fails "
                   "AES-GCM-SIV authentication; OS semantics of a crashed fs::write.",
    "not_decided": ["AES-GCM-SIV rejects every truncated/mixed ciphertext (cryptographic assumption)", "file-system behaviour of an interrupted fs::write"],
    "assumptions": ["an AEAD authentication failure is what distinguishes a torn file from a complete one"],
}

GRB = NRS + "::get_record_from_bytes"
SCAN = NRS + "::update_records_from_an_existing_store"


def run(R):
    wipe_rules(R)
    F = R.F
    # (1) shipped configuration
    with open(os.path.join(facts.REPO, "ant-node", "Cargo.toml"), "rb") as fh:
        node = tomllib.load(fh)
    feats = node.get("features", {})
    d = feats.get("default", [])
    ok = "encrypt-records" in d and "ant-networking/encrypt-records" in feats.get("encrypt-records", [])
    if not ok:
        R.viol("C02.cfg.default", "feature-default", "ant-node's default features no longer enable ant-networking/encrypt-records (default=%s)" % d)
    R.inst("C02.cfg.default", "K12 manifest fact", "ant-node default features ⊇ encrypt-records → ant-networking/encrypt-records", 1, ok, {"default": d})
    netf = [c["features"] for c in F.crates.values() if c["crate"] == "ant_networking"]
    ok = bool(netf) and all("encrypt-records" in f for f in netf)
    if not ok:
        R.viol("C02.cfg.build", "feature-build", "the analysed ant_networking build is not compiled with feature encrypt-records: %s" % netf)
    R.inst("C02.cfg.build", "K12 manifest fact", "analysed ant_networking build has cfg(feature = \"encrypt-records\")", len(netf), ok, {"features": netf})

    # (2) authenticated-decrypt gate
    grb = R.body("C02.decrypt", GRB)
    if grb is not None:
        prep(grb)
        g = cfg_of(grb)
        R.gate("C02.decrypt", grb, AggSink("core::option::Option", "Some", dest_ty="Cow<", computed=True),
               [[CallGuard(["*aead::Aead>::decrypt", "*aead::Aead::decrypt"], ("Ok",), "cipher.decrypt is Ok")]],
               descr="get_record_from_bytes returns Some only for an authenticated ciphertext (cfg! literal folded)")
        R.inst("C02.decrypt.fold", "K12 manifest fact", "cfg!(feature=\"encrypt-records\") literal folded in get_record_from_bytes", len(g.folded), bool(g.folded) and g.folded[0][1] == "true",
               {"folded": g.folded})
        if not g.folded or g.folded[0][1] != "true":
            R.viol("C02.decrypt.fold", "cfg-literal", "expected a `cfg!(feature = \"encrypt-records\")` literal evaluating to true in get_record_from_bytes", grb, grb.lines[0])
        # the decrypted value is what is returned
        ta = Taint(grb, through="all")
        dec = ta.closure(call_results(["*aead::Aead>::decrypt", "*aead::Aead::decrypt"])(grb))
    prb = R.body("C02.encrypt", NRS + "::prepare_record_bytes")
    if prb is not None:
        prep(prb)
        R.gate("C02.encrypt", prb, AggSink("core::option::Option", "Some", dest_ty="Vec<u8>", computed=True),
               [[CallGuard(["*aead::Aead>::encrypt", "*aead::Aead::encrypt"], ("Ok",), "cipher.encrypt is Ok")]],
               descr="what is written to disk is the AEAD ciphertext (cfg! literal folded)")
    scan_cl = [b for b in F.item(SCAN) if b.kind == "closure" and any(c["ncallee"] == GRB for c in b.calls)]
    if not scan_cl:
        R.viol("C02.scan", "anchor-missing:scan-closure", "start-up scan closure calling get_record_from_bytes not found")
    for sc in scan_cl:
        prep(sc)
        some = AggSink("core::option::Option", "Some", dest_ty="RecordType")
        R.gate("C02.scan", sc, some,
               [[CallGuard([GRB], ("Some",), "get_record_from_bytes is Some")],
                [CallGuard(["std::fs::read"], ("Ok",), "fs::read is Ok")],
                [CallGuard(["ant_protocol::storage::header::RecordHeader::is_record_of_type_chunk"], ("Ok",), "record header parses")],
                [CallGuard([NRS + "::get_data_from_filename"], ("Some",), "file name decodes to a key")]],
               descr="start-up scan indexes a file only if it decrypts, parses and its name is a key")
        # failing sides delete the file
        g = cfg_of(sc)
        rm = set(CallSink("std::fs::remove_file").blocks(sc))
        for gd in (CallGuard([GRB], ("Some",), "get_record_from_bytes is Some"),
                   CallGuard(["ant_protocol::storage::header::RecordHeader::is_record_of_type_chunk"], ("Err",), "record header fails to parse")):
            n, acc, rej = gd.edges(sc)
            edges = rej if gd.steps == ("Some",) else acc
            rets = {b["id"] for b in sc.blocks if b["term"]["k"] == "return"}
            ok = bool(edges) and all(not (g.reach((d,), avoid=rm) & rets) for _, d in edges)
            if not ok:
                R.viol("C02.scan.cleanup", "no-cleanup:%s" % gd.label, "a file failing `%s` is not deleted by the start-up scan" % gd.label, sc, sc.lines[0])
            R.inst("C02.scan.cleanup", "K5 must-follow", "file removed when not (%s)" % gd.label if gd.steps == ("Some",) else "file removed when %s" % gd.label, len(edges), ok)
        # a file that passes every decode check is indexed: no other exit, and no deletion, is reachable on the all-accepting side
        checks = [CallGuard(["std::path::Path::is_file"], ("true",), "path.is_file()"),
                  CallGuard(["std::path::Path::file_name", "core::option::Option::and_then", "std::ffi::os_str::OsStr::to_str"], ("Some",), "file name is UTF-8"),
                  CallGuard([NRS + "::get_data_from_filename"], ("Some",), "file name decodes to a key"),
                  CallGuard(["std::fs::read"], ("Ok",), "fs::read is Ok"),
                  CallGuard([GRB], ("Some",), "get_record_from_bytes is Some"),
                  CallGuard(["ant_protocol::storage::header::RecordHeader::is_record_of_type_chunk"], ("Ok",), "record header parses")]
        rejects = set()
        for gd in checks:
            rejects |= gd.edges(sc)[2]
        live = g.reach((0,), cut=rejects)
        somes = set(some.blocks(sc))
        other_exits = []
        for b in sc.blocks:
            if b["cleanup"] or b["id"] not in live or b["id"] in somes:
                continue
            if any(st["d"] == [0] for st in b["stmts"]) or (b["term"]["k"] == "call" and is_forward(sc, b["term"])):
                other_exits.append(b)
        bad_rm = sorted(rm & live)
        okc = bool(somes) and not other_exits and not bad_rm
        for b in other_exits[:1]:
            ln = next((st["l"] for st in b["stmts"] if st["d"] == [0]), b["term"].get("l"))
            R.viol("C02.scan.complete", "skipped-valid-file", "the start-up scan can skip (not index) a file that is readable, decrypts under its name's key and parses", sc, ln)
        for bb in bad_rm[:1]:
            R.viol("C02.scan.complete", "deletes-valid-file", "the start-up scan can delete a file that is readable, decrypts under its name's key and parses", sc, g.term(bb).get("l"))
        R.inst("C02.scan.complete", "K4 gate (must-reach)", "every file passing all decode checks is indexed: no deletion and no other exit on the all-accepting side",
               len(rejects), okc, {"reject_edges": len(rejects), "removals": len(rm)})
        # key ↔ file name ↔ decrypt key agreement
        ta = Taint(sc, through="all")
        keys = ta.closure(call_results([NRS + "::get_data_from_filename"])(sc))
        calls = [b for b in sc.blocks if b["term"]["k"] == "call" and callee_matches(b["term"], [GRB])]
        ok = bool(calls) and all(op_local(b["term"]["args"][1]) in keys for b in calls)
        if not ok:
            R.viol("C02.scan.key", "scan-key", "the start-up scan does not decrypt a file under the key its own name encodes", sc, sc.lines[0])
        R.inst("C02.scan.key", "K6 flows-to", "file decrypted and indexed under the key decoded from its own file name", len(calls), ok)
        # the entry produced is (that key, (address of that key, type of that record))
        addr = ta.closure(call_results(["ant_protocol::NetworkAddress::from_record_key"])(sc))
        fr = [b for b in sc.blocks if b["term"]["k"] == "call" and callee_matches(b["term"], ["ant_protocol::NetworkAddress::from_record_key"])]
        oka = bool(fr) and all(op_local(b["term"]["args"][0]) in keys for b in fr)
        rec = ta.closure({g.term(b["id"])["d"][0] for b in calls})
        ty = [b for b in sc.blocks if b["term"]["k"] == "call" and callee_matches(b["term"], ["ant_protocol::storage::header::RecordHeader::is_record_of_type_chunk", "xor_name::XorName::from_content"])]
        oka = oka and bool(ty) and all(op_local(b["term"]["args"][0]) in rec for b in ty)
        if not oka:
            R.viol("C02.scan.entry", "scan-entry", "the start-up scan does not index a file under (its key, the address of that key, the type of that record)", sc, sc.lines[0])
        R.inst("C02.scan.entry", "K6 flows-to", "index entry = (key, (address_of(key), type_of(decrypted record)))", len(fr) + len(ty), oka)

    file_rules(R, "C02")

    # (3) index rebuilt from files
    wc = R.body("C02.rebuild", WITHCFG)
    if wc is not None:
        prep(wc)
        ta = Taint(wc, through="all")
        scanned = ta.closure(call_results([SCAN])(wc))
        ok = True
        for f in ("records", "records_by_distance"):
            ops = agg_field_operands(wc, NRS, f)
            if not ops or not all(op_local(o) in scanned for _, _, o in ops):
                ok = False
                R.viol("C02.rebuild", "not-from-scan:%s" % f, "with_config does not build `%s` from the start-up scan" % f, wc, wc.lines[0])
        far = [b for b in wc.blocks if b["term"]["k"] == "call" and callee_matches(b["term"], [NRS + "::calculate_farthest"])]
        if not far:
            ok = False
            R.viol("C02.rebuild", "farthest-not-recomputed", "with_config does not recompute farthest_record from the recovered index", wc, wc.lines[0])
        R.inst("C02.rebuild", "K6 flows-to", "records, records_by_distance and farthest_record are rebuilt from the files found at start-up", 3, ok)
        R.must_call("C02.rebuild.walk", SCAN, ["walkdir::WalkDir::new"], "scan walks the storage directory")
        # the scan runs on every start, whatever else could or could not be restored
        R.must_pass("C02.rebuild.always", wc, [("update_records_from_an_existing_store", CallSink(SCAN))], descr="with_config scans the storage directory on every path")
        # ... and walks the whole directory: nothing bounds or skips entries between WalkDir and the collected index
        sb = R.body("C02.rebuild.all", SCAN)
        if sb is not None:
            prep(sb)
            from rules import _chain_calls
            names, _f = _chain_calls(F, sb, 0, depth=0)
            BOUNDING = ("::take", "::skip", "::step_by", "::take_while", "::skip_while", "::nth", "::last", "::first", "::truncate", "::max_depth", "::min_depth", "::split_off", "::drain", "::pop")
            bounded = [n for n in names if n.endswith(BOUNDING) or any((x + "<") in n for x in BOUNDING)]
            ok_all = "walkdir::WalkDir::new" in names and not bounded
            if not ok_all:
                R.viol("C02.rebuild.all", "walk-bounded:%s" % (bounded[0].split("::")[-1] if bounded else "walk-missing"),
                       "the start-up scan does not index every file of the storage directory (%s between the directory walk and the index)" % (bounded[0] if bounded else "WalkDir not on the chain"), sb, sb.lines[0])
            R.inst("C02.rebuild.all", "K6 flows-to", "index = every entry of WalkDir(storage_dir) that passes process_entry: no take/skip/depth bound", len(names), ok_all)
        # ... keeps what it found: a restart removes no record (no trimming to capacity, no eviction at start-up) — the only files a
        # start may delete are the ones the scan could not decode
        REMOVE_ = "<ant_networking::record_store::NodeRecordStore as libp2p_kad::record::store::RecordStore>::remove"
        drops = [(b, c) for b in F.item(WITHCFG) for c in b.calls if (c["ncallee"] or "") in (REMOVE_, NRS + "::prune_records_if_needed", NRS + "::cleanup_irrelevant_records", "std::fs::remove_file")
                 or (c["ncallee"] or "").endswith(("HashMap::remove", "HashMap::retain", "HashMap::clear", "BTreeMap::remove", "BTreeMap::retain", "BTreeMap::split_off"))]
        for b, c in drops:
            R.viol("C02.rebuild.keeps", "restart-removes:%s" % c["ncallee"].split("::")[-1], "with_config calls %s: a restart can drop records whose writes had completed" % c["ncallee"], b, c["line"])
        R.inst("C02.rebuild.keeps", "K1 forbidden-callee", "with_config removes nothing from the recovered index or the storage directory", len(wc.calls), not drops)
        # ... and decodes with the same cipher and nonce starter as before the restart: what is handed to the scan and kept in the
        # store is derive_aes256gcm_siv_from_seed(config.encryption_seed), unmodified (no component overwritten from a clock or a file)
        DER = RS + "derive_aes256gcm_siv_from_seed"
        der = call_results([DER])(wc)
        from flow import whole_uses
        dcl = set(whole_uses(wc, der)[0]) | set(der)      # the value whole: copies, moves, references — not aggregates it is put into
        partial = [st for blk in wc.blocks if not blk["cleanup"] for st in blk["stmts"] if len(st["d"]) > 1 and st["d"][0] in dcl and [e for e in st["d"][1:] if e != "*"]]
        partial += [blk["term"] for blk in wc.blocks if not blk["cleanup"] and blk["term"]["k"] == "call" and len(blk["term"].get("d") or []) > 1 and blk["term"]["d"][0] in dcl]
        ops_e = agg_field_operands(wc, NRS, "encryption_details")
        scan_calls = [b for b in wc.blocks if b["term"]["k"] == "call" and not b["cleanup"] and callee_matches(b["term"], [SCAN])]
        oke = bool(der) and not partial and bool(ops_e) and all(op_local(o) in dcl for _, _, o in ops_e) and bool(scan_calls) and all(any(op_local(a) in dcl for a in b["term"]["args"]) for b in scan_calls)
        if not oke:
            R.viol("C02.details.stable", "details-modified", "with_config does not use derive_aes256gcm_siv_from_seed(config.encryption_seed) unmodified for the start-up scan and the store "
                   "(a component is overwritten, or another value is used): files written before a restart may no longer decrypt after it", wc, wc.lines[0])
        R.inst("C02.details.stable", "K6 flows-to", "encryption details = derive_aes256gcm_siv_from_seed(seed), unmodified, for both the scan and the store", len(ops_e) + len(scan_calls), oke)
    # (3a') an acknowledged write is on disk: the completion notice is built only behind the file write's Ok, and always registers
    # the key (rules of C01, which "keeps completed writes" rests on)
    import props.C01 as _C01
    R.import_rules("C01", _C01.run, ["C01.mark-after-write", "C01.mark.", "C01.arm.always", "C01.failed-write"], "C02.persist")
    # (3b) files are touched only by their owning functions, removals delete the file (rules shared with C01)
    from props.C01 import disk_rules, remove_and_mark_rules
    disk_rules(R, "C02.disk")
    remove_and_mark_rules(R, "C02.disk")
    if True:
        pass

    # (4) stable identity
    bn = R.body("C02.seed", "ant_networking::driver::NetworkBuilder::build_node")
    if bn is not None:
        prep(bn)
        ops = agg_field_operands(bn, RS + "NodeRecordStoreConfig", "encryption_seed")
        ok = bool(ops)
        for _, s, o in ops:
            back = backward(bn, op_local(o), extra=["libp2p_identity::peer_id::PeerId::to_bytes", "core::slice::<impl [T]>::get", "*::get", "core::option::Option::expect",
                                                    "core::result::Result::expect", "*TryInto<U>>::try_into", "*TryInto>::try_into", "core::convert::TryInto::try_into",
                                                    "*PeerId as core::convert::From<libp2p_identity::keypair::PublicKey>>::from", "libp2p_identity::keypair::Keypair::public",
                                                    "*Deref>::deref", "*::index"])
            srcs = {d for d, r, p in field_reads(bn, "keypair")}
            if not (back & srcs):
                ok = False
                R.viol("C02.seed", "seed-source", "encryption_seed is not derived from the node keypair's peer id", bn, s["l"])
            # no time / randomness on the way
            for blk in bn.blocks:
                t = blk["term"]
                if t["k"] == "call" and t["d"] and t["d"][0] in back and any(x in (t["ncallee"] or "") for x in ("rand", "SystemTime", "Instant", "thread_rng", "getrandom")):
                    ok = False
                    R.viol("C02.seed", "seed-nondeterministic", "encryption_seed depends on %s" % t["ncallee"], bn, t["l"])
        if not ops:
            R.viol("C02.seed", "seed-missing", "NodeRecordStoreConfig.encryption_seed is not set in build_node", bn, bn.lines[0])
        R.inst("C02.seed", "K6 flows-to", "encryption_seed = f(PeerId::from(keypair.public())) only", len(ops), ok)
    gn = R.body("C02.nonce", RS + "generate_nonce_for_record")
    if gn is not None:
        bad = [c for c in gn.calls if any(x in (c["ncallee"] or "") for x in ("rand", "SystemTime", "Instant", "thread_rng", "getrandom"))]
        if bad:
            R.viol("C02.nonce", "nonce-nondeterministic", "generate_nonce_for_record uses %s" % bad[0]["ncallee"], gn, bad[0]["line"])
        prep(gn)
        ta = Taint(gn, through="all")
        okk = 0 in ta.closure(PL(gn, 1)) and 0 in ta.closure(PL(gn, 0))  # (nonce_starter, key) by position
        if not okk:
            R.viol("C02.nonce", "nonce-inputs", "nonce does not depend on both the key and the seed-derived starter", gn, gn.lines[0])
        R.inst("C02.nonce", "K6 flows-to", "nonce = f(seed-derived starter, record key), deterministic", 2, okk and not bad)
    ds = R.body("C02.cipher", RS + "derive_aes256gcm_siv_from_seed")
    if ds is not None:
        bad = [c for c in ds.calls if any(x in (c["ncallee"] or "") for x in ("rand::", "SystemTime", "Instant", "thread_rng", "getrandom"))]
        if bad:
            R.viol("C02.cipher", "cipher-nondeterministic", "cipher derivation uses %s" % bad[0]["ncallee"], ds, bad[0]["line"])
        R.inst("C02.cipher", "K1 forbidden-callee", "cipher key derivation from the seed is deterministic (no rand/time source)", len(ds.calls), not bad)


WIPE = "ant_networking::driver::check_and_wipe_storage_dir_if_necessary"


def wipe_rules(R):
    """The start-up wipe: the record directory is removed, and the version marker that decides it is rewritten, only when the
    stored marker differs from this build's version.  (A marker rewritten on every start can be left empty by a start that is
    interrupted or hits a full disk, and the next start then wipes every completed record.)"""
    from rules import PL
    F = R.F
    wb = R.body("C02.wipe", WIPE)
    if wb is None:
        return
    prep(wb)
    cur = lambda b: Taint(b).closure(PL(b, 2))   # cur_version_str (root_dir, storage_dir_path, cur_version_str)
    def prev(b):
        # the string the marker file was read into
        ta = Taint(b, through="all")
        rd = [blk for blk in b.blocks if blk["term"]["k"] == "call" and callee_matches(blk["term"], ["*std::io::Read>::read_to_string", "std::fs::read_to_string", "std::io::Read::read_to_string"])]
        seeds = set()
        for blk in rd:
            t = blk["term"]
            seeds.add(t["d"][0])
            for a in t["args"]:
                l = op_local(a)
                if l is not None and "&mut" in b.locals.get(str(l), ""):
                    seeds |= ta.ref_of.get(l, set())
        return Taint(b).closure(seeds)
    differ = CmpGuard(cur, prev, "Ne", "this build's version != the version marker on disk")
    R.gate("C02.wipe.gate", wb, CallSink("std::fs::remove_dir_all", "std::fs::remove_dir", "std::fs::remove_file"), [[differ]],
           descr="the record directory is wiped only on a version mismatch")
    # ... and the mismatch is established from a marker that was actually read (a read error must not look like "no version")
    read_ok = CallGuard(["*std::io::Read>::read_to_string", "std::io::Read::read_to_string", "std::fs::read_to_string"], ("Ok",), "the marker file was read")
    R.gate("C02.wipe.read", wb, CallSink("std::fs::remove_dir_all"), [[read_ok, CallGuard(["std::fs::File::open"], ("Err",), "the marker file could not be opened (first start)")]],
           descr="the record directory is wiped only after the marker was read successfully (or does not exist)")
    absent = CallGuard(["std::fs::File::open"], ("Err",), "the marker file could not be opened (first start)")
    R.gate("C02.wipe.marker", wb, CallSink("std::fs::write", "std::fs::OpenOptions::open", "std::io::Write::write_all", "*std::io::Write>::write_all", "std::fs::File::create"),
           [[differ, absent]], descr="the version marker is (re)written only on a mismatch or when it does not exist yet")
    # the path wiped is the storage directory parameter, the marker lives outside it (under root_dir)
    ta = Taint(wb, through="all")
    rms = [b for b in wb.blocks if b["term"]["k"] == "call" and not b["cleanup"] and callee_matches(b["term"], ["std::fs::remove_dir_all"])]
    okp = bool(rms) and all(op_local(b["term"]["args"][0]) in Taint(wb).closure(PL(wb, 1)) for b in rms)
    if not okp:
        R.viol("C02.wipe.path", "wipe-path", "the directory wiped is not the storage_dir_path argument", wb, wb.lines[0])
    R.inst("C02.wipe.path", "K6 flows-to", "remove_dir_all(storage_dir_path)", len(rms), okp)
    R.who_may_call("C02.wipe.who", ["std::fs::remove_dir_all"], [WIPE], floor=1, ignore_crates=tuple(c for c in {b.crate for b in F.bodies.values()} if c != "ant_networking"),
                   descr="remove_dir_all in ant_networking only in the version-mismatch wipe")


def file_rules(R, pfx="C02"):
    """How a record's bytes and its file relate (shared with C01): the file is replaced whole on every write, and its name is the
    injective hex encoding of the key, read back with hex::decode."""
    F = R.F
    # (2c) a record file is always replaced whole (a shorter overwrite must not leave the old tail behind)
    from flow import backward_calls
    n = 0
    okw = True
    for b in F.item(NRS + "::put_verified"):
        prep(b)
        for blk in b.blocks:
            t = blk["term"]
            if t["k"] != "call" or blk["cleanup"]:
                continue
            nc = t["ncallee"] or ""
            if nc in ("std::fs::write", "std::fs::File::create"):
                n += 1
            elif nc == "std::fs::File::create_new":
                n += 1
                okw = False
                R.viol(pfx + ".whole-file", "create-new", "put_verified creates the record file with File::create_new: writing a key whose file exists fails", b, t["l"])
            elif nc == "std::fs::OpenOptions::open":
                n += 1
                _, calls = backward_calls(b, op_local(t["args"][0]))
                names = {}
                for c in calls:
                    cn = (c["ncallee"] or "").split("::")[-1]
                    val = c["args"][1][1] if len(c["args"]) > 1 and c["args"][1][0] == "c" else None
                    names[cn] = val
                whole = names.get("truncate") == "true"
                writes = names.get("write") == "true" or names.get("append") == "true"
                if writes and names.get("create_new") == "true" or nc == "std::fs::File::create_new":
                    # a record file is overwritten in place (a newer version of a mutable record, a re-put of a chunk whose cache
                    # entry aged out): create_new fails with AlreadyExists, and the failed-write path then removes the good copy
                    okw = False
                    R.viol(pfx + ".whole-file", "create-new", "put_verified opens the record file with create_new(true): writing a key whose file exists fails, and the failed-write "
                           "clean-up removes the copy that was there", b, t["l"])
                elif writes and not whole:
                    okw = False
                    R.viol(pfx + ".whole-file", "no-truncate", "put_verified opens the record file for writing without truncate(true): a shorter overwrite leaves the tail of the old "
                           "version, which fails authentication after a restart (the completed write is lost) or is served mixed", b, t["l"])
    if n < 1:
        okw = False
        R.viol(pfx + ".whole-file", "writer-missing", "no file-writing call found in put_verified")
    R.inst(pfx + ".whole-file", "K1 forbidden-callee", "record files are replaced whole, existing or not (fs::write / File::create / OpenOptions with truncate)", n, okw)

    # (2d) file name ↔ key: generate_filename and get_data_from_filename are hex encode / decode of the key bytes
    gf = R.body(pfx + ".filename", NRS + "::generate_filename")
    gd_ = R.body(pfx + ".filename", NRS + "::get_data_from_filename")
    if gf is not None and gd_ is not None:
        enc = [c["ncallee"] for c in gf.calls if (c["ncallee"] or "").startswith("hex::")]
        dec = [c["ncallee"] for c in gd_.calls if (c["ncallee"] or "").startswith("hex::")]
        okf = enc == ["hex::encode"] and dec == ["hex::decode"]
        # the name is the *whole* encoding: nothing shortens or rewrites the string after hex::encode (two keys must never share a file)
        extra = [c["ncallee"] for c in gf.calls if not (c["ncallee"] or "").startswith("hex::") and not any(x in (c["ncallee"] or "") for x in ("AsRef", "as_ref", "Deref", "deref", "Borrow", "borrow"))]
        prep(gf)
        direct = any(blk["term"]["k"] == "call" and (blk["term"]["ncallee"] or "") == "hex::encode" and blk["term"]["d"] == [0] for blk in gf.blocks)
        if extra or not direct:
            okf = False
            R.viol(pfx + ".filename", "name-not-injective", "generate_filename does not return hex::encode(key) unchanged (%s): distinct keys can map to one file" % (extra[:2] or "result post-processed"), gf, gf.lines[0])
        if not okf:
            R.viol(pfx + ".filename", "name-codec", "record file names are written with %s but read back with %s" % (enc, dec), gf, gf.lines[0])
        R.inst(pfx + ".filename", "K7 table agreement", "file name = hex::encode(key); start-up scan reads it back with hex::decode", 2, okf, {"writer": enc, "reader": dec})

