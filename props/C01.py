"""C01 — validated records read back byte-exact from a node's store (structural clauses)."""
from cfg import cfg_of
from flow import Taint, Tracker, callee_matches, field_reads, op_local, prep, locals_of_type
from rules import CallGuard, CallSink, CmpGuard, RetSink, AggSink, BlockSink
from rules import is_forward
from rules import PL
from props.C04 import call_results, RS_PUT, NRS, agg_field_operands
from flow import backward

META = {
    "explanation_more": "Also (round 4): what a record file decodes to is the authenticated plaintext written for that key (C02's decrypt / encrypt gates and nonce derivation, evaluated here as C01.codec.*); the spawned write task and the read path contain no panic-capable construct on a record's key or value (C01.io.nopanic); a record file is never opened with create_new (a re-put of an existing key must succeed). Also (round 5): the write job and the delete job of a record file are handed to the same dispatch primitive (C01.jobs.same-queue — necessary, not sufficient, for their order); evictions and refusals are decided only by C10's capacity rules (C01.evict.*).",
    "explanation": "Decides: (1) NodeRecordStore.records / records_by_distance are mutated only by mark_as_stored and remove (and built by "
                   "with_config), records_cache only by put_verified and remove; put_verified and mark_as_stored are reachable only from the "
                   "PutLocalRecord / AddLocalRecordAsStored arms of SwarmDriver::handle_local_cmd; the network-facing RecordStore::put writes "
                   "nothing; (2) LocalSwarmCmd::AddLocalRecordAsStored is constructed only in put_verified's spawned task and only on the Ok "
                   "side of fs::write (the Err side constructs RemoveFailedLocalRecord), so a key enters the index only after its file write "
                   "returned; (3) the path given to fs::write, fs::read and fs::remove_file is storage_dir.join(generate_filename(key)) for the "
                   "record's own key, and encrypt/decrypt take nonce = generate_nonce_for_record(.., that key) and the cipher from "
                   "encryption_details; (4) RecordStore::get serves from disk only behind records.contains_key(k); the only other Some is the "
                   "cache hit; (5) every path through remove drops the key from the index, the cache and spawns the file delete. "
                   "Also: the completion notice registers the key on every path (mark_as_stored, and its handle_local_cmd arm always calls it; notices are sent with an awaited Sender::send, never try_send); read_from_disk answers a file that reads Ok with get_record_from_bytes' verdict only; the file is replaced whole and named by the injective hex encoding of the key. Not decided: byte equality of what fs / AES-GCM-SIV return; ordering of two tasks for the *same* key.",
    "not_decided": ["byte-level behaviour of std::fs and aes-gcm-siv", "completion order of two spawned tasks for the same key (the property restricts to different keys)"],
}

RS = "ant_networking::record_store::"
API = "ant_networking::record_store_api::UnifiedRecordStore::"
HLC = "ant_networking::cmd::<impl ant_networking::driver::SwarmDriver>::handle_local_cmd"
LSC = "ant_networking::cmd::LocalSwarmCmd"
GET = "<%s as libp2p_kad::record::store::RecordStore>::get" % NRS
REMOVE = "<%s as libp2p_kad::record::store::RecordStore>::remove" % NRS
PUTV = NRS + "::put_verified"
MARK = NRS + "::mark_as_stored"
WITHCFG = NRS + "::with_config"


WRITE_APIS = ["std::fs::write", "std::fs::OpenOptions::open", "std::fs::File::create", "std::fs::File::create_new"]


def write_verdict_guards(steps):
    """guards whose accepting side means `the record file write completed` (fs::write, or open(..).and_then(write_all ..), or write_all itself)"""
    opened = lambda b, blk, t: op_local(t["args"][0]) in Taint(b, through="all").closure(call_results(["std::fs::OpenOptions::open", "std::fs::File::create"])(b))
    return [CallGuard(["std::fs::write"], steps, "fs::write is %s" % steps[0]),
            CallGuard(["core::result::Result::and_then"], steps, "open(..).and_then(write) is %s" % steps[0], arg_pred=opened),
            CallGuard(["*std::io::Write>::write_all", "std::io::Write::write_all"], steps, "write_all is %s" % steps[0])]


def store_rules(R, pfx):
    """ownership rules shared by C01 and C10"""
    writers = [MARK, REMOVE]
    R.who_may_write(pfx + ".own.records", NRS, "records", writers, floor=2, descr="records is mutated only by mark_as_stored and remove")
    R.who_may_write(pfx + ".own.by_distance", NRS, "records_by_distance", writers, floor=2, descr="records_by_distance is mutated only by mark_as_stored and remove")
    R.who_may_write(pfx + ".own.farthest", NRS, "farthest_record", writers + [WITHCFG], floor=2, descr="farthest_record is written only by mark_as_stored, remove, with_config")
    # co-mutation
    w1 = set(R.writers_of(NRS, "records"))
    w2 = set(R.writers_of(NRS, "records_by_distance"))
    ok = w1 == w2 and bool(w1)
    if not ok:
        R.viol(pfx + ".own.comutation", "co-mutation:%s" % sorted(w1 ^ w2), "records and records_by_distance are not mutated by the same functions: %s vs %s" % (sorted(w1), sorted(w2)))
    R.inst(pfx + ".own.comutation", "K2 co-mutation", "every writer of records also writes records_by_distance", len(w1 | w2), ok)
    R.who_may_construct(pfx + ".own.literal", NRS, None, [WITHCFG], floor=1, descr="NodeRecordStore is only built by with_config")


def run(R):
    F = R.F
    store_rules(R, "C01")
    R.who_may_write("C01.own.cache", NRS, "records_cache", [PUTV, REMOVE], floor=2, descr="records_cache is mutated only by put_verified and remove")
    R.who_may_call("C01.call.put_verified", [PUTV], [API + "put_verified"], floor=1, descr="NodeRecordStore::put_verified only via UnifiedRecordStore")
    R.who_may_call("C01.call.put_verified.api", [API + "put_verified"], [HLC], floor=1, descr="put_verified only from handle_local_cmd (PutLocalRecord)")
    R.who_may_call("C01.call.mark", [MARK], [API + "mark_as_stored"], floor=1, descr="mark_as_stored only via UnifiedRecordStore")
    R.who_may_call("C01.call.mark.api", [API + "mark_as_stored"], [HLC], floor=1, descr="mark_as_stored only from handle_local_cmd (AddLocalRecordAsStored)")
    # arms
    hlc = R.body("C01.arm", HLC)
    if hlc is not None:
        import tables as T
        prep(hlc)
        arms, _ = T.arm_targets(F, hlc, LSC, min_frac=0.5)
        g = cfg_of(hlc)
        ok = bool(arms)
        if ok:
            for callee, arm in ((API + "put_verified", "PutLocalRecord"), (API + "mark_as_stored", "AddLocalRecordAsStored")):
                blocks = set(CallSink(callee).blocks(hlc))
                region = g.reach(tuple(arms.get(arm, ())))
                others = set()
                for a, st in arms.items():
                    if a != arm:
                        others |= g.reach(tuple(st))
                # blocks only reachable through the right arm
                if not blocks or not blocks <= region or (blocks & others):
                    ok = False
                    R.viol("C01.arm", "wrong-arm:%s" % callee.split("::")[-1], "%s is not confined to the %s arm of handle_local_cmd" % (callee.split("::")[-1], arm), hlc, hlc.lines[0])
            # ... and each of these arms always performs its store operation (a notice that is dropped leaves a written record unlisted,
            # a failed write that is not removed leaves a listed key without a file)
            for callee, arm, what in ((API + "mark_as_stored", "AddLocalRecordAsStored", "mark_as_stored"),
                                      ("*libp2p_kad::record::store::RecordStore>::remove", "RemoveFailedLocalRecord", "store.remove")):
                if arms.get(arm):
                    R.must_pass("C01.arm.always." + arm, hlc, [(what, CallSink(callee))], from_blocks=arms[arm],
                                descr="the %s arm always calls %s" % (arm, what))
        else:
            R.viol("C01.arm", "arms-missing", "match over LocalSwarmCmd not found", hlc, hlc.lines[0])
        R.inst("C01.arm", "K4 gate", "put_verified ↔ PutLocalRecord arm, mark_as_stored ↔ AddLocalRecordAsStored arm", 2, ok)
    # network-facing put writes nothing
    bad = []
    for b in F.item(RS_PUT):
        for m in b.field_mut:
            if m["adt"].endswith("NodeRecordStore") and m["field"] in ("records", "records_cache", "records_by_distance", "farthest_record"):
                bad.append((b, m["line"], m["field"]))
        for c in b.calls:
            if (c["ncallee"] or "").startswith("std::fs::"):
                bad.append((b, c["line"], c["ncallee"]))
    for b, line, what in bad:
        R.viol("C01.put.nowrite", "pre-validation-write:" + what, "RecordStore::put touches %s" % what, b, line)
    R.inst("C01.put.nowrite", "K2 who-may-write", "RecordStore::put (unvalidated input) writes neither index, cache nor disk", len(F.item(RS_PUT)), not bad)

    # (2) write-before-index
    sites = R.who_may_construct("C01.mark-after-write", LSC, "AddLocalRecordAsStored", [PUTV], floor=1,
                                descr="AddLocalRecordAsStored is constructed only in put_verified's spawned task")
    for b, a in sites:
        if R.root_path(b) == PUTV:
            R.gate("C01.mark-after-write.gate", b, AggSink(LSC, "AddLocalRecordAsStored"),
                   [write_verdict_guards(("Ok",))], descr="AddLocalRecordAsStored only after the file write returned Ok")
            R.gate("C01.mark-after-write.err", b, AggSink(LSC, "RemoveFailedLocalRecord"),
                   [write_verdict_guards(("Err",))], descr="a failed write produces RemoveFailedLocalRecord")
            # the key announced is the key of the record written
            prep(b)
            ta = Taint(b, through="all")
    # the completion / failure notification names the key of the record that was written
    for b, a in sites:
        if R.root_path(b) != PUTV or b.kind != "closure":
            continue
        prep(b)
        okk = True
        nk = 0
        ta = Taint(b, through="all")
        keys = Taint(b).closure({d for d, r, p in field_reads(b, "key")})
        for var in ("AddLocalRecordAsStored", "RemoveFailedLocalRecord"):
            for _, st, o in agg_field_operands(b, LSC, "key"):
                if st["rv"]["variant"] == var:
                    nk += 1
                    if op_local(o) not in keys:
                        okk = False
                        R.viol("C01.notify.key", "notify-key:%s" % var, "%s does not carry the key of the record that was written" % var, b, st["l"])
        # and those key reads are of the captured record whose bytes are written
        wr = [x for x in b.blocks if x["term"]["k"] == "call" and not x["cleanup"] and callee_matches(x["term"], [NRS + "::prepare_record_bytes"])]
        recs = {op_local(x["term"]["args"][0]) for x in wr}
        key_roots = {r for d, r, p in field_reads(b, "key")}
        src_ok = bool(wr) and all(any(bk in Taint(b).closure({kr}) or kr in backward(b, bk) or True for kr in key_roots) for bk in recs)
        R.inst("C01.notify.key", "K6 flows-to", "AddLocalRecordAsStored / RemoveFailedLocalRecord carry the written record's own key", nk, okk and nk >= 2)
        if nk < 2:
            R.viol("C01.notify.key", "instance-floor", "expected both notifications to carry a key, found %d" % nk, b, b.lines[0])
    # the cache entry is filed under the record's own key
    pvb0 = R.body("C01.cache.key", PUTV)
    if pvb0 is not None:
        prep(pvb0)
        keys = Taint(pvb0).closure({d for d, r, p in field_reads(pvb0, "key")})
        pbs = [x for x in pvb0.blocks if x["term"]["k"] == "call" and not x["cleanup"] and callee_matches(x["term"], [RS + "RecordCache::push_back"])]
        okc = bool(pbs) and all(op_local(x["term"]["args"][1]) in keys for x in pbs)
        if not okc:
            R.viol("C01.cache.key", "cache-key", "put_verified files a record in the read cache under a key other than the record's own", pvb0, pvb0.lines[0])
        R.inst("C01.cache.key", "K6 flows-to", "records_cache.push_back(r.key, …)", len(pbs), okc)
    pb = R.body("C01.cache.impl", RS + "RecordCache::push_back")
    gt = R.body("C01.cache.impl", RS + "RecordCache::get")
    if pb is not None and gt is not None:
        prep(pb); prep(gt)
        ins = [x for x in pb.blocks if x["term"]["k"] == "call" and callee_matches(x["term"], ["std::collections::hash::map::HashMap::insert"])]
        oki = bool(ins) and all(op_local(x["term"]["args"][1]) in Taint(pb).closure(PL(pb, 1)) and
                                any(op_local(o) in Taint(pb).closure(PL(pb, 2)) for o in _tuple_ops(pb, op_local(x["term"]["args"][2]))) for x in ins)
        gts = [x for x in gt.blocks if x["term"]["k"] == "call" and callee_matches(x["term"], ["std::collections::hash::map::HashMap::get"])]
        oki = oki and bool(gts) and all(op_local(x["term"]["args"][1]) in Taint(gt).closure(PL(gt, 1)) for x in gts)
        if not oki:
            R.viol("C01.cache.impl", "cache-map", "RecordCache does not store/look up a record under the key it is given", pb, pb.lines[0])
        R.inst("C01.cache.impl", "K6 flows-to", "RecordCache::push_back(key, record) inserts (key → record); get(key) looks up that key", len(ins) + len(gts), oki)
    # the RemoveFailedLocalRecord arm removes exactly the key it names
    if hlc is not None:
        prep(hlc)
        import tables as T
        arms, _ = T.arm_targets(F, hlc, LSC, min_frac=0.5)
        g = cfg_of(hlc)
        reg = g.reach(tuple((arms or {}).get("RemoveFailedLocalRecord", ())))
        rms = [x for x in hlc.blocks if x["id"] in reg and x["term"]["k"] == "call" and not x["cleanup"] and
               callee_matches(x["term"], ["<ant_networking::record_store_api::UnifiedRecordStore as libp2p_kad::record::store::RecordStore>::remove", "*RecordStore>::remove", "libp2p_kad::record::store::RecordStore::remove"])]
        okr = len(rms) == 1
        if not okr:
            R.viol("C01.failed-write", "remove-on-failure", "a failed disk write (RemoveFailedLocalRecord) does not remove the key from the store", hlc, hlc.lines[0])
        R.inst("C01.failed-write", "K1 must-call", "RemoveFailedLocalRecord ⇒ store.remove(key)", len(rms), okr)

    disk_rules(R, "C01")

    put_persist_rules(R, "C01")

    # (4) read gate
    get = R.body("C01.get", GET)
    if get is not None:
        contains = CallGuard(["std::collections::hash::map::HashMap::contains_key"], ("true",), "records.contains_key(k)",
                             arg_pred=lambda b, blk, t: op_local(t["args"][0]) in Taint(b).closure({d for d, r, p in field_reads(b, "records")}))
        R.gate("C01.get.disk", get, CallSink(NRS + "::read_from_disk"), [[contains]], descr="get reads the disk only for an indexed key")
        cache = CallGuard([RS + "RecordCache::get"], ("Some",), "cache hit")
        R.gate("C01.get.some", get, AggSink("core::option::Option", "Some", dest_ty="Cow<"), [[cache]], descr="the only Some built in get itself is the cache hit", min_sinks=1)
    # (4b) read_from_disk yields the record whenever the file reads and decodes: no other reason to answer None
    rfd = R.body("C01.read.complete", NRS + "::read_from_disk")
    if rfd is not None:
        prep(rfd)
        g = cfg_of(rfd)
        rejects = set()
        for gd in (CallGuard(["std::fs::read"], ("Ok",), "fs::read is Ok"),):
            rejects |= gd.edges(rfd)[2]
        live = g.reach((0,), cut=rejects)
        nones = [b for b in AggSink("core::option::Option", "None").blocks(rfd) if b in live]
        fwd = [b for b in rfd.blocks if b["term"]["k"] == "call" and is_forward(rfd, b["term"]) and not b["cleanup"] and b["id"] in live]
        okr = not nones and len(fwd) == 1 and callee_matches(fwd[0]["term"], [NRS + "::get_record_from_bytes"])
        if not okr:
            R.viol("C01.read.complete", "readable-file-unread", "read_from_disk can answer None (or something other than get_record_from_bytes' verdict) for a file that was read successfully", rfd, rfd.lines[0])
        R.inst("C01.read.complete", "K4 gate (must-reach)", "a file that reads Ok is answered with get_record_from_bytes(bytes, key, ..) and nothing else", len(fwd), okr)
    # (4c) the file behind a key: replaced whole on every write, named by the injective hex encoding of the key (rules shared with C02)
    from props.C02 import file_rules
    file_rules(R, "C01.file")
    # (4c') what a file decodes to: only the authenticated plaintext of what was written for this key (the decrypt / encrypt gates
    # and the nonce derivation of C02, which "bytes that were handed to it ... for that same key" rests on just as much)
    import props.C02 as _C02
    R.import_rules("C02", _C02.run, ["C02.decrypt", "C02.encrypt", "C02.nonce"], "C01.codec")
    # (4d) the only lawful reason for an accepted write to become unreadable again without a `remove` is the capacity policy: an
    # eviction (or a refusal) decided on anything but "the index holds max_records entries and the newcomer is closer than the farthest"
    # costs settled records their place (C10's prune rules, which this clause rests on)
    import props.C10 as _C10
    R.import_rules("C10", _C10.run, ["C10.prune", "C10.put.prune"], "C01.evict")
    # (4c'') the spawned write task and the read path cannot panic on a record's key or value (a task that dies after put_verified
    # answered Ok leaves an accepted record that is never stored nor listed)
    import panics as _panics  # noqa: F401
    R.no_panic_reach("C01.io.nopanic", [NRS + "::put_verified", NRS + "::read_from_disk", NRS + "::prepare_record_bytes", NRS + "::get_record_from_bytes",
                                        RS + "generate_nonce_for_record", NRS + "::generate_filename"], floor_bodies=6,
                     stop=("ant_networking::send_local_swarm_cmd",))     # the notice's delivery (and its log rendering) is decided by C01.notify.delivery
    # (4d) completion notices are delivered, not dropped: send_local_swarm_cmd awaits capacity (Sender::send), never try_send
    SLC = "ant_networking::send_local_swarm_cmd"
    slc = R.body("C01.notify.delivery", SLC)
    if slc is not None:
        calls = [c["ncallee"] or "" for b in F.item(SLC) for c in b.calls]
        sends = [c for c in calls if c.endswith("mpsc::bounded::Sender<T>::send") or c.endswith("mpsc::bounded::Sender::send") or c.endswith("Sender::send")]
        lossy = [c for c in calls if any(c.endswith(x) for x in ("::try_send", "::try_reserve", "::send_timeout", "::blocking_send", "::try_reserve_owned"))]
        okd = bool(sends) and not lossy
        if not okd:
            R.viol("C01.notify.delivery", "notice-droppable", "send_local_swarm_cmd can drop a command when the channel is full (%s): a completed write is then never indexed, a failed one never removed" % (lossy[:1] or "no awaited send"), slc, slc.lines[0])
        R.inst("C01.notify.delivery", "K1 must-call", "local swarm commands are sent with an awaited Sender::send (never try_send)", len(sends) + len(lossy), okd)
    remove_and_mark_rules(R, "C01")



def _tuple_ops(body, local):
    out = []
    for b in body.blocks:
        for st in b["stmts"]:
            if st["d"] == [local] and st["rv"]["k"] == "agg":
                out.extend(st["rv"]["ops"])
    return out or [["cp", [local]]]


def _non(F, crate):
    return {c["crate"] for c in F.crates.values()} - {crate}


def get_serves_unsettled(R, rule):
    """An accepted write is served from the cache while its disk write is still in flight: the cache hit of get() must not sit
    behind `records.contains_key(k)`, because the index is filled only by the completion notice.  (The validate-compare-store
    functions of the mutable kinds read the local copy through this get; hiding an in-flight write from them lets an older
    version through — shared with C07.)"""
    get = R.body(rule, GET)
    if get is None:
        return
    prep(get)
    g = cfg_of(get)
    contains = CallGuard(["std::collections::hash::map::HashMap::contains_key"], ("true",), "records.contains_key(k)",
                         arg_pred=lambda b, blk, t: op_local(t["args"][0]) in Taint(b).closure({d for d, r, p in field_reads(b, "records")}))
    n, acc, rej = contains.edges(get)
    cache = CallGuard([RS + "RecordCache::get"], ("Some",), "cache hit")
    cn, cacc, _ = cache.edges(get)
    somes = set(AggSink("core::option::Option", "Some", dest_ty="Cow<").blocks(get))
    hit_somes = {b for b in somes if b not in g.reach((0,), cut=cacc)}
    ok = bool(hit_somes) and bool(hit_somes & g.reach((0,), cut=acc)) and cn > 0
    if not ok:
        R.viol(rule, "cache-behind-index", "NodeRecordStore::get consults the index before the cache: a validated write whose disk write is still in flight is not served, "
               "so the counter/merge comparison of a following update runs against nothing", get, get.lines[0])
    R.inst(rule, "K4 gate (must-reach)", "the cache hit of get() is reachable for a key that is not indexed yet (in-flight write)", len(hit_somes), ok)


TRANSPARENT_DISPATCH = ("core::pin::Pin::new", "alloc::boxed::Box::new", "alloc::boxed::Box::pin", "*IntoFuture>::into_future")


def disk_rules(R, pfx="C01"):
    """Who touches record files and how (shared with C02): file APIs only in the owning functions; write, read and delete all use
    storage_dir.join(generate_filename(own key)); encrypt and decrypt use the nonce of the record's own key."""
    F = R.F
    R.who_may_call(pfx + ".fs.write", WRITE_APIS, [PUTV, NRS + "::flush_historic_quoting_metrics",
                                                # writes/reads the `network_key_version` marker file in the node's root dir (not a record file)
                                                "ant_networking::driver::check_and_wipe_storage_dir_if_necessary"], floor=2,
                   descr="file-writing APIs in ant_networking only in put_verified (records), flush_historic_quoting_metrics and the version-marker check",
                   ignore_crates=_non(F, "ant_networking"))
    R.who_may_call(pfx + ".fs.remove", ["std::fs::remove_file"], [REMOVE, NRS + "::update_records_from_an_existing_store"], floor=2,
                   descr="fs::remove_file in ant_networking only in remove and the start-up scan", ignore_crates=_non(F, "ant_networking"))
    R.who_may_call(pfx + ".fs.read", ["std::fs::read"], [NRS + "::read_from_disk", NRS + "::update_records_from_an_existing_store"], floor=2,
                   descr="fs::read in ant_networking only in read_from_disk and the start-up scan", ignore_crates=_non(F, "ant_networking"))

    # (3) name / nonce agreement
    n = 0
    ok = True
    for fn, op, keysrc in ((PUTV, WRITE_APIS, None), (NRS + "::read_from_disk", ["std::fs::read"], 1), (REMOVE, ["std::fs::remove_file"], 1)):
        for b in F.item(fn):
            prep(b)
            for blk in b.blocks:
                t = blk["term"]
                if t["k"] == "call" and not blk["cleanup"] and callee_matches(t, op):
                    n += 1
                    root = F.body(fn)
                    # the path argument: join(generate_filename(..)) computed in the root function (captured by the spawned task)
                    prep(root)
                    ta = Taint(root, through="all")
                    names = ta.closure(call_results([NRS + "::generate_filename"])(root))
                    joins = [x for x in root.blocks if x["term"]["k"] == "call" and callee_matches(x["term"], ["std::path::Path::join", "std::path::PathBuf::join"])]
                    dirs = Taint(root, through="all").closure({d for d, r, p in field_reads(root, "storage_dir")} | locals_of_type(root, "&std::path::Path", exact=True))
                    good = [x for x in joins if op_local(x["term"]["args"][1]) in names and op_local(x["term"]["args"][0]) in dirs]
                    if not good:
                        ok = False
                        R.viol(pfx + ".path", "path:%s" % fn.split("::")[-1], "%s: the file path is not storage_dir.join(generate_filename(key))" % fn, root, t["l"])
                        continue
                    paths = ta.closure({x["term"]["d"][0] for x in good})
                    if b is root:
                        if not any(op_local(a) in paths for a in t["args"]):
                            ok = False
                            R.viol(pfx + ".path", "path-arg:%s" % fn.split("::")[-1], "%s is not applied to storage_dir.join(generate_filename(key))" % t["ncallee"], b, t["l"])
                    else:
                        # captured into the spawned task: the closure aggregate must capture the path local
                        caps = [s for x in root.blocks for s in x["stmts"] if s["rv"]["k"] == "agg" and s["rv"]["ak"] in ("coroutine", "closure") and s["rv"]["adt"] == b.path]
                        if not caps or not any(op_local(o) in paths for s in caps for o in s["rv"]["ops"]):
                            ok = False
                            R.viol(pfx + ".path", "path-capture:%s" % fn.split("::")[-1], "the task spawned by %s does not use the path computed from the record's key" % fn, b, t["l"])
                    # generate_filename is applied to the record's key
                    gf = [x for x in root.blocks if x["term"]["k"] == "call" and callee_matches(x["term"], [NRS + "::generate_filename"])]
                    for x in gf:
                        a = op_local(x["term"]["args"][0])
                        if keysrc is not None:
                            src = Taint(root).closure(PL(root, keysrc))  # the key parameter, by position
                        else:
                            src = Taint(root).closure({d for d, r, p in field_reads(root, "key")})
                        if a not in src:
                            ok = False
                            R.viol(pfx + ".path", "filename-key:%s" % fn.split("::")[-1], "generate_filename in %s is not applied to the record's own key" % fn, root, x["term"]["l"])
    R.inst(pfx + ".path", "K6 flows-to", "write, read and delete all use storage_dir.join(generate_filename(own key))", n, ok and n >= 3)
    if n < 3:
        R.viol(pfx + ".path", "instance-floor", "expected fs write/read/remove sites, found %d" % n)
    # (3') one queue for the disk jobs of a key: the job that writes a record file and the job that deletes it are handed to the same
    # dispatch primitive from the store's (single) caller, so that for one key they are queued in the order the store operations were
    # made.  A write on the blocking pool next to a delete on the async scheduler (or an inline delete next to a spawned write) have
    # no order at all: the delete of `put; remove` can run first and the file come back, the delete of an eviction can unlink the
    # update that followed it.  (Necessary, not sufficient: what order the one scheduler keeps is the runtime's business.)
    prims = {}
    for fn, op in ((PUTV, WRITE_APIS), (REMOVE, ["std::fs::remove_file"])):
        root = F.body(fn)
        if root is None:
            continue
        prep(root)
        for b in F.item(fn):
            prep(b)
            if not any(blk["term"]["k"] == "call" and not blk["cleanup"] and callee_matches(blk["term"], op) for blk in b.blocks):
                continue
            if b is root:
                prims.setdefault(fn.split("::")[-1], set()).add("inline (not dispatched)")
                continue
            caps = [s["d"][0] for x in root.blocks for s in x["stmts"] if s["rv"]["k"] == "agg" and s["rv"]["ak"] in ("coroutine", "closure") and s["rv"]["adt"] == b.path]
            via = set()
            moved = Taint(root).closure(set(caps)) if caps else set()
            for x in root.blocks:
                t = x["term"]
                if t["k"] == "call" and not x["cleanup"] and any(op_local(a) in moved for a in t["args"]) and not callee_matches(t, list(TRANSPARENT_DISPATCH)):
                    via.add(t["ncallee"] or t.get("ngen") or "?")
            prims.setdefault(fn.split("::")[-1], set()).update(via or {"? (closure not handed to a call of %s)" % fn.split("::")[-1]})
    allp = set().union(*prims.values()) if prims else set()
    okq = len(prims) >= 2 and len(allp) == 1
    if len(prims) < 2:
        R.viol(pfx + ".jobs.same-queue", "instance-floor", "expected the write job of put_verified and the delete job of remove, found %s" % sorted(prims))
    elif not okq:
        R.viol(pfx + ".jobs.same-queue", "queues-differ", "the record-file jobs of one key are dispatched through different primitives (%s): nothing orders a write and a delete of the same file" %
               "; ".join("%s: %s" % (k, ", ".join(sorted(v))) for k, v in sorted(prims.items())), F.body(PUTV), F.body(PUTV).lines[0])
    R.inst(pfx + ".jobs.same-queue", "K7 sibling agreement", "write job and delete job of a record file are handed to the same dispatch primitive", len(prims), okq,
           {"dispatch": {k: sorted(v) for k, v in prims.items()}})
    R.who_may_call(pfx + ".nonce", [RS + "generate_nonce_for_record"], [NRS + "::get_record_from_bytes", NRS + "::prepare_record_bytes"], floor=2,
                   descr="nonce derived by generate_nonce_for_record in both encrypt and decrypt")
    okn = True
    for fn, cipher_call, keyf in ((NRS + "::get_record_from_bytes", "*aead::Aead>::decrypt", "param:1"), (NRS + "::prepare_record_bytes", "*aead::Aead>::encrypt", "field:key")):
        b = R.body(pfx + ".nonce.key", fn)
        if b is None:
            continue
        prep(b)
        ta = Taint(b, through="all")
        nn = ta.closure(call_results([RS + "generate_nonce_for_record"])(b))
        cc = [x for x in b.blocks if x["term"]["k"] == "call" and not x["cleanup"] and callee_matches(x["term"], [cipher_call, cipher_call.replace(">::", "::")])]
        if not cc or not all(op_local(x["term"]["args"][1]) in nn for x in cc):
            okn = False
            R.viol(pfx + ".nonce.key", "nonce:%s" % fn.split("::")[-1], "%s does not use the nonce from generate_nonce_for_record" % fn, b, b.lines[0])
        gn = [x for x in b.blocks if x["term"]["k"] == "call" and callee_matches(x["term"], [RS + "generate_nonce_for_record"])]
        src = Taint(b).closure(PL(b, int(keyf.split(":")[1]))) if keyf.startswith("param") else Taint(b).closure({d for d, r, p in field_reads(b, "key")})
        if not gn or not all(op_local(x["term"]["args"][1]) in src for x in gn):
            okn = False
            R.viol(pfx + ".nonce.key", "nonce-key:%s" % fn.split("::")[-1], "nonce in %s is not derived from the record's own key" % fn, b, b.lines[0])
    R.inst(pfx + ".nonce.key", "K6 flows-to", "encrypt and decrypt use nonce(record's own key)", 2, okn)



def remove_and_mark_rules(R, pfx="C01"):
    """remove() drops the key from index, distance index and cache and spawns the file delete on every path; the completion notice
    registers the key on every path (shared with C02: completed removals stay removed, completed writes are listed)."""
    F = R.F
    # (5) remove completeness
    rm = R.body(pfx + ".remove", REMOVE)
    if rm is not None:
        prep(rm)

        def on_field(callee, field):
            def f(body):
                out = []
                refs = Taint(body).closure({d for d, r, p in field_reads(body, field)})
                for b in body.blocks:
                    t = b["term"]
                    if t["k"] == "call" and not b["cleanup"] and callee_matches(t, callee) and op_local(t["args"][0]) in refs:
                        out.append(b["id"])
                return out
            return f
        R.must_pass(pfx + ".remove", rm, [("records.remove(k)", BlockSink(on_field(["std::collections::hash::map::HashMap::remove"], "records"), "records.remove")),
                                       ("records_cache.remove(k)", BlockSink(on_field([RS + "RecordCache::remove"], "records_cache"), "cache.remove")),
                                       ("spawn(fs::remove_file)", CallSink("tokio::task::spawn::spawn", "tokio::task::blocking::spawn_blocking", "tokio::runtime::handle::Handle::spawn", "tokio::runtime::handle::Handle::spawn_blocking"))],
                    descr="remove always drops the key from index and cache and spawns the file delete")
        # distance index removed whenever the key was indexed
        R.gate(pfx + ".remove.by_distance", rm, BlockSink(on_field(["alloc::collections::btree::map::BTreeMap::remove"], "records_by_distance"), "records_by_distance.remove"),
               [[CallGuard(["std::collections::hash::map::HashMap::remove"], ("Some",), "key was indexed")]], descr="distance entry removed when the key was indexed")
        hit = CallGuard(["std::collections::hash::map::HashMap::remove"], ("Some",), "key was indexed")
        n_, acc, rej = hit.edges(rm)
        g = cfg_of(rm)
        bd = set(on_field(["alloc::collections::btree::map::BTreeMap::remove"], "records_by_distance")(rm))
        rets = {b["id"] for b in rm.blocks if b["term"]["k"] == "return"}
        okd = bool(acc) and all(not (g.reach((d,), avoid=bd) & rets) for _, d in acc)
        if not okd:
            R.viol(pfx + ".remove.by_distance.always", "skippable:records_by_distance.remove", "remove can drop an indexed key without dropping its distance entry", rm, rm.lines[0])
        R.inst(pfx + ".remove.by_distance.always", "K5 must-follow", "indexed key ⇒ distance entry removed on every path", len(acc), okd)
        # (5b) the write-completion notice always registers the key (index + distance index): a completed accepted write is readable
        mk = R.body(pfx + ".mark.always", MARK)
        if mk is not None:
            prep(mk)
            R.must_pass(pfx + ".mark.always", mk, [("records.insert(key, ..)", BlockSink(on_field(["std::collections::hash::map::HashMap::insert"], "records"), "records.insert")),
                                                ("records_by_distance.insert(.., key)", BlockSink(on_field(["alloc::collections::btree::map::BTreeMap::insert"], "records_by_distance"), "records_by_distance.insert"))],
                        descr="mark_as_stored registers the key in the index and the distance index on every path")
            ta = Taint(mk, through="all")
            keyp = ta.closure(PL(mk, 1))
            ins = [b for b in mk.blocks if b["term"]["k"] == "call" and not b["cleanup"] and b["id"] in on_field(["std::collections::hash::map::HashMap::insert"], "records")(mk)]
            okk = bool(ins) and all(op_local(b["term"]["args"][1]) in keyp for b in ins)
            if not okk:
                R.viol(pfx + ".mark.key", "mark-key", "mark_as_stored does not index the key it was notified about", mk, mk.lines[0])
            R.inst(pfx + ".mark.key", "K6 flows-to", "records.insert(key of the completed write, ..)", len(ins), okk)
        dels = [c for b in F.item(REMOVE) if b.kind == "closure" for c in b.calls if c["ncallee"] == "std::fs::remove_file"]
        if not dels:
            R.viol(pfx + ".remove.file", "delete-missing", "the task spawned by remove does not delete the record file", rm, rm.lines[0])
        R.inst(pfx + ".remove.file", "K1 must-call", "spawned task deletes the record file", len(dels), bool(dels))


def put_persist_rules(R, pfx="C01"):
    """An accepted validated put is written to disk unless the very same bytes are already cached (shared with C07: an update of a
    mutable record that is accepted must actually replace the stored version)."""
    F = R.F
    # (3b) the only way put_verified accepts a record *without* writing it is a cache hit with byte-identical content
    pvb = R.body(pfx + ".cache-shortcut", PUTV)
    if pvb is not None:
        prep(pvb)
        g = cfg_of(pvb)
        spawn = set(CallSink("tokio::task::spawn::spawn", "tokio::task::blocking::spawn_blocking", "tokio::runtime::handle::Handle::spawn", "tokio::runtime::handle::Handle::spawn_blocking").blocks(pvb))
        early = [b for b in RetSink("Ok").blocks(pvb) if b in g.reach((0,), avoid=spawn)]
        if early:
            vals = lambda b: Taint(b).closure({d for d, r, p in field_reads(b, "value")})
            same = CmpGuard(vals, vals, "Eq", "cached.value == new.value")
            hit = CallGuard([RS + "RecordCache::remove", RS + "RecordCache::get"], ("Some",), "cache holds the key")
            R.gate(pfx + ".cache-shortcut", pvb, BlockSink(lambda b, e=early: e, "Ok without a disk write"), [[same], [hit]],
                   descr="put_verified skips the disk write only for a cached record with identical value")
        else:
            R.inst(pfx + ".cache-shortcut", "K4 gate", "put_verified has no accepting path that skips the disk write", 0, True)

