"""C10 — store capacity, distance-based eviction and quoting metrics (structural clauses)."""
import tables as T
from cfg import cfg_of
from flow import Taint, Tracker, callee_matches, field_reads, op_local, prep, backward
from rules import CallGuard, CallSink, CmpGuard, RetSink, AggSink, BlockSink, FieldOptGuard
from rules import PL, final_edges
from props.C04 import call_results, NRS, agg_field_operands
from props.C01 import RS, WITHCFG, REMOVE, PUTV, HLC, LSC, store_rules
import panics as P

META = {
    "explanation_more": 'Also (round 4): one put evicts at most one record and a refusal follows no eviction (C10.prune.once / .refuse-clean); the clean-up runs only in its own trigger arm of handle_local_cmd (C10.cleanup.who).',
    "explanation": "Decides: (1) the index map, the distance index and the farthest pointer are mutated by the same functions only; (2) in "
                   "prune_records_if_needed nothing is evicted while records.len() < max_records, Err(MaxRecords) is returned exactly on the "
                   "`farthest_distance < distance(incoming)` side and the only eviction is remove(farthest) on the other side; put_verified "
                   "spawns the disk write only after prune returned Ok; (3) cleanup_irrelevant_records removes nothing while "
                   "len < MAX_RECORDS_COUNT/10 or no range is set and removes exactly records_by_distance.range(r..), while "
                   "get_records_within_distance_range counts range(..r) — complementary half-open ranges over one map; (4) the quoted "
                   "close_records_stored / max_records / received_payment_count derive from that count (or records.len()), config.max_records "
                   "and the payment counter; payment_received increments then flushes; with_config restores the counter from the file the "
                   "flush writes, before the storage scan; (5) a MaxRecords refusal shrinks the replication fetcher's acceptable distance and "
                   "the fetcher is always told about the put. Also: once capacity was granted (a record may have been evicted) put_verified always spawns the write — the identical-content shortcut precedes the eviction. Not decided: numeric value of distances (C11), timing of the spawned flush.",
    "not_decided": ["numeric equality of the U256 distance key (see C11)", "durability/timing of the spawned quoting-metrics flush"],
}

PRUNE = NRS + "::prune_records_if_needed"
CLEAN = NRS + "::cleanup_irrelevant_records"
WITHIN = NRS + "::get_records_within_distance_range"
QM = NRS + "::quoting_metrics"
RF = "ant_networking::replication_fetcher::ReplicationFetcher::"


def len_of(field):
    def f(body):
        refs = Taint(body).closure({d for d, r, p in field_reads(body, field)})
        out = set()
        for b in body.blocks:
            t = b["term"]
            if t["k"] == "call" and (t["ncallee"] or "").endswith("::len") and t["args"] and op_local(t["args"][0]) in refs:
                out.add(t["d"][0])
        return Taint(body).closure(out)
    return f


def reads(field):
    def f(body):
        return Taint(body).closure({d for d, r, p in field_reads(body, field)})
    return f


def run(R):
    farthest_refresh_rule(R)
    setter_and_restore_rules(R)
    F = R.F
    store_rules(R, "C10")
    # (2) eviction decision
    pr = R.body("C10.prune", PRUNE)
    if pr is not None:
        prep(pr)
        evict = CallSink(REMOVE)
        full = CmpGuard(len_of("records"), reads("max_records"), "Ge", "records.len() >= max_records", close=False)
        R.gate("C10.prune.notfull", pr, evict, [[full]], descr="nothing is evicted while the store is below capacity")

        def far_d(b):
            # payload .1 of the cloned farthest_record
            ta = Taint(b)
            fr = ta.closure({d for d, r, p in field_reads(b, "farthest_record")})
            out = set()
            for blk in b.blocks:
                for s in blk["stmts"]:
                    rv = s["rv"]
                    p = rv["a"][1] if rv["k"] == "use" and rv["a"][0] in ("cp", "mv") else rv.get("p") if rv["k"] == "ref" else None
                    if p and p[0] in fr and p[-1] == ".1":
                        out.add(s["d"][0])
            return ta.closure(out)

        def inc_d(b):
            ta = Taint(b, through="all")
            src = ta.closure(PL(b, 1))  # (self, incoming_record_key)
            return Taint(b).closure({t["term"]["d"][0] for t in b.blocks if t["term"]["k"] == "call" and callee_matches(t["term"], ["ant_protocol::NetworkAddress::distance"])
                                     and any(op_local(a) in src for a in t["term"]["args"])})
        closer = CmpGuard(far_d, inc_d, "Ge", "farthest_distance >= distance(incoming)", close=False)
        farther = CmpGuard(far_d, inc_d, "Lt", "farthest_distance < distance(incoming)", close=False)
        R.gate("C10.prune.evict", pr, evict, [[closer]], descr="the farthest record is evicted only for an incoming record that is not farther")
        R.gate("C10.prune.refuse", pr, AggSink("libp2p_kad::record::store::Error", "MaxRecords"), [[farther], [full]],
               descr="MaxRecords is returned exactly when full and the incoming record is farther than the farthest held")
        # what is evicted is the farthest record
        ta = Taint(pr)
        fr = ta.closure({d for d, r, p in field_reads(pr, "farthest_record")})
        ev = [b for b in pr.blocks if b["term"]["k"] == "call" and not b["cleanup"] and callee_matches(b["term"], [REMOVE])]
        ok = len(ev) == 1 and op_local(ev[0]["term"]["args"][1]) in fr
        if not ok:
            R.viol("C10.prune.which", "evicts-farthest", "prune_records_if_needed must evict exactly the recorded farthest record", pr, pr.lines[0])
        R.inst("C10.prune.which", "K6 flows-to", "the single eviction is remove(&farthest_record.key)", len(ev), ok)
        # a refusal leaves the held set unchanged, and one put evicts at most one record: no path from an eviction to the
        # MaxRecords refusal, and the eviction is not inside a cycle (`while full { evict }` evicts several / evicts then refuses)
        g_ = cfg_of(pr)
        evb = set(evict.blocks(pr))
        refuse = set(AggSink("libp2p_kad::record::store::Error", "MaxRecords").blocks(pr))
        after = g_.reach(tuple(d for e in evb for d, _ in g_.succ[e])) if evb else set()
        ok_r = bool(evb) and not (after & refuse)
        ok_o = bool(evb) and not (after & evb)
        if evb and not ok_r:
            R.viol("C10.prune.refuse-clean", "evict-then-refuse", "prune_records_if_needed can evict a record and then still refuse the incoming one (MaxRecords): a refused put must leave the held set unchanged", pr, pr.lines[0])
        if evb and not ok_o:
            R.viol("C10.prune.once", "evict-repeated", "prune_records_if_needed can evict more than one record for one incoming record (the eviction sits in a loop): only the farthest record is evicted", pr, pr.lines[0])
        R.inst("C10.prune.refuse-clean", "K5 must-not-follow", "no eviction is followed by a MaxRecords refusal", len(evb), ok_r)
        R.inst("C10.prune.once", "K5 must-not-follow", "at most one eviction per incoming record", len(evb), ok_o)
    pv = R.body("C10.put", PUTV)
    if pv is not None:
        R.gate("C10.put.prune-first", pv, CallSink("tokio::task::spawn::spawn", "tokio::task::blocking::spawn_blocking", "tokio::runtime::handle::Handle::spawn", "tokio::runtime::handle::Handle::spawn_blocking"), [[CallGuard([PRUNE], ("Ok",), "prune_records_if_needed is Ok")]],
               descr="the disk write is spawned only after capacity was granted")
        prep(pv)
        # an eviction is always paid for by a write: once capacity was granted (and possibly a record evicted), every path to a
        # normal return spawns the disk write — the "identical content already cached" shortcut must come before, not after
        gpr = CallGuard([PRUNE], ("Ok",), "prune_records_if_needed is Ok")
        n_, acc_, _ = gpr.edges(pv)
        if acc_:
            R.must_pass("C10.put.prune-last", pv, [("spawn(write)", CallSink("tokio::task::spawn::spawn", "tokio::task::blocking::spawn_blocking", "tokio::runtime::handle::Handle::spawn", "tokio::runtime::handle::Handle::spawn_blocking"))], from_blocks=tuple(d for _, d in final_edges(cfg_of(pv), acc_)),
                        descr="after capacity was granted (a record may have been evicted) the record is always written")
        else:
            R.viol("C10.put.prune-last", "guard-missing", "put_verified does not branch on prune_records_if_needed", pv, pv.lines[0])
        ta = Taint(pv)
        keys = ta.closure({d for d, r, p in field_reads(pv, "key")})
        pc = [b for b in pv.blocks if b["term"]["k"] == "call" and callee_matches(b["term"], [PRUNE])]
        ok = bool(pc) and all(op_local(b["term"]["args"][1]) in keys for b in pc)
        if not ok:
            R.viol("C10.put.key", "prune-key", "capacity is not checked for the incoming record's own key", pv, pv.lines[0])
        R.inst("C10.put.key", "K6 flows-to", "prune_records_if_needed(&r.key)", len(pc), ok)

    # (3) clean-up boundary
    cl = R.body("C10.cleanup", CLEAN)
    if cl is not None:
        prep(cl)
        env = P.fold_consts(F, cl)
        big = _ConstCmp(F, len_of("records"), lambda v: v == int(F.consts[RS + "MAX_RECORDS_COUNT"]["value"]) // 10, ("Ge",), "records.len() >= MAX_RECORDS_COUNT/10")
        rng = FieldOptGuard("responsible_distance_range", ("Some",), "responsible_distance_range is set")
        R.gate("C10.cleanup.when", cl, CallSink(REMOVE), [[big], [rng]], descr="clean-up removes nothing while small or without a responsible range")
        # exact set: range(r..)
        rr = [s for b in cl.blocks for s in b["stmts"] if s["rv"]["k"] == "agg" and s["rv"]["adt"].startswith("core::ops::range::Range")]
        dist = Taint(cl).closure({d for d, r, p in field_reads(cl, "responsible_distance_range")})
        ok = len(rr) == 1 and rr[0]["rv"]["adt"] == "core::ops::range::RangeFrom" and op_local(rr[0]["rv"]["ops"][0]) in Taint(cl, through="all").closure(dist)
        rc = [b for b in cl.blocks if b["term"]["k"] == "call" and callee_matches(b["term"], ["alloc::collections::btree::map::BTreeMap::range"])]
        ok = ok and len(rc) == 1 and op_local(rc[0]["term"]["args"][0]) in Taint(cl).closure({d for d, r, p in field_reads(cl, "records_by_distance")})
        # what is removed derives from that range
        if ok:
            ta = Taint(cl, through="all")
            sel = ta.closure({rc[0]["term"]["d"][0]})
            rms = CallSink(REMOVE)
            rm = [g_.blocks[i] if False else next(b for b in cl.blocks if b["id"] == i) for g_ in [None] for i in rms.blocks(cl)]
            # in the function itself the key argument, in a `for_each(|key| self.remove(key))` the iterated collection, comes from the range
            ok = bool(rm) and all(op_local(b["term"]["args"][0 if b["id"] in rms.closure_sites else 1]) in sel for b in rm)
        if not ok:
            R.viol("C10.cleanup.which", "cleanup-range", "clean-up must remove exactly records_by_distance.range(responsible_distance..)", cl, cl.lines[0])
        R.inst("C10.cleanup.which", "K7 table agreement", "clean-up removes records_by_distance.range(r..)", len(rr), ok)
    # ... and runs only on its own trigger: records leave the store through the capacity decision of a put (prune) or through the
    # periodic clean-up command, never as a side effect of another command (a refused put must leave the held set unchanged)
    import tables as T
    hlc = R.body("C10.cleanup.who", HLC)
    if hlc is not None:
        prep(hlc)
        arms, _ = T.arm_targets(F, hlc, LSC, min_frac=0.5)
        g_h = cfg_of(hlc)
        API_CLEAN = "ant_networking::record_store_api::UnifiedRecordStore::cleanup_irrelevant_records"
        blocks = set(CallSink(API_CLEAN, CLEAN).blocks(hlc))
        arm = "TriggerIrrelevantRecordCleanup"
        region = g_h.reach(tuple(arms.get(arm, ()))) if arms else set()
        others = set()
        for a, st in (arms or {}).items():
            if a != arm:
                others |= g_h.reach(tuple(st))
        okw = bool(arms) and bool(blocks) and blocks <= region and not (blocks & others)
        if not okw:
            R.viol("C10.cleanup.who", "cleanup-elsewhere", "cleanup_irrelevant_records is not confined to the TriggerIrrelevantRecordCleanup arm of handle_local_cmd: "
                   "another command (a refused put, say) can drop held records", hlc, hlc.lines[0])
        R.inst("C10.cleanup.who", "K4 gate", "clean-up ↔ TriggerIrrelevantRecordCleanup arm only", len(blocks), okw)
    R.who_may_call("C10.cleanup.callers", [CLEAN], ["ant_networking::record_store_api::UnifiedRecordStore::cleanup_irrelevant_records"], floor=1,
                   descr="NodeRecordStore::cleanup_irrelevant_records is reached only through the store API wrapper")
    R.who_may_call("C10.cleanup.callers.api", ["ant_networking::record_store_api::UnifiedRecordStore::cleanup_irrelevant_records"], [HLC], floor=1,
                   descr="the clean-up is requested only by handle_local_cmd")
    wi = R.body("C10.within", WITHIN)
    if wi is not None:
        prep(wi)
        rr = [s for b in wi.blocks for s in b["stmts"] if s["rv"]["k"] == "agg" and s["rv"]["adt"].startswith("core::ops::range::Range")]
        ok = len(rr) == 1 and rr[0]["rv"]["adt"] == "core::ops::range::RangeTo" and op_local(rr[0]["rv"]["ops"][0]) in Taint(wi).closure(PL(wi, 1))
        rc = [b for b in wi.blocks if b["term"]["k"] == "call" and callee_matches(b["term"], ["alloc::collections::btree::map::BTreeMap::range"])]
        ok = ok and len(rc) == 1 and op_local(rc[0]["term"]["args"][0]) in Taint(wi).closure({d for d, r, p in field_reads(wi, "records_by_distance")})
        if ok:
            ta = Taint(wi, through="all")
            ok = 0 in ta.closure({rc[0]["term"]["d"][0]})
        if not ok:
            R.viol("C10.within", "count-range", "records within range must be counted as records_by_distance.range(..r)", wi, wi.lines[0])
        R.inst("C10.within", "K7 table agreement", "in-range count = |records_by_distance.range(..r)| (complement of the clean-up range)", len(rr), ok)

    # (4) quoted figures
    qm = R.body("C10.quote", QM)
    if qm is not None:
        prep(qm)
        ta = Taint(qm)
        QMT = "ant_evm::data_payments::QuotingMetrics" if "ant_evm::data_payments::QuotingMetrics" in F.adts else None
        ok = True
        det = {}
        for f, src in (("max_records", reads("max_records")(qm)), ("received_payment_count", reads("received_payment_count")(qm)),
                       ("close_records_stored", len_of("records")(qm))):
            ops = [o for b in qm.blocks for s in b["stmts"] if s["rv"]["k"] == "agg" and s["rv"]["adt"].endswith("QuotingMetrics") and f in s["rv"]["fields"]
                   for o in [s["rv"]["ops"][s["rv"]["fields"].index(f)]]]
            det[f] = len(ops)
            if f == "close_records_stored":
                src = Taint(qm, through="all").closure(src)     # may pass through the `(count, density)` tuple of form B
            if not ops or not all(op_local(o) in src for o in ops):
                ok = False
                R.viol("C10.quote", "figure:%s" % f, "QuotingMetrics.%s is not taken from the store's own %s" % (f, f), qm, qm.lines[0])
        # with a range: close_records_stored := get_records_within_distance_range(responsible range)
        asg = [s for b in qm.blocks for s in b["stmts"] if len(s["d"]) > 1 and s["d"][-1] == ".close_records_stored"]
        within = Taint(qm).closure(call_results([WITHIN])(qm))
        wc = [b for b in qm.blocks if b["term"]["k"] == "call" and callee_matches(b["term"], [WITHIN])]
        rngsrc = Taint(qm).closure({d for d, r, p in field_reads(qm, "responsible_distance_range")})
        if asg:
            # form A: the literal holds the total count and the field is overwritten on the range side
            ok2 = all(s["rv"]["k"] == "use" and op_local(s["rv"]["a"]) in within for s in asg)
        else:
            # form B: the figure is chosen first (`match range { Some(r) => within(r), None => total }`) and the literal built once:
            # the literal's operand carries the in-range count, and that count is computed only on the `Some(range)` side
            w_all = Taint(qm, through="all").closure(call_results([WITHIN])(qm))
            ops_c = [o for b in qm.blocks for s in b["stmts"] if s["rv"]["k"] == "agg" and s["rv"]["adt"].endswith("QuotingMetrics") and "close_records_stored" in s["rv"]["fields"]
                     for o in [s["rv"]["ops"][s["rv"]["fields"].index("close_records_stored")]]]
            n_, acc_, rej_ = FieldOptGuard("responsible_distance_range", ("Some",)).edges(qm)
            g_ = cfg_of(qm)
            ok2 = bool(ops_c) and all(op_local(o) in w_all for o in ops_c) and bool(acc_) and not (set(b["id"] for b in wc) & g_.reach((0,), cut=acc_))
        ok2 = ok2 and bool(wc) and all(op_local(b["term"]["args"][1]) in rngsrc for b in wc)
        if not ok2:
            R.viol("C10.quote", "figure:close_records_stored(range)", "with a responsible range, close_records_stored must be the in-range count for that range", qm, qm.lines[0])
        R.inst("C10.quote", "K6 flows-to", "quoted figures derive from the store's own state", 4, ok and ok2, det)
        if asg:
            g = cfg_of(qm)
            R.gate("C10.quote.range", qm, BlockSink(lambda b: [blk["id"] for blk in b.blocks for s in blk["stmts"] if len(s["d"]) > 1 and s["d"][-1] == ".close_records_stored"],
                                                   "close_records_stored = in-range count"),
                   [[FieldOptGuard("responsible_distance_range", ("Some",), "responsible range is set")]], descr="the in-range figure is used only when a range is set")
    pr_ = R.body("C10.payment", NRS + "::payment_received")
    if pr_ is not None:
        prep(pr_)
        R.must_pass("C10.payment", pr_, [("flush_historic_quoting_metrics", CallSink(NRS + "::flush_historic_quoting_metrics"))],
                    descr="every received payment is flushed")
        inc = [b for b in pr_.blocks if b["term"]["k"] == "call" and callee_matches(b["term"], ["core::num::<impl usize>::saturating_add", "core::num::<impl usize>::checked_add",
                                                                                            "core::num::<impl usize>::wrapping_add"])]
        w = [s for b in pr_.blocks for s in b["stmts"] if s["d"][-1] == ".received_payment_count" and len(s["d"]) > 1]
        ok = len(inc) == 1 and inc[0]["term"]["args"][1][0] == "c" and inc[0]["term"]["args"][1][1].startswith("1_") and bool(w) and \
            all(op_local(s["rv"].get("a", ["?"])) == inc[0]["term"]["d"][0] for s in w) and \
            op_local(inc[0]["term"]["args"][0]) in reads("received_payment_count")(pr_)
        g = cfg_of(pr_)
        fl = CallSink(NRS + "::flush_historic_quoting_metrics").blocks(pr_)
        ok = ok and bool(fl) and all(g.dominates(b["id"], fl[0]) for b in inc)
        if not ok:
            R.viol("C10.payment.inc", "increment", "payment_received must add exactly 1 to received_payment_count before flushing", pr_, pr_.lines[0])
        R.inst("C10.payment.inc", "K6 flows-to", "received_payment_count += 1, then flush", len(inc), ok)
    fl = R.body("C10.flush", NRS + "::flush_historic_quoting_metrics")
    rs = R.body("C10.flush", NRS + "::restore_quoting_metrics")
    if fl is not None and rs is not None:
        prep(fl)
        ok = True
        for f in ("received_payment_count", "timestamp"):
            ops = agg_field_operands(fl, RS + "HistoricQuotingMetrics", f)
            if not ops or not all(op_local(o) in reads(f)(fl) for _, _, o in ops):
                ok = False
                R.viol("C10.flush", "flush-field:%s" % f, "the flushed HistoricQuotingMetrics.%s is not the store's %s" % (f, f), fl, fl.lines[0])
        # same file name on both sides
        cf = {k[1] for c in fl.calls for k in c["consts"] if "HISTORICAL_QUOTING_METRICS_FILENAME" in k[1]}
        cr = {k[1] for c in rs.calls for k in c["consts"] if "HISTORICAL_QUOTING_METRICS_FILENAME" in k[1]}
        if not cf or cf != cr:
            ok = False
            R.viol("C10.flush", "file-name", "flush and restore do not use the same file name constant", fl, fl.lines[0])
        R.inst("C10.flush", "K7 table agreement", "flush writes {received_payment_count, timestamp} to the file restore reads", 2, ok)
        # same directory on both sides: the config field flush joins the file name onto is the one with_config hands to restore
        import argmodel as A
        prep(fl)
        jf = [b for b in fl.blocks if b["term"]["k"] == "call" and not b["cleanup"] and (b["term"]["ncallee"] or "").endswith("::join")]
        wdir = set()
        for b in jf:
            fs, _ = A._fields_behind(fl, op_local(b["term"]["args"][0]))
            wdir |= {x.split(".")[-1] for x in fs}
        wcb = R.body("C10.flush.dir", WITHCFG)
        rdir = set()
        if wcb is not None:
            prep(wcb)
            for b in wcb.blocks:
                if b["term"]["k"] == "call" and callee_matches(b["term"], [NRS + "::restore_quoting_metrics"]):
                    fs, _ = A._fields_behind(wcb, op_local(b["term"]["args"][0]))
                    rdir |= {x.split(".")[-1] for x in fs}
        okd = bool(wdir) and wdir == rdir
        if not okd:
            R.viol("C10.flush.dir", "directory", "the payment counter is flushed under config.%s but restored from config.%s: it does not survive a restart" % (sorted(wdir), sorted(rdir)), fl, fl.lines[0])
        R.inst("C10.flush.dir", "K7 table agreement", "flush and restore use the same configured directory", len(jf), okd, {"flush_dir_field": sorted(wdir), "restore_dir_field": sorted(rdir)})
    wc = R.body("C10.restore", WITHCFG)
    if wc is not None:
        prep(wc)
        g = cfg_of(wc)
        r_ = CallSink(NRS + "::restore_quoting_metrics").blocks(wc)
        s_ = CallSink(NRS + "::update_records_from_an_existing_store").blocks(wc)
        ok = bool(r_) and bool(s_) and g.dominates(r_[0], s_[0])
        ta = Taint(wc, through="all")
        restored = ta.closure(call_results([NRS + "::restore_quoting_metrics"])(wc))
        ops = agg_field_operands(wc, NRS, "received_payment_count")
        ok = ok and bool(ops) and all(op_local(o) in restored for _, _, o in ops)
        if not ok:
            R.viol("C10.restore", "restore", "with_config does not restore received_payment_count from the historic file before scanning the store", wc, wc.lines[0])
        R.inst("C10.restore", "K6 flows-to", "received_payment_count restored from the historic file, before the storage scan", len(ops), ok)

    # (5) MaxRecords wiring in the PutLocalRecord arm
    hlc = R.body("C10.wiring", HLC)
    if hlc is not None:
        prep(hlc)
        arms, _ = T.arm_targets(F, hlc, LSC, min_frac=0.5)
        starts = tuple((arms or {}).get("PutLocalRecord", ()))
        if not starts:
            R.viol("C10.wiring", "arm-missing", "PutLocalRecord arm not found", hlc, hlc.lines[0])
        else:
            g = cfg_of(hlc)
            region = g.reach(starts)
            sf = [b for b in CallSink(RF + "set_farthest_on_full").blocks(hlc) if b in region]
            ok = bool(sf)
            if ok:
                # reached exactly on Err(MaxRecords) of put_verified
                gd = CallGuard(["ant_networking::record_store_api::UnifiedRecordStore::put_verified"], ("Err", "MaxRecords#0"), "put_verified is Err(MaxRecords)")
                ok = R.gate("C10.wiring.full", hlc, BlockSink(lambda b, s=sf: s, "set_farthest_on_full"), [[gd]], descr="fetcher range shrinks exactly on Err(MaxRecords)", starts=starts)
                ta = Taint(hlc, through="all")
                far = ta.closure(call_results(["ant_networking::record_store_api::UnifiedRecordStore::get_farthest"])(hlc))
                if not all(op_local(g.term(b)["args"][1]) in far for b in sf):
                    R.viol("C10.wiring.full", "farthest-arg", "set_farthest_on_full is not given the store's farthest key", hlc, g.term(sf[0]).get("l"))
            else:
                R.viol("C10.wiring.full", "missing", "Err(MaxRecords) from put_verified no longer restricts the replication fetcher", hlc, hlc.lines[0])
                R.inst("C10.wiring.full", "K4 gate", "MaxRecords → set_farthest_on_full", 0, False)
            # notify_about_new_put on every path of the arm that got past the header parse
            pvb = [b for b in CallSink("ant_networking::record_store_api::UnifiedRecordStore::put_verified").blocks(hlc) if b in region]
            nb = set(CallSink(RF + "notify_about_new_put").blocks(hlc))
            rets = {b["id"] for b in hlc.blocks if b["term"]["k"] == "return"}
            okn = bool(pvb) and bool(nb) and not (g.reach(tuple(pvb), avoid=nb) & rets)
            if not okn:
                R.viol("C10.wiring.notify", "notify-skippable", "after put_verified the arm can return without notify_about_new_put", hlc, hlc.lines[0])
            R.inst("C10.wiring.notify", "K5 must-follow", "replication fetcher is told about every put attempt (success or refusal)", len(pvb), okn)


class _ConstCmp:
    """comparison of a tracked value with a constant satisfying pred; accepting edge where relation in `rels` holds"""

    def __init__(self, F, src, pred, rels, label):
        self.F, self.src, self.pred, self.rels, self.label = F, src, pred, rels, label

    def edges(self, body):
        from rules import compare_sites, REL_SWAP, REL_NEG
        prep(body)
        env = P.fold_consts(self.F, body)
        vals = self.src(body)
        tr = Tracker(body)
        n = 0
        for c in compare_sites(body):
            la, lb = op_local(c["a"]), op_local(c["b"])
            ka, kb = P._const_int(c["a"], self.F, env), P._const_int(c["b"], self.F, env)
            rel = None
            if la in vals and kb is not None and self.pred(kb):
                rel = c["op"]
            elif lb in vals and ka is not None and self.pred(ka):
                rel = REL_SWAP[c["op"]]
            if rel is None:
                continue
            n += 1
            if rel in self.rels:
                tr.seed_bool(c["d"], True)
            elif REL_NEG[rel] in self.rels:
                tr.seed_bool(c["d"], False)
        tr.run()
        return n, tr.accept, tr.reject


def farthest_refresh_rule(R):
    """remove(k): when k is the recorded farthest record, the farthest record is recomputed before returning — eviction decisions and
    the fetcher's bound are taken against `farthest_record`, so a stale one lets a farther record in / evicts nothing."""
    from rules import PL
    rm = R.body("C10.remove.farthest", REMOVE)
    if rm is None:
        return
    prep(rm)
    far = lambda b: Taint(b, through="all").closure({d for d, r, p in field_reads(b, "farthest_record")})
    key = lambda b: Taint(b).closure(PL(b, 1))
    is_far = CmpGuard(far, key, "Eq", "the removed key is the recorded farthest record", through="all", close=False)
    n, acc, rej = is_far.edges(rm)
    if not acc:
        R.viol("C10.remove.farthest", "guard-missing", "remove() does not test whether the removed key is the recorded farthest record", rm, rm.lines[0])
        R.inst("C10.remove.farthest", "K5 must-follow", "removing the farthest record recomputes farthest_record", 0, False)
        return
    R.must_pass("C10.remove.farthest", rm, [("farthest_record = calculate_farthest()", CallSink(NRS + "::calculate_farthest"))], from_blocks=tuple(d for _, d in final_edges(cfg_of(rm), acc)),
                descr="removing the farthest record recomputes farthest_record")


def setter_and_restore_rules(R):
    """(a) set_responsible_distance_range stores the range it is given (clean-up and the quoted in-range count use the *current*
    responsible range); (b) with_config always recomputes farthest_record from the recovered index; (c) restore_quoting_metrics
    answers a file that opens and decodes with its contents — no other reason to start the payment count afresh."""
    from rules import PL
    F = R.F
    sr = R.body("C10.range.set", NRS + "::set_responsible_distance_range")
    if sr is not None:
        prep(sr)
        calls = [c["ncallee"] for c in sr.calls if not c.get("mac") and not any(t in (c["ncallee"] or "") for t in ("convert::From", "convert::Into", "clone::Clone", "option::Option::Some"))]
        ws = [st for blk in sr.blocks for st in blk["stmts"] if len(st["d"]) > 1 and st["d"][-1] == ".responsible_distance_range"]
        param = Taint(sr).closure(PL(sr, 1))
        somes = {st["d"][0]: st["rv"] for blk in sr.blocks for st in blk["stmts"] if st["rv"]["k"] == "agg" and st["rv"].get("variant") == "Some" and len(st["d"]) == 1}

        def some_of_param(st):
            rv = st["rv"]
            if rv["k"] == "use" and rv["a"][0] in ("cp", "mv") and len(rv["a"][1]) == 1 and rv["a"][1][0] in somes:
                rv = somes[rv["a"][1][0]]
            if rv["k"] == "agg" and rv.get("variant") == "Some" and op_local(rv["ops"][0]) in param:
                return True
            # `= range.into()` / `Some(range).clone()`: the stored value derives from the parameter through conversions only
            return rv["k"] == "use" and op_local(rv["a"]) in Taint(sr, extra_transparent=["core::option::Option::Some"]).closure(param)
        ok = bool(ws) and not calls and all(some_of_param(st) for st in ws)
        if not ok:
            R.viol("C10.range.set", "range-not-stored", "set_responsible_distance_range does not store exactly the range it is given (%s)" % (calls[:2] or "assignment changed"), sr, sr.lines[0])
        R.inst("C10.range.set", "K6 flows-to", "responsible_distance_range = Some(the new range)", len(ws), ok)
    wc = R.body("C10.restore.farthest", WITHCFG)
    if wc is not None:
        R.must_pass("C10.restore.farthest", wc, [("farthest_record = calculate_farthest()", CallSink(NRS + "::calculate_farthest"))],
                    descr="with_config recomputes farthest_record from the recovered index on every path")
    rq = R.body("C10.restore.complete", NRS + "::restore_quoting_metrics")
    if rq is not None:
        prep(rq)
        g = cfg_of(rq)
        rejects = set()
        for gd in (CallGuard(["std::fs::File::open"], ("Ok",), "the file opens"), CallGuard(["rmp_serde::decode::from_read"], ("Ok",), "the file decodes")):
            rejects |= gd.edges(rq)[2]
        live = g.reach((0,), cut=rejects)
        nones = [b for b in AggSink("core::option::Option", "None", computed=True).blocks(rq) if b in live]
        somes_ = [b for b in AggSink("core::option::Option", "Some", computed=True).blocks(rq) if b in live]
        okr = bool(somes_) and not nones
        if not okr:
            R.viol("C10.restore.complete", "metrics-discarded", "restore_quoting_metrics can answer None for a file that opens and decodes: the received-payment count is reset on that restart", rq, rq.lines[0])
        R.inst("C10.restore.complete", "K4 gate (must-reach)", "a historic metrics file that opens and decodes is restored", len(somes_), okr)
