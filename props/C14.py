"""C14 — self-encrypted data: chunks bounded and content-addressed, level protocol agrees (structural clauses)."""
import re
import tables as T
from cfg import cfg_of
from flow import Taint, Tracker, callee_matches, field_reads, op_local, prep, backward, backward_calls
from rules import CallGuard, CallSink, CmpGuard, RetSink, AggSink, BlockSink, compare_sites
from props.C04 import call_results, agg_field_operands
from rules import PL
from props.C12 import chunk_rules

META = {
    "explanation_r6": 'Also (round 6): chunk_get refuses a fetched record only for a wrong kind or a wrong address — no size limit of its own on honestly stored chunks (C14.fetch.chunk.total).',
    "explanation_more": "Also (round 5): DataMapLevel's variants are written under distinct names the reader maps back (C14.levels.names); results leave the set of running download tasks only through next().await and each is pushed to the returned list (C14.tasks.all.results); the reader's level dispatch is decided on paths from the entry (either loop shape).",
    "explanation_more2": 'Also (round 4): encrypt, pack_data_map, fetch_from_data_map and fetch_from_data_map_chunk answer Err only where one of their fallible calls failed — no size, count or depth limit of their own (C14.total.*).',
    "explanation": "Decides: (1) every chunk leaving encrypt / pack_data_map is built by Chunk::new (address = hash of content) and no other "
                   "Chunk{..} literal exists; (2) the data-map chunk returned by pack_data_map is cut by MAX_CHUNK_SIZE >= "
                   "chunk.serialised_size(); (3) level protocol: pack_data_map wraps the source data map as DataMapLevel::First before the "
                   "loop and every further level as Additional; fetch_from_data_map_chunk returns on First and re-parses on Additional; the "
                   "number of serialisation layers the writer puts between a level's data-map bytes and self_encryption::encrypt equals the "
                   "number of deserialisation layers the reader applies between the decrypted bytes and DataMapLevel (writer wraps in a "
                   "serialised Chunk ⇒ reader must unwrap a Chunk); (4) in fetch_from_data_map the EncryptedChunk index and the fetched "
                   "address come from the same ChunkInfo, so completion order cannot mis-pair content; (5) an input too small to "
                   "self-encrypt propagates self_encryption's error. Also: every ChunkInfo of a data map yields a download task and every downloaded chunk reaches decrypt_full_set (no skipped iteration, no element-dropping adaptor). Not decided: the round trip and determinism of the self_encryption crate.",
    "not_decided": ["self_encryption crate: encrypt/decrypt round trip and determinism", "value-level msgpack compatibility beyond layer counting"],
}

SE = "autonomi::self_encryption::"
CL = "autonomi::client::utils::<impl autonomi::client::Client>::"
CH = "ant_protocol::storage::chunks::Chunk"
ENC = "self_encryption::encrypt"


def run(R):
    F = R.F
    chunk_rules(R, "C14")
    # "for every byte string large enough ... returns the original bytes": the wrappers around the self_encryption crate have no
    # refusal of their own — every Err they answer is a failed call (the crate's too-small check, a failed fetch, a failed decode)
    for fn, what in ((SE + "encrypt", "encrypt"), (SE + "pack_data_map", "pack_data_map"), (CL + "fetch_from_data_map", "fetch_from_data_map"),
                     (CL + "fetch_from_data_map_chunk", "fetch_from_data_map_chunk")):
        R.only_propagated_errors("C14.total." + what, fn, "%s answers Err only where one of its fallible calls failed (no size / count / depth limit of its own)" % what)
    # (1) chunks built by Chunk::new
    for fn in (SE + "encrypt", SE + "pack_data_map"):
        sites = [c for b in F.item(fn) for c in b.calls if c["ncallee"] == CH + "::new"]
        if not sites:
            R.viol("C14.chunks", "chunk-new:%s" % fn.split("::")[-1], "%s does not build its chunks with Chunk::new" % fn)
        R.inst("C14.chunks", "K1 must-call", "%s builds chunks through Chunk::new" % fn.split("::")[-1], len(sites), bool(sites))
    pk = R.body("C14.size", SE + "pack_data_map")
    if pk is not None:
        prep(pk)
        g = cfg_of(pk)
        # (2) size gate on the tuple that leaves the loop
        ret_tuple = BlockSink(lambda b: [blk["id"] for blk in b.blocks if not blk["cleanup"] for s in blk["stmts"] if s["rv"]["k"] == "agg" and s["rv"]["ak"] == "tuple"
                                         and len(s["rv"]["ops"]) == 2 and "Chunk" in b.locals.get(str(op_local(s["rv"]["ops"][0])), "") and
                                         "Vec<" in b.locals.get(str(op_local(s["rv"]["ops"][1])), "")], "break (chunk, chunks)")

        def maxc(b):
            ta = Taint(b, through="all")
            out = set()
            for blk in b.blocks:
                t = blk["term"]
                if t["k"] == "call" and "MAX_CHUNK_SIZE" in (t["ncallee"] or ""):
                    out.add(t["d"][0])
            return Taint(b).closure(out)
        size_ok = CmpGuard(maxc, lambda b: Taint(b).closure(call_results([CH + "::serialised_size"])(b)), "Ge", "MAX_CHUNK_SIZE >= chunk.serialised_size()", close=False)
        R.gate("C14.size", pk, ret_tuple, [[size_ok]], descr="pack_data_map returns a data-map chunk only if it fits MAX_CHUNK_SIZE")
        # (3a) First before the loop, Additional inside
        firsts = AggSink(SE + "DataMapLevel", "First").blocks(pk)
        adds = AggSink(SE + "DataMapLevel", "Additional").blocks(pk)
        encs = [b["id"] for b in pk.blocks if b["term"]["k"] == "call" and not b["cleanup"] and callee_matches(b["term"], [ENC])]
        ok = len(firsts) == 1 and len(adds) == 1 and len(encs) == 1 and g.dominates(firsts[0], encs[0]) and g.dominates(encs[0], adds[0]) \
            and firsts[0] not in g.reach((encs[0],))
        if ok:
            ta = Taint(pk, through="all")
            dm = ta.closure({g.term(encs[0])["d"][0]})
            a = [s for s in g.stmts(adds[0]) if s["rv"]["k"] == "agg" and s["rv"]["variant"] == "Additional"]
            ok = op_local(a[0]["rv"]["ops"][0]) in dm
        if not ok:
            R.viol("C14.levels.writer", "level-tags", "pack_data_map must tag the source data map First (once, before the loop) and each re-encrypted level Additional", pk, pk.lines[0])
        R.inst("C14.levels.writer", "K3 who-may-construct", "writer: First once before the loop; Additional(data map of the re-encryption) inside", len(firsts) + len(adds), ok)
    # (3a') every level's chunks are returned: inside the loop the chunk list is rebuilt from the new level's chunks AND the list so far
    if pk is not None:
        from flow import backward_calls
        g = cfg_of(pk)
        # the list that leaves the loop: second element of the returned tuple
        tup = [s for b in pk.blocks if not b["cleanup"] for s in b["stmts"] if s["rv"]["k"] == "agg" and s["rv"]["ak"] == "tuple" and len(s["rv"]["ops"]) == 2
               and "Chunk" in pk.locals.get(str(op_local(s["rv"]["ops"][0])), "") and "Vec<" in pk.locals.get(str(op_local(s["rv"]["ops"][1])), "")]
        okacc = False
        nass = 0
        if tup:
            lst = op_local(tup[0]["rv"]["ops"][1])
            roots = backward(pk, lst) | {lst}
            vec_locals = {l for l in roots if pk.locals.get(str(l), "").startswith("alloc::vec::Vec<ant_protocol::storage::chunks::Chunk")}
            encs = [b["id"] for b in pk.blocks if b["term"]["k"] == "call" and not b["cleanup"] and callee_matches(b["term"], [ENC])]
            inloop = g.reach(tuple(encs)) if encs else set()
            okacc = True
            for b in pk.blocks:
                if b["id"] not in inloop or b["cleanup"]:
                    continue
                # assignments (statement or call destination) to the accumulated list inside the loop
                srcs = []
                for st in b["stmts"]:
                    if st["d"][0] in vec_locals and len(st["d"]) == 1 and st["rv"]["k"] == "use" and op_local(st["rv"]["a"]) is not None and op_local(st["rv"]["a"]) not in vec_locals:
                        srcs.append(op_local(st["rv"]["a"]))
                t = b["term"]
                if t["k"] == "call" and t["d"] and t["d"][0] in vec_locals and (t["ngen"] or "").endswith("Iterator::collect") or \
                        (t["k"] == "call" and t["d"] and t["d"][0] in vec_locals and "collect" in (t["ncallee"] or "")):
                    srcs.append(("call", t))
                for src in srcs:
                    nass += 1
                    if isinstance(src, tuple):
                        locs = set()
                        for a in src[1]["args"]:
                            if op_local(a) is not None:
                                l2, _ = backward_calls(pk, op_local(a))
                                locs |= l2
                    else:
                        locs, _ = backward_calls(pk, src)
                    if not (locs & vec_locals):
                        okacc = False
                        R.viol("C14.levels.accumulate", "levels-dropped", "pack_data_map rebuilds the chunk list of an additional level without the chunks collected so far: "
                               "with two or more additional levels the earlier levels' chunks are never returned (and never uploaded)", pk, (src[1] if isinstance(src, tuple) else b["term"]).get("l"))
            if nass == 0:
                okacc = False
                R.viol("C14.levels.accumulate", "accumulation-missing", "pack_data_map's loop never adds the new level's chunks to the returned list", pk, pk.lines[0])
        else:
            R.viol("C14.levels.accumulate", "anchor-missing:return-tuple", "cannot find the (chunk, chunks) tuple pack_data_map returns", pk, pk.lines[0])
        R.inst("C14.levels.accumulate", "K6 flows-to", "chunks of every data-map level are accumulated into the returned list", nass, okacc)
    en_ = R.body("C14.chunks.all", SE + "encrypt")
    if en_ is not None:
        prep(en_)
        ta = Taint(en_, through="all")
        a_ = ta.closure(call_results([ENC])(en_))
        b_ = ta.closure(call_results([SE + "pack_data_map"])(en_))
        tup = [s for b in en_.blocks if not b["cleanup"] for s in b["stmts"] if s["rv"]["k"] == "agg" and s["rv"]["ak"] == "tuple" and len(s["rv"]["ops"]) == 2
               and "Vec<" in en_.locals.get(str(op_local(s["rv"]["ops"][1])), "")]
        okall = bool(tup) and all(op_local(s["rv"]["ops"][1]) in a_ and op_local(s["rv"]["ops"][1]) in b_ for s in tup)
        if not okall:
            R.viol("C14.chunks.all", "returned-chunks", "encrypt() does not return both the data chunks and the additional data-map-level chunks", en_, en_.lines[0])
        R.inst("C14.chunks.all", "K6 flows-to", "encrypt() returns data chunks ∪ additional-level chunks", len(tup), okall)

    # (3a') the level tag: writer and reader of DataMapLevel agree on one distinct wire name per variant (rmp-serde writes enum variants by
    # name): two variants under one name, or a name the reader maps elsewhere, turn an Additional level into a First one on the way back
    from serdepair import serde_agreement
    serde_agreement(R, "C14.levels.names", ["autonomi::self_encryption::DataMapLevel"], 1)
    # (3b) reader
    fd = R.body("C14.levels.reader", CL + "fetch_from_data_map_chunk::{closure#0}")
    wl = rl = None
    if fd is not None:
        prep(fd)
        g = cfg_of(fd)
        # discriminant switches over DataMapLevel
        tr_first = Tracker(fd)
        tr_add = Tracker(fd)
        n = 0
        for blk in fd.blocks:
            for s in blk["stmts"]:
                if s["rv"]["k"] == "discr" and "DataMapLevel" in fd.locals.get(str(s["rv"]["p"][0]), ""):
                    tr_first.seed_discr(s["d"][0], ("First#0",))
                    tr_add.seed_discr(s["d"][0], ("Additional#1",))
                    n += 1
        tr_first.run(); tr_add.run()
        okret = RetSink("Ok").blocks(fd)
        # Ok(data) … assigned on break: find `Ok` aggregates of Bytes
        oks = AggSink("core::result::Result", "Ok", dest_ty="Bytes").blocks(fd)
        parses = [b["id"] for b in fd.blocks if b["term"]["k"] == "call" and not b["cleanup"] and (b["term"]["ncallee"] or "").endswith("rmp_serde::decode::from_slice")
                  and "DataMapLevel" in (b["term"].get("callee") or "") + " ".join(fd.locals.get(str(b["term"]["d"][0]), "") for _ in [0])]
        fetches = [b["id"] for b in fd.blocks if b["term"]["k"] == "call" and callee_matches(b["term"], [CL + "fetch_from_data_map"])]
        # the function's Ok results: the `Ok(data)` literal, or the last fetch's result handed on (`self.fetch_from_data_map(&first).await`
        # as the tail expression; loaded in branch form)
        oks = sorted(set(oks) | set(RetSink("Ok", computed=True).blocks(fd)))
        ok = bool(tr_first.accept) and bool(tr_add.accept) and bool(oks) and bool(fetches)
        if ok:
            # Stated on paths from the entry, so that it holds for either loop shape (fetch, then dispatch on the level — or dispatch, fetch
            # inside the Additional arm, and the First map fetched behind the loop): data is returned only on a path that met `First`
            # (no Ok with the First-accepting edges cut), a fetched level is re-parsed only on a path that met `Additional`, the re-parse
            # follows a fetch, and some fetch lies on the way to every Ok.
            post = g.reach(tuple(fetches))
            reparse = [p for p in parses if p in post]
            ok = bool(reparse) and not (set(oks) & g.reach((0,), cut=tr_first.accept)) and not (set(reparse) & g.reach((0,), cut=tr_add.accept)) \
                and not (set(oks) & g.reach((0,), avoid=set(fetches)))
        if not ok:
            R.viol("C14.levels.reader", "level-dispatch", "fetch_from_data_map_chunk must return the data on First and re-parse a data map on Additional", fd, fd.lines[0])
        R.inst("C14.levels.reader", "K7 table agreement", "reader: First → return data; Additional → parse next level", n, ok)
        # (3c) layer agreement
        if pk is not None and fd is not None:
            encb = [b for b in pk.blocks if b["term"]["k"] == "call" and not b["cleanup"] and callee_matches(b["term"], [ENC])]
            if encb:
                earg = op_local(encb[0]["term"]["args"][0])
                def _ser_of_chunk(b):
                    t = b["term"]
                    if (t["ncallee"] or "") == "<%s as serde::ser::Serialize>::serialize" % CH:
                        return True
                    # the serialisation moved into a generic helper (`to_msgpack_bytes::<T>(&chunk, ..)`, inlined here): the call is the
                    # unresolved trait method; what is serialised is decided by the type of the value the first argument refers to
                    if not (t.get("ngen") or t["ncallee"] or "").endswith("serde::ser::Serialize::serialize") or not t["args"]:
                        return False
                    l0 = op_local(t["args"][0])
                    if l0 is None:
                        return False
                    tys = {pk.locals.get(str(x), "").replace("&", "").replace("mut ", "").strip() for x in backward(pk, l0, through_calls=False)}
                    return CH in tys
                sers = [b for b in pk.blocks if b["term"]["k"] == "call" and not b["cleanup"] and _ser_of_chunk(b)]
                wl = 0
                ta_all = Taint(pk, through="all")
                for sb in sers:
                    # the serializer (a `&mut` argument) and whatever it writes into
                    tgt = set()
                    for a in sb["term"]["args"][1:]:
                        l = op_local(a)
                        if l is not None:
                            tgt.add(l)
                            tgt |= ta_all.ref_of.get(l, set())
                    # serializer wraps `&mut buf`: follow construction backwards to the buffer
                    for l in list(tgt):
                        tgt |= backward(pk, l, extra=["rmp_serde::encode::Serializer::new", "*Serializer<W>::new"])
                    for l in list(tgt):
                        tgt |= ta_all.ref_of.get(l, set())
                    if earg in ta_all.closure(tgt):
                        wl += 1
            post = g.reach(tuple(fetches)) if fetches else set()
            fetched = Taint(fd, through="all").closure({g.term(f)["d"][0] for f in fetches})
            lvl = [b for b in fd.blocks if b["id"] in post and b["term"]["k"] == "call" and not b["cleanup"] and (b["term"]["ncallee"] or "").endswith("rmp_serde::decode::from_slice")
                   and "DataMapLevel" in fd.locals.get(str(b["term"]["d"][0]), "")]
            if lvl:
                _, calls = backward_calls(fd, op_local(lvl[0]["term"]["args"][0]))
                rl = sum(1 for c in calls if (c["ncallee"] or "").endswith("rmp_serde::decode::from_slice") and "Chunk" in fd.locals.get(str(c["d"][0]), "")
                         and "DataMapLevel" not in fd.locals.get(str(c["d"][0]), ""))
            ok = wl is not None and rl is not None and wl == rl
            if not ok:
                R.viol("C14.levels.layers", "layer-mismatch",
                       "pack_data_map puts %s Chunk-serialisation layer(s) between a level's data-map bytes and self_encryption::encrypt, but "
                       "fetch_from_data_map_chunk removes %s before parsing DataMapLevel" % (wl, rl), fd, fd.lines[0])
            R.inst("C14.levels.layers", "K7 table agreement", "writer's serialisation layers per additional level == reader's deserialisation layers", 2, ok,
                   {"writer_chunk_serialise_layers": wl, "reader_chunk_deserialise_layers": rl})
    # (4a) every ChunkInfo of the data map yields a download, and every download reaches decrypt_full_set
    from rules import _chain_calls, DROPPING_ADAPTORS, CallSink
    fb = R.body("C14.fetch.all", CL + "fetch_from_data_map::{closure#0}")
    if fb is not None:
        prep(fb)
        g = cfg_of(fb)
        INFOS = "self_encryption::data_map::DataMap::infos"
        okf = True
        proc = [b for b in fb.blocks if b["term"]["k"] == "call" and not b["cleanup"] and callee_matches(b["term"], ["autonomi::client::utils::process_tasks_with_max_concurrency"])]
        dec = [b for b in fb.blocks if b["term"]["k"] == "call" and not b["cleanup"] and callee_matches(b["term"], ["self_encryption::decrypt_full_set"])]
        if not proc or not dec:
            okf = False
            R.viol("C14.fetch.all", "anchor-missing:fetch", "fetch_from_data_map: process_tasks_with_max_concurrency / decrypt_full_set not found", fb, fb.lines[0])
        else:
            names, _f = _chain_calls(F, fb, op_local(proc[0]["term"]["args"][0]))
            dropped = [n for n in names if any(n.endswith(x) or (x + "<") in n for x in DROPPING_ADAPTORS)]
            if INFOS not in names or dropped:
                okf = False
                R.viol("C14.fetch.all", "tasks-source", "the download tasks are not built from every entry of data_map.infos() (%s)" % (dropped[0] if dropped else "infos() not on the chain"), fb, proc[0]["term"]["l"])
            names2, _f2 = _chain_calls(F, fb, op_local(dec[0]["term"]["args"][1]))
            dropped2 = [n for n in names2 if any(n.endswith(x) or (x + "<") in n for x in DROPPING_ADAPTORS)]
            if "autonomi::client::utils::process_tasks_with_max_concurrency" not in names2 or dropped2:
                okf = False
                R.viol("C14.fetch.all", "chunks-source", "decrypt_full_set is not handed every downloaded chunk (%s)" % (dropped2[0] if dropped2 else "task results not on the chain"), fb, dec[0]["term"]["l"])
            # loop form: no iteration over infos() comes round without having pushed a task
            pushes = set(CallSink("alloc::vec::Vec::push", "*Vec<T, A>::push", "*FuturesUnordered<Fut>::push", "*FuturesOrdered<Fut>::push_back").blocks(fb))
            nloops = 0
            for nb in fb.blocks:
                t = nb["term"]
                if nb["cleanup"] or t["k"] != "call" or not (t["ngen"] or "").endswith("iterator::Iterator::next"):
                    continue
                it = Taint(fb).ref_of.get(op_local(t["args"][0]), {op_local(t["args"][0])})
                src = set()
                for l in it:
                    src |= set(_chain_calls(F, fb, l)[0])
                if INFOS not in src:
                    continue
                nloops += 1
                tr = Tracker(fb)
                tr.seed_call_result(t["d"][0], ("None",), False)
                tr.run()
                starts = tuple(d for _, d in tr.reject)
                if not pushes or nb["id"] in g.reach(starts, avoid=pushes):
                    okf = False
                    R.viol("C14.fetch.all", "info-skipped", "an entry of data_map.infos() can be skipped without a download task (the loop comes round without pushing)", fb, t["l"])
        R.inst("C14.fetch.all", "K5 must-follow", "every ChunkInfo yields a download task and every downloaded chunk reaches decrypt_full_set", len(proc) + len(dec), okf)
    # (4b) what is self-encrypted is the caller's bytes unchanged (a too-small input reaches the library as it is and is refused there),
    #      every task handed to the concurrency helper is driven, and fetched chunks are authenticated by chunk_get (rule of C15)
    enc = R.body("C14.input.whole", "autonomi::self_encryption::encrypt")
    if enc is not None:
        prep(enc)
        se = [b for b in enc.blocks if b["term"]["k"] == "call" and not b["cleanup"] and callee_matches(b["term"], ["self_encryption::encrypt"])]
        from flow import must_be_copy_of
        oki = bool(se) and all(must_be_copy_of(enc, op_local(b["term"]["args"][0]), PL(enc, 0)) for b in se)
        if not oki:
            R.viol("C14.input.whole", "input-rewritten", "autonomi's encrypt does not hand the caller's bytes unchanged to self_encryption::encrypt (padding / truncating changes what is stored and hides the too-small error)", enc, enc.lines[0])
        R.inst("C14.input.whole", "K6 flows-to", "self_encryption::encrypt(data) receives the input bytes themselves", len(se), oki)
    pt = R.body("C14.tasks.all", "autonomi::client::utils::process_tasks_with_max_concurrency::{closure#0}")
    if pt is not None:
        R.every_iteration("C14.tasks.all", pt, lambda names, fields: True,
                          CallSink("*FuturesUnordered<Fut>::push", "futures_util::stream::futures_unordered::FuturesUnordered::push"),
                          "every task handed to process_tasks_with_max_concurrency is started", "the tasks")
        # … and every result taken out of the set of running tasks reaches the returned list: the set is only pushed into, asked for its
        # size and drained through `next().await` whose `Some(result)` is pushed; any other consumer (`by_ref().collect().now_or_never()`,
        # a `select`, a `clear`) can take finished downloads out and drop them — decrypt then returns Ok with those chunks' ranges missing
        prep(pt)
        gpt = cfg_of(pt)
        fu = {int(k) for k, v in pt.locals.items() if v.startswith("futures_util::stream::futures_unordered::FuturesUnordered<")}
        tref = Taint(pt)
        ALLOWED = ("FuturesUnordered<Fut>::push", "FuturesUnordered::push", "FuturesUnordered<Fut>::new", "FuturesUnordered::new", "FuturesUnordered<Fut>::len", "FuturesUnordered::len",
                   "FuturesUnordered<Fut>::is_empty", "FuturesUnordered::is_empty", "StreamExt::next")
        odd, nexts = [], []
        for blk in pt.blocks:
            t = blk["term"]
            if t["k"] != "call" or blk["cleanup"]:
                continue
            touches = False
            for a in t["args"]:
                l = op_local(a)
                if l is None:
                    continue
                if l in fu or (tref.ref_of.get(l, set()) & fu):
                    touches = True
            if not touches:
                continue
            nm = t.get("ngen") or t.get("ncallee") or ""
            if nm.endswith("StreamExt::next"):
                nexts.append(blk)
            elif not nm.endswith(ALLOWED):
                odd.append((blk, nm))
        okres = bool(fu) and len(nexts) >= 1 and not odd
        for blk, nm in odd[:2]:
            R.viol("C14.tasks.all.results", "consumer:%s" % nm.split("::")[-1], "process_tasks_with_max_concurrency hands the set of running tasks to %s: results it takes out need not reach the returned list" % nm, pt, blk["term"].get("l"))
        # each `next().await`: on its Some side the result is pushed before the set is asked again
        vpush = {b_["id"] for b_ in pt.blocks if b_["term"]["k"] == "call" and not b_["cleanup"] and (b_["term"].get("ncallee") or "").endswith(("Vec::push", "Vec<T, A>::push", "::extend", "Vec<T, A>::extend"))}
        for nb in nexts:
            tr_ = Tracker(pt)
            tr_.seed_call_result(nb["term"]["d"][0], ("Some",), True)
            tr_.run()
            rets_ = {b_["id"] for b_ in pt.blocks if b_["term"]["k"] == "return" and not b_["cleanup"]}
            again = {x["id"] for x in nexts}
            if not tr_.accept or any((gpt.reach((d,), avoid=vpush) & (rets_ | again)) for _, d in tr_.accept):
                okres = False
                R.viol("C14.tasks.all.results", "result-dropped", "a finished task's result (futures.next() is Some) can be left out of the returned list", pt, nb["term"].get("l"))
                break
        if not fu:
            R.viol("C14.tasks.all.results", "anchor-missing:FuturesUnordered", "no FuturesUnordered in process_tasks_with_max_concurrency", pt, pt.lines[0])
        R.inst("C14.tasks.all.results", "K2 mutator whitelist + K5 must-follow", "results leave the set of running tasks only through next().await, and each is pushed to the returned list", len(nexts), okres)
    from props.C15 import chunk_get_rule
    chunk_get_rule(R, "C14.fetch")
    fetched_chunks_rule(R, "C14")
    # (4) index pairing
    fm = [b for b in F.item(CL + "fetch_from_data_map") if b.kind == "closure" and any(c["ncallee"] == "autonomi::client::data::public::<impl autonomi::client::Client>::chunk_get" for c in b.calls)]
    ok = False
    for b in fm:
        prep(b)
        idx = agg_field_operands(b, "*EncryptedChunk", "index")
        cg = [blk for blk in b.blocks if blk["term"]["k"] == "call" and callee_matches(blk["term"], ["autonomi::client::data::public::<impl autonomi::client::Client>::chunk_get"])]
        if not (idx and cg):
            continue
        # edition-2021 closures capture `info.index` and `info.dst_hash` as separate upvars named <var>__<field>
        caps = {v["name"]: v["v"] for v in b.vars if isinstance(v["v"], list) and len(v["v"]) > 1 and "__" in v["name"]}
        iv = [n for n in caps if n.endswith("__index")]
        hv = [n for n in caps if n.endswith("__dst_hash")]
        if not (iv and hv) or iv[0].split("__")[0] != hv[0].split("__")[0]:
            continue

        def reads_of(place):
            return {s["d"][0] for blk in b.blocks for s in blk["stmts"] if s["rv"]["k"] in ("use", "ref") and
                    ((s["rv"]["a"][1] if s["rv"]["k"] == "use" and s["rv"]["a"][0] in ("cp", "mv") else s["rv"].get("p")) or [])[:len(place)] == place}
        ok = bool(backward(b, op_local(idx[0][2])) & reads_of(caps[iv[0]])) and bool(backward(b, op_local(cg[0]["term"]["args"][1])) & reads_of(caps[hv[0]]))
        cont = agg_field_operands(b, "*EncryptedChunk", "content")
        fetched = Taint(b, through="all").closure({cg[0]["term"]["d"][0]})
        ok = ok and bool(cont) and op_local(cont[0][2]) in fetched
    if not ok:
        R.viol("C14.pairing", "index-pairing", "EncryptedChunk.index and the fetched address do not come from the same ChunkInfo")
    R.inst("C14.pairing", "K6 flows-to", "EncryptedChunk{index: info.index, content: chunk_get(info.dst_hash)}", len(fm), ok)
    # (5) too-small input
    en = R.body("C14.small", SE + "encrypt")
    if en is not None:
        R.gate("C14.small", en, RetSink("Ok"), [[CallGuard([ENC], ("Ok",), "self_encryption::encrypt is Ok")], [CallGuard([SE + "pack_data_map"], ("Ok",), "pack_data_map is Ok")]],
               descr="encrypt returns Ok only if self-encryption and data-map packing succeeded (too-small input ⇒ error)")


def fetched_chunks_rule(R, pfx="C14"):
    """Every EncryptedChunk handed to decrypt_full_set is built from a chunk that chunk_get returned as Ok (i.e. address-checked): no
    chunk is taken from an error value or from anywhere else (shared with C15)."""
    F = R.F
    CG_ = "autonomi::client::data::public::<impl autonomi::client::Client>::chunk_get"
    n, ok = 0, True
    for b in F.item(CL + "fetch_from_data_map"):
        prep(b)
        sink = AggSink("*EncryptedChunk")
        blocks = sink.blocks(b)
        if not blocks:
            continue
        n += len(blocks)
        ok = R.gate(pfx + ".chunks.checked", b, sink, [[CallGuard([CG_], ("Ok",), "chunk_get(info.dst_hash) is Ok")]],
                    descr="an EncryptedChunk is built only from a chunk that chunk_get accepted") and ok
    if n == 0:
        R.viol(pfx + ".chunks.checked", "anchor-missing:EncryptedChunk", "no EncryptedChunk construction found in fetch_from_data_map")
        R.inst(pfx + ".chunks.checked", "K4 gate", "an EncryptedChunk is built only from a chunk that chunk_get accepted", 0, False)
