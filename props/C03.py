"""C03 — new data is stored from a client only with a valid payment for that exact data."""
import tables as T
from cfg import cfg_of
from flow import Taint, callee_matches, op_local, prep
from rules import ForallGuard, CallGuard, CallSink, CmpGuard, RetSink, AggSink, BlockSink, P

META = {
    "explanation_r6": 'Also (round 6): the every-result test of verify_data_payment is decided in the accumulated-verdict form too (a flag cleared by a failing result / folded with &=, tested behind the exhausted loop) — `flag = result.isValid` (last result decides) is not that form.',
    "explanation_more": 'Also (round 4): the payment waiver for a held record rests on the store functions refusing a held record of another kind (get_local_transactions / register_validation answer only with the decoded local copy: C03.exists.*); as_xorname names the same bytes as as_bytes for every typed address variant, so a quote for one address cannot validate another (C03.addr-table).',
    "explanation": "Decides: (1) Network::put_local_record is called only from the four typed store functions, which are called only from "
                   "validate_and_store_record / store_replicated_in_record; (2) per RecordKind arm of validate_and_store_record (exhaustive "
                   "over the enum) every path to the arm's store call crosses the accepting edge of payment_for_us_exists_and_is_still_valid "
                   "(chunk, scratchpad), or of {payment accepted, already held} (transaction, register with payment), or of `already held` "
                   "(unpaid scratchpad/register); unpaid chunk/transaction arms reach no store call; (3) inside "
                   "payment_for_us_exists_and_is_still_valid the Ok return and notify_payment_received are cut by verify_for, !has_expired, "
                   "no out-of-range payee, verify_data_payment Ok, and every quote of this node is compared with the stored address; "
                   "(4) ProofOfPayment::verify_for returns true only after payee membership and a signature check of every quote. "
                   "Also: verify_data_payment tests isValid for every result of the contract call (none is skipped) and submits every quote; every own quote is compared with the stored address (none is skipped); the quote-binding rules (signature field coverage, verifier, quotes_by_peer) and the expiry rules of C13 are evaluated here as C03.* because these clauses rest on them. Not decided: what the payment contract answers; closeness as a numeric fact.",
    "not_decided": ["the payment contract's answer (external call)", "numeric closeness of payees"],
}

PV = "ant_node::put_validation::<impl ant_node::node::Node>::"
KIND = "ant_protocol::storage::header::RecordKind"
PUT = "ant_networking::Network::put_local_record"
STORE_FNS = [PV + "store_chunk", PV + "validate_and_store_scratchpad_record", PV + "validate_and_store_register",
             PV + "validate_merge_and_store_transactions"]
PAY = PV + "payment_for_us_exists_and_is_still_valid"
VKE = PV + "validate_key_and_existence"

G_PAY = CallGuard([PAY], ("Ok",), "payment_for_us_exists_and_is_still_valid is Ok")
G_HELD = CallGuard([VKE], ("Ok", "true"), "validate_key_and_existence is Ok(true) (already held)")

ARMS = {  # variant -> (store callee or None, any-of guard group)
    "ChunkWithPayment": (PV + "store_chunk", [G_PAY]),
    "ScratchpadWithPayment": (PV + "validate_and_store_scratchpad_record", [G_PAY]),
    "TransactionWithPayment": (PV + "validate_merge_and_store_transactions", [G_PAY, G_HELD]),
    "RegisterWithPayment": (PV + "validate_and_store_register", [G_PAY, G_HELD]),
    "Scratchpad": (PV + "validate_and_store_scratchpad_record", [G_HELD]),
    "Register": (PV + "validate_and_store_register", [G_HELD]),
    "Chunk": (None, None),
    "Transaction": (None, None),
}


def param_seeds(name):
    def f(body):
        return Taint(body).var_locals(name)
    return f


def field_read_seeds(field):
    """locals assigned from a place that projects `.field`"""
    def f(body):
        out = set()
        for b in body.blocks:
            for s in b["stmts"]:
                rv = s["rv"]
                p = None
                if rv["k"] == "use" and rv["a"][0] in ("cp", "mv"):
                    p = rv["a"][1]
                elif rv["k"] == "ref":
                    p = rv["p"]
                if p and ("." + field) in p[1:] and len(s["d"]) == 1:
                    out.add(s["d"][0])
        return out
    return f


def run(R):
    F = R.F
    # (1) sinks
    R.who_may_call("C03.sinks", [PUT], STORE_FNS, floor=2, descr="put_local_record is called only from the four typed store functions")
    R.who_may_call("C03.sinks.callers", STORE_FNS, [PV + "validate_and_store_record", PV + "store_replicated_in_record"], floor=4,
                   descr="the typed store functions are called only from the two record entry points")

    # (2) per-arm gates
    vsr = R.body("C03.arm", PV + "validate_and_store_record::{closure#0}")
    if vsr is not None:
        prep(vsr)
        arms, sw = T.arm_targets(F, vsr, KIND)
        names = T.variant_names(F, KIND) or {}
        if not arms:
            R.viol("C03.arm", "arms-missing", "match over RecordKind not found in validate_and_store_record", vsr, vsr.lines[0])
        else:
            g = cfg_of(vsr)
            any_store = CallSink(*STORE_FNS)
            for v in names.values():
                if v not in ARMS:
                    R.viol("C03.arm." + v, "unknown-kind:%s" % v, "RecordKind::%s has no entry in the payment rule table" % v, vsr, vsr.lines[0])
                    continue
                if v not in arms:
                    R.viol("C03.arm." + v, "arm-missing:%s" % v, "RecordKind::%s has no arm in validate_and_store_record" % v, vsr, vsr.lines[0])
                    continue
                callee, group = ARMS[v]
                starts = tuple(arms[v])
                region = g.reach(starts)
                stores = [b for b in any_store.blocks(vsr) if b in region]
                if callee is None:
                    ok = not stores
                    if not ok:
                        R.viol("C03.arm." + v, "unpaid-store:%s" % v, "the %s arm (no payment, not an update of held mutable data) can reach a store call" % v,
                               vsr, g.term(stores[0]).get("l"))
                    R.inst("C03.arm." + v, "K4 gate", "arm %s reaches no store call" % v, len(region), ok)
                    continue
                # the arm's store calls must all be the expected callee
                other = [b for b in stores if not callee_matches(g.term(b), [callee])]
                if other:
                    R.viol("C03.arm." + v, "foreign-store:%s" % v, "the %s arm reaches a store call other than %s" % (v, callee.split("::")[-1]), vsr, g.term(other[0]).get("l"))
                sink = BlockSink(lambda body, _s=stores: _s, "store call of the %s arm" % v)
                R.gate("C03.arm." + v, vsr, sink, [group], descr="arm %s: store gated by %s" % (v, " or ".join(x.label for x in group)), starts=starts)

    # (3) inside the payment check
    pay = R.body("C03.pay", PAY + "::{closure#0}")
    if pay is not None:
        prep(pay)
        ok_ret = RetSink("Ok")
        notify = CallSink("ant_networking::Network::notify_payment_received")

        def payees_empty_pred(body, blk, t):
            ta = Taint(body, through="all")
            seeds = set()
            for b in body.blocks:
                tt = b["term"]
                if tt["k"] == "call" and callee_matches(tt, ["ant_evm::data_payments::ProofOfPayment::payees"]):
                    seeds.add(tt["d"][0])
            return op_local(t["args"][0]) in ta.closure(seeds)

        guards = [
            [CallGuard(["ant_evm::data_payments::ProofOfPayment::verify_for"], ("true",), "payment.verify_for(self) is true")],
            [CallGuard(["ant_evm::data_payments::ProofOfPayment::has_expired"], ("false",), "payment.has_expired() is false"),
             ForallGuard("peer_quotes", ["ant_evm::data_payments::PaymentQuote::has_expired"], ("false",), "every quote of the proof has has_expired() false")],
            [CallGuard(["alloc::vec::Vec::is_empty"], ("true",), "payees outside closest_k_peers is empty", arg_pred=payees_empty_pred)],
            [CallGuard(["evmlib::utils::verify_data_payment", "*::verify_data_payment"], ("Ok",), "verify_data_payment is Ok")],
        ]
        R.gate("C03.pay.ok", pay, ok_ret, guards, descr="Ok(()) of the payment check is cut by all four conditions")
        R.gate("C03.pay.notify", pay, notify, guards, descr="notify_payment_received is cut by all four conditions")
        # payees filtered against closest_k_peers
        R.must_call("C03.pay.closest", PAY, ["ant_networking::Network::get_closest_k_value_local_peers"], "payees are compared with get_closest_k_value_local_peers")
        # the payees that matter are those NOT among the closest: a retain / filter closure keeping an element iff `!closest.contains(it)`
        from rules import closures_passed, closure_truth_table
        okf, nf = False, 0
        for pb in F.item(PAY):
            prep(pb)
            for blk in pb.blocks:
                t = blk["term"]
                if t["k"] != "call" or blk["cleanup"]:
                    continue
                nm = t.get("ngen") or t.get("ncallee") or ""
                if not (nm.endswith("Vec::retain") or nm.endswith("Iterator::filter") or (t.get("ncallee") or "").endswith("Vec::retain")):
                    continue
                for cl in closures_passed(F, pb, t):
                    prep(cl)
                    if not any(b2["term"]["k"] == "call" and (b2["term"].get("ncallee") or "").endswith("::contains") for b2 in cl.blocks):
                        continue
                    nf += 1
                    tt = closure_truth_table(cl, lambda b_, cs: None, call_atoms={"*::contains": "C", "core::slice::<impl [T]>::contains": "C", "alloc::vec::Vec::contains": "C"})
                    if tt is not None and tt[0] == ["C"] and all(v == (not dict(k)["C"]) for k, v in tt[1].items()):
                        okf = True
        if not okf:
            R.viol("C03.pay.retain", "payee-filter", "the payees compared with the closest peers are not filtered as `not contained in closest_k_peers` (%d candidate closures)" % nf, pay, pay.lines[0])
        R.inst("C03.pay.retain", "K10 polarity", "payees kept for the out-of-range test iff !closest_k_peers.contains(payee) (retain or filter closure)", nf, okf)
        # (5) quoted address
        R.forall_compare("C03.pay.quoted-address", pay, field_read_seeds("content"), P(1), ok_ret,
                         "this node's quote.content equals the stored address",
                         source_calls=["ant_evm::data_payments::ProofOfPayment::quotes_by_peer"])
        R.must_call("C03.pay.own-quotes", PAY, ["ant_evm::data_payments::ProofOfPayment::quotes_by_peer"], "the compared quotes are this node's (quotes_by_peer)")

    # (3b) the on-chain check itself (evmlib): Ok only if the contract reports every submitted quote as valid, over the full proof
    from rules import FieldBoolGuard, _chain_calls, DROPPING_ADAPTORS
    from flow import backward_calls
    VDP = "evmlib::contract::payment_vault::verify_data_payment::{closure#0}"
    vd = R.body("C03.evm", VDP)
    if vd is not None:
        prep(vd)
        if FieldBoolGuard("isValid", True).edges(vd)[1]:
            R.gate_reject("C03.evm.valid", vd, RetSink("Ok", computed=True), [FieldBoolGuard("isValid", True, "every PaymentVerificationResult.isValid")],
                          descr="verify_data_payment is Ok only if the contract reports every submitted quote as paid")
        else:
            # the per-result test sits in the closure of a try_fold / try_for_each, or the verdicts are folded into a flag (`ok &= r.isValid`): decided by C03.evm.valid.every below
            R.inst("C03.evm.valid", "K4r reject-edge", "verify_data_payment is Ok only if the contract reports every submitted quote as paid (combinator form: see C03.evm.valid.every)", 1, True)
        R.gate("C03.evm.valid.every", vd, RetSink("Ok", computed=True),
               [[ForallGuard(None, None, None, "every verification result returned by the contract has isValid",
                             check=FieldBoolGuard("isValid", True, "result.isValid"),
                             source_calls=["*PaymentVaultHandler<T, P, N>::verify_payment", "*::verify_payment"])]],
               descr="Ok only after *every* result of the contract call was tested for isValid (no result is skipped)")
        R.gate("C03.evm.call", vd, RetSink("Ok", computed=True), [[CallGuard(["*PaymentVaultHandler<T, P, N>::verify_payment", "*::verify_payment"], ("Ok",), "contract call verify_payment is Ok")]],
               descr="verify_data_payment is Ok only if the contract call succeeded")
        # everything in the proof is submitted, and every result is inspected
        from rules import PL
        vp_ = [b for b in vd.blocks if b["term"]["k"] == "call" and not b["cleanup"] and (b["term"]["ncallee"] or "").endswith("::verify_payment")]
        okv = bool(vp_)
        names = []
        if okv:
            names, _ = _chain_calls(F, vd, op_local(vp_[0]["term"]["args"][1]))
            locs, _ = backward_calls(vd, op_local(vp_[0]["term"]["args"][1]))
            dropped = [n for n in names if any(n.endswith(x) for x in DROPPING_ADAPTORS)]
            okv = not dropped and bool(locs & PL(vd, 2))
            if dropped or not (locs & PL(vd, 2)):
                R.viol("C03.evm.all", "not-all-quotes", "verify_data_payment does not submit every quote of the proof to the contract (%s)" % (dropped or "input is not the payment parameter"), vd, vp_[0]["term"]["l"])
            loops = [b for b in vd.blocks if b["term"]["k"] == "call" and not b["cleanup"] and (b["term"]["ngen"] or "").endswith("collect::IntoIterator::into_iter")]
            res = Taint(vd, through="all").closure({vp_[0]["term"]["d"][0]})
            it = [b for b in loops if op_local(b["term"]["args"][0]) in res]
            if it:
                n2, _ = _chain_calls(F, vd, op_local(it[0]["term"]["args"][0]))
                d2 = [n for n in n2 if any(n.endswith(x) for x in DROPPING_ADAPTORS)]
                if d2:
                    okv = False
                    R.viol("C03.evm.all", "results-dropped", "verify_data_payment skips some verification results (%s)" % d2[0], vd, it[0]["term"]["l"])
            else:
                okv = False
                R.viol("C03.evm.all", "results-not-inspected", "verify_data_payment does not iterate the contract's verification results", vd, vd.lines[0])
        R.inst("C03.evm.all", "K6 flows-to", "all quotes of the proof are submitted; all results are inspected", len(vp_), okv, {"chain": names[:8]})

    # (4) verify_for
    from props.C13 import verify_for_rules
    verify_for_rules(R, "C03")
    from props.C13 import expiry_rules, quote_binding_rules
    expiry_rules(R, "C03")   # "no quote has expired" rests on what has_expired decides
    quote_binding_rules(R, "C03")   # "authentically signed by its claimed node", "this node's quote"
    # the payment may be waived only for an *update of a record the node holds*: `already_exists` is a bare key test (a scratchpad
    # and the transactions of one owner share a key), so the waiver rests on the store functions refusing a held record of another
    # kind — get_local_transactions / register_validation answer only with the decoded local copy
    import props.C07 as _C07
    R.import_rules("C07", _C07.run, ["C07.tx.local", "C07.reg.merge", "C07.reg.merged", "C07.reg.store"], "C03.exists")
    # "a quote issued for this address": the quoted-address test compares quote.content with address.as_xorname(), which must name the
    # same bytes the address is stored / looked up under (as_bytes → record key) for every typed variant
    ab = R.body("C03.addr-table", "ant_protocol::NetworkAddress::as_bytes")
    ax = R.body("C03.addr-table", "ant_protocol::NetworkAddress::as_xorname")
    if ab is not None and ax is not None:
        NA = "ant_protocol::NetworkAddress"
        ta_, _ = T.arm_targets(F, ab, NA, min_frac=0.5)
        tx_, _ = T.arm_targets(F, ax, NA, min_frac=0.3)
        okt = bool(ta_) and bool(tx_)
        tab = {}
        if okt:
            ga, gx = cfg_of(ab), cfg_of(ax)
            anycall = T.m_call_name(["*"])
            xn = T.m_call_name(["*::xorname"])
            for v in (T.variant_names(F, NA) or {}).values():
                a = T.follow(ga, ta_[v][0], xn, limit=4) if v in ta_ else None
                if not a:
                    continue        # PeerId / raw RecordKey: no xorname form
                x = T.follow(gx, tx_[v][0], anycall, limit=4) if v in tx_ else "missing"
                tab[v] = (a, x)
                if x != a:
                    okt = False
                    R.viol("C03.addr-table", "xorname-source:%s" % v, "NetworkAddress::%s: as_xorname answers %s but the address is keyed by %s: a quote for one address validates another" % (v, x, a), ax, ax.lines[0])
        else:
            R.viol("C03.addr-table", "table-missing", "cannot extract the per-variant tables of as_bytes / as_xorname", ax, ax.lines[0])
        R.inst("C03.addr-table", "K7 table agreement", "as_xorname names the same bytes as as_bytes for every typed NetworkAddress variant", len(tab), okt and len(tab) >= 4, {"table": {k: list(v) for k, v in tab.items()}})
