"""C04 — every accepted record's address is derived from its own content or owner."""
import tables as T
from cfg import cfg_of
from flow import Taint, callee_matches, op_local, prep
from rules import CallGuard, CallSink, CmpGuard, RetSink, AggSink, BlockSink, pat_match, PL, compare_sites
from rules import P as Pm
from props.C03 import PV, KIND, PUT, STORE_FNS, VKE, param_seeds, field_read_seeds
from props.C12 import chunk_rules

META = {
    "explanation_more": 'Also (round 4): in every arm that processes a payment the presented key is compared before the payment is looked at (C04.arm.vsr.*.pay: a wrongly keyed record is rejected with nothing changed).',
    "explanation": "Decides: (1) the four typed store functions are the only callers of put_local_record; (2) in each, the `key` of the "
                   "persisted Record is the result of NetworkAddress::to_record_key on an address taken from the deserialised content, or "
                   "(transactions) a parameter that a per-element filter (filter/retain closure whose verdict is the comparison, or a loop whose push is cut by it on every iteration) compares with such a key for every element kept; the scratchpad store is "
                   "additionally cut by scratchpad_key == record_key; (3) validate_key_and_existence returns Ok only behind "
                   "expected_record_key == address.to_record_key(), and in every storing arm of validate_and_store_record and "
                   "store_replicated_in_record (10 arms, exhaustive over RecordKind) the *presented* record.key is an operand of a key "
                   "comparison that cuts the store call, or is handed to a validator that performs it; (4) Chunk values are only built by "
                   "Chunk::new (address = hash of bytes); (5) the network-facing RecordStore::put writes neither index, cache nor disk, "
                   "refuses len >= max_value_bytes and unparsable headers before emitting UnverifiedRecord; (6) NetworkAddress::as_bytes and "
                   "to_record_key use the same byte source per variant. Not decided: hash pre-image facts.",
    "not_decided": ["hash/pre-image properties of XorName::from_content", "serde decoding of the content"],
}

TRK = "ant_protocol::NetworkAddress::to_record_key"
NRS = "ant_networking::record_store::NodeRecordStore"
RS_PUT = "<%s as libp2p_kad::record::store::RecordStore>::put" % NRS

# storing arms: function -> {variant: store callee}
VSR = PV + "validate_and_store_record::{closure#0}"
SRIR = PV + "store_replicated_in_record::{closure#0}"
STORE = {"chunk": PV + "store_chunk", "pad": PV + "validate_and_store_scratchpad_record",
         "reg": PV + "validate_and_store_register", "tx": PV + "validate_merge_and_store_transactions"}
ARMS = {
    VSR: {"ChunkWithPayment": "chunk", "ScratchpadWithPayment": "pad", "Scratchpad": "pad", "TransactionWithPayment": "tx",
          "Register": "reg", "RegisterWithPayment": "reg", "Chunk": None, "Transaction": None},
    SRIR: {"Chunk": "chunk", "Scratchpad": "pad", "Transaction": "tx", "Register": "reg",
           "ChunkWithPayment": None, "ScratchpadWithPayment": None, "TransactionWithPayment": None, "RegisterWithPayment": None},
}
# validators that themselves compare the handed-over key (checked in rule C04.key.*): callee -> index of the key argument
KEY_CHECKING_VALIDATORS = {STORE["pad"]: 2, STORE["tx"]: 2}


def call_results(pats):
    def f(body):
        prep(body)
        out = set()
        for b in body.blocks:
            t = b["term"]
            if t["k"] == "call" and not b["cleanup"] and callee_matches(t, pats) and len(t["d"]) == 1:
                out.add(t["d"][0])
        return out
    return f


def tx_key_guard(form):
    # closure form: record_key is captured (environment = local 1); loop form: it is parameter 2 of the async fn
    return CmpGuard(call_results([TRK]), (lambda b: {1}) if form == "closure" else Pm(2), "Eq", "transaction's own key == record_key", through="all")


def per_element_key_check(R, F, tx, prefix="C04.key.tx"):
    """Every transaction persisted by validate_merge_and_store_transactions passed `its own key == record_key`,
    and what is persisted derives from the filtered collection only."""
    prep(tx)
    form, kept = R.per_element_keep(prefix + ".cmp", tx, tx_key_guard, "a transaction is kept only if its own key equals the presented key")
    if form is None:
        return False, kept
    vals = agg_field_operands(tx, "libp2p_kad::record::Record", "value")
    ta = Taint(tx, through="all")
    inp = PL(tx, 1, aliases=False)   # the parameter itself: `let mut v = input; v.retain(..)` makes v a whole alias that is then filtered in place
    flows = bool(vals) and bool(kept) and all(op_local(o) in ta.closure(inp) and op_local(o) not in ta.closure(inp, stop_at=kept) for _, _, o in vals)
    if not flows:
        R.viol(prefix + ".filter", "unfiltered", "a presented transaction can reach the persisted record without passing the key filter", tx, tx.lines[0])
    R.inst(prefix + ".filter", "K6 flows-to (cut)", "persisted transactions derive from the input only through the key-filtered collection", len(vals), flows, {"form": form})
    return form in ("closure", "loop") and flows, kept


def record_key_reads(body):
    ta = Taint(body)
    roots = PL(body, 1)  # the `record: Record` parameter (position 1, after self)
    out = set()
    for b in body.blocks:
        for s in b["stmts"]:
            rv = s["rv"]
            p = rv["a"][1] if rv["k"] == "use" and rv["a"][0] in ("cp", "mv") else rv.get("p") if rv["k"] == "ref" else None
            if p and p[0] in roots and ".key" in p[1:] and len(s["d"]) == 1:
                out.add(s["d"][0])
    return out


def agg_field_operands(body, adt_pat, field):
    out = []
    for b in body.blocks:
        if b["cleanup"]:
            continue
        for s in b["stmts"]:
            rv = s["rv"]
            if rv["k"] == "agg" and rv["ak"] == "adt" and pat_match(rv["adt"], [adt_pat]) and field in rv["fields"]:
                out.append((b, s, rv["ops"][rv["fields"].index(field)]))
    return out


def run(R):
    F = R.F
    # "its signed owner": a register / scratchpad / transaction is only bound to its owner-derived name if the owner's signature
    # is checked on every accepting path — the validate-compare-store rules of C07 are evaluated here too
    from props.C07 import merge_rules
    merge_rules(R, "C04.signed")
    R.who_may_call("C04.sinks", [PUT], STORE_FNS, floor=2, descr="put_local_record is called only from the four typed store functions")

    # (2) key provenance per store function
    for nm, (fn, content_param) in {"chunk": (STORE["chunk"], 1), "pad": (STORE["pad"] + "::{closure#0}", 1),
                                    "reg": (STORE["reg"] + "::{closure#0}", 1), "tx": (STORE["tx"] + "::{closure#0}", 1)}.items():
        rule = "C04.key." + nm
        body = R.body(rule, fn)
        if body is None:
            continue
        prep(body)
        recs = agg_field_operands(body, "libp2p_kad::record::Record", "key")
        if not recs:
            R.viol(rule, "record-literal-missing", "no Record{key,..} literal in %s" % fn, body, body.lines[0])
            R.inst(rule, "K6 flows-to", "key of persisted Record derives from content", 0, False)
            continue
        ta = Taint(body)
        trk = call_results([TRK])(body)
        derived = ta.closure(trk)
        content = Taint(body, through="all").closure(PL(body, content_param))
        ok = True
        for b, s, op in recs:
            k = op_local(op)
            if nm != "tx":
                if k not in derived:
                    ok = False
                    R.viol(rule, "key-not-derived", "Record.key persisted by %s is not the result of NetworkAddress::to_record_key" % fn, body, s["l"])
            else:
                pk = ta.closure(PL(body, 2))  # the `record_key` parameter
                if k not in pk:
                    ok = False
                    R.viol(rule, "key-not-param", "Record.key persisted by %s is not the record_key parameter" % fn, body, s["l"])
        if nm != "tx":
            # the address handed to to_record_key comes from the content
            for b in body.blocks:
                t = b["term"]
                if t["k"] == "call" and not b["cleanup"] and callee_matches(t, [TRK]):
                    if op_local(t["args"][0]) not in content:
                        ok = False
                        R.viol(rule, "address-not-from-content", "to_record_key in %s is applied to an address not taken from the content parameter (#%s)" % (fn, content_param), body, t["l"])
        R.inst(rule, "K6 flows-to", "key of the Record persisted by %s derives from the content's own address" % fn.split("::")[-2 if "closure" in fn else -1],
               len(recs), ok)
    pad = R.body("C04.key.pad.cmp", STORE["pad"] + "::{closure#0}")
    if pad is not None:
        R.gate("C04.key.pad.cmp", pad, CallSink(PUT),
               [[CmpGuard(call_results([TRK]), Pm(2), "Eq", "scratchpad_key == record_key")]],
               descr="scratchpad store cut by content-derived key == presented key")
    tx = R.body("C04.key.tx.filter", STORE["tx"] + "::{closure#0}")
    if tx is not None:
        per_element_key_check(R, F, tx)

    # (3a) validate_key_and_existence
    vke = R.body("C04.vke", VKE + "::{closure#0}")
    if vke is not None:
        R.gate("C04.vke", vke, RetSink("Ok"), [[CmpGuard(Pm(2), call_results([TRK]), "Eq",
                                                         "expected_record_key == address.to_record_key()")]],
               descr="validate_key_and_existence returns Ok only for matching keys")
        R.must_call("C04.vke.addr", VKE, [TRK], "key computed from the address argument")

    # (3b) presented key per storing arm
    n_arms = 0
    for fn, table in ARMS.items():
        body = R.body("C04.arm", fn)
        if body is None:
            continue
        prep(body)
        g = cfg_of(body)
        arms, _ = T.arm_targets(F, body, KIND, min_frac=0.4)
        names = T.variant_names(F, KIND) or {}
        short = "vsr" if fn == VSR else "srir"
        if not arms:
            R.viol("C04.arm", "arms-missing:%s" % short, "match over RecordKind not found in %s" % fn, body, body.lines[0])
            continue
        ta = Taint(body)
        P = ta.closure(record_key_reads(body))
        any_store = CallSink(*STORE_FNS)
        for v in names.values():
            rule = "C04.arm.%s.%s" % (short, v)
            if v not in table:
                R.viol(rule, "unknown-kind:%s" % v, "RecordKind::%s missing from the rule table" % v, body, body.lines[0])
                continue
            starts = tuple(arms.get(v, ()))
            if not starts:
                R.viol(rule, "arm-missing", "RecordKind::%s has no arm in %s" % (v, fn), body, body.lines[0])
                continue
            region = g.reach(starts)
            stores = [b for b in any_store.blocks(body) if b in region]
            want = table[v]
            if want is None:
                ok = not stores
                if not ok:
                    R.viol(rule, "unexpected-store", "arm %s of %s reaches a store call" % (v, short), body, g.term(stores[0]).get("l"))
                R.inst(rule, "K4 gate", "arm %s of %s stores nothing" % (v, short), len(region), ok)
                continue
            n_arms += 1
            wrong = [b for b in stores if not callee_matches(g.term(b), [STORE[want]])]
            if wrong or not stores:
                R.viol(rule, "store-mismatch", "arm %s of %s must store through %s" % (v, short, STORE[want].split("::")[-1]), body,
                       g.term((wrong or [starts[0]])[0]).get("l"))
                R.inst(rule, "K4 gate", "arm %s of %s" % (v, short), len(stores), False)
                continue
            # (b') "rejected and nothing changes": in an arm that processes a payment (counters, reward event) the presented key is
            # compared before the payment is looked at
            pays = [b for b in CallSink(PV + "payment_for_us_exists_and_is_still_valid").blocks(body) if b in region]
            if pays:
                grp_p = [CallGuard([VKE], ("Ok",), "validate_key_and_existence(.., record.key) is Ok",
                                   arg_pred=lambda b_, blk, t, P=P: len(t["args"]) > 2 and op_local(t["args"][2]) in P),
                         CmpGuard(lambda b_, P=P: record_key_reads(b_), call_results([TRK]), "Eq", "record.key == content-derived key")]
                R.gate(rule + ".pay", body, BlockSink(lambda b_, _s=pays: _s, "payment processing of arm %s" % v), [grp_p],
                       descr="arm %s of %s: the presented record.key is compared before the payment is processed" % (v, short), starts=starts)
            # (c) presented key handed to a key-checking validator
            idx = KEY_CHECKING_VALIDATORS.get(STORE[want])
            handed = idx is not None and all(op_local(g.term(b)["args"][idx]) in P for b in stores)
            if handed:
                R.inst(rule, "K6 flows-to", "arm %s of %s hands record.key to %s, which compares it" % (v, short, STORE[want].split("::")[-1]), len(stores), True)
                continue
            grp = [CallGuard([VKE], ("Ok",), "validate_key_and_existence(.., record.key) is Ok",
                             arg_pred=lambda b_, blk, t, P=P: len(t["args"]) > 2 and op_local(t["args"][2]) in P),
                   CmpGuard(lambda b_, P=P: record_key_reads(b_), call_results([TRK]), "Eq", "record.key == content-derived key")]
            sink = BlockSink(lambda b_, _s=stores: _s, "store call of arm %s" % v)
            R.gate(rule, body, sink, [grp], descr="arm %s of %s: presented record.key is compared before storing" % (v, short), starts=starts)
    if n_arms < 10:
        R.viol("C04.arm", "instance-floor", "only %d storing arms analysed (floor 10)" % n_arms)

    # (4) chunk
    chunk_rules(R, "C04")

    # (5) network-facing put
    put = R.body("C04.put", RS_PUT)
    if put is not None:
        bad = []
        for b in F.item(RS_PUT):
            for m in b.field_mut:
                if m["adt"].endswith("NodeRecordStore") and m["field"] in ("records", "records_cache", "records_by_distance", "farthest_record"):
                    bad.append((b, m["line"], "mutates " + m["field"]))
            for c in b.calls:
                if (c["ncallee"] or "").startswith(("std::fs::", "tokio::fs::")) or (c["ncallee"] or "").endswith(("::put_verified", "::mark_as_stored")):
                    bad.append((b, c["line"], "calls " + c["ncallee"]))
        for b, line, what in bad:
            R.viol("C04.put.nowrite", "pre-validation-write:" + what, "RecordStore::put (unvalidated network input) %s" % what, b, line)
        R.inst("C04.put.nowrite", "K2 who-may-write", "RecordStore::put performs no write to index, cache or disk", len(F.item(RS_PUT)), not bad)
        emit = CallSink("tokio::task::spawn::spawn", "*::spawn")
        size = CmpGuard(lambda b: Taint(b, through="all").closure(field_read_seeds("value")(b)), field_read_seeds("max_value_bytes"), "Lt",
                        "record.value.len() < max_value_bytes", through="all")
        hdr = CallGuard(["ant_protocol::storage::header::RecordHeader::from_record"], ("Ok",), "RecordHeader::from_record is Ok")
        R.gate("C04.put.emit", put, emit, [[size], [hdr]], descr="UnverifiedRecord is emitted only for parsable records below the size limit")
    # (6) typed address → key table
    ab = R.body("C04.addr-table", "ant_protocol::NetworkAddress::as_bytes")
    rk = R.body("C04.addr-table", TRK)
    if ab is not None and rk is not None:
        NA = "ant_protocol::NetworkAddress"
        ta_, _ = T.arm_targets(F, ab, NA, min_frac=0.5)
        tb_, _ = T.arm_targets(F, rk, NA, min_frac=0.5)
        ok = bool(ta_) and bool(tb_)
        tab = {}
        if ok:
            ga, gb = cfg_of(ab), cfg_of(rk)
            mk = T.m_call_name(["*::xorname"])
            for v in (T.variant_names(F, NA) or {}).values():
                a = T.follow(ga, ta_[v][0], mk, limit=4) if v in ta_ else "missing"
                b = T.follow(gb, tb_[v][0], mk, limit=4) if v in tb_ else "missing"
                tab[v] = (a, b)
                if a != b:
                    ok = False
                    R.viol("C04.addr-table", "byte-source:%s" % v, "NetworkAddress::%s: as_bytes uses %s but to_record_key uses %s" % (v, a, b), ab, ab.lines[0])
        else:
            R.viol("C04.addr-table", "table-missing", "cannot extract per-variant tables of as_bytes / to_record_key", ab, ab.lines[0])
        R.inst("C04.addr-table", "K7 table agreement", "as_bytes and to_record_key take the same byte source per NetworkAddress variant", len(tab), ok,
               {"table": {k: list(v) for k, v in tab.items()}})
