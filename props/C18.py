"""C18 — bootstrap cache stays bounded, well-formed and atomically persisted (structural clauses)."""
import panics
from facts import norm  # noqa
import tables as T
from cfg import cfg_of
from flow import Taint, Tracker, callee_matches, field_reads, op_local, prep, backward
from rules import CallGuard, CallSink, CmpGuard, RetSink, AggSink, BlockSink, FieldOptGuard, compare_sites
from rules import returned_directly
from rules import PL, closure_truth_table
from props.C04 import call_results
from props.C10 import len_of, reads

META = {
    "explanation_more": 'Also (round 4): insert_addr always merges into the held entry or pushes (C18.merge.insert); addresses enter the cache only through add_addr and the merge functions (C18.insert.who); one cache file: cache_path is set once from config.cache_file_path and neither is changed afterwards (C18.path.*).',
    "explanation": "Decides: (1) the cache file is written only by BootstrapCacheStore::write through AtomicWriteFile::open … commit (every Ok "
                   "return of write passes commit after the data was written); no fs::write / File::create / truncating or writing "
                   "OpenOptions exists in ant_bootstrap; (2) add_addr inserts only behind craft_valid_multiaddr(addr,false) == Some and a "
                   "P2p component, and craft_valid_multiaddr returns None without IPv4, without UDP/TCP, and without a peer id unless told to "
                   "ignore it; (3) every inserting path of add_addr reaches perform_cleanup; perform_cleanup retains is_reliable() && "
                   "not-expired, drops empty peers, truncates to max_addrs_per_peer and calls try_remove_oldest_peers, which removes while "
                   "len > max_peers; is_reliable is success >= failure; (4) CacheData::sync / BootstrapAddresses::sync / BootstrapAddr::sync "
                   "contain no remove/retain/truncate/clear and sync_and_flush_to_disk syncs with the file before write; (5) "
                   "load_cache_data has no reachable panic site and returns Err on a parse failure; the flush path then overwrites. "
                   "Not decided: multi-process interleavings of the rename (AtomicWriteFile/OS), save/load equality (serde_json).",
    "not_decided": ["atomicity of AtomicWriteFile's rename across processes (library/OS semantics)", "serde_json save→load equality"],
}

CS = "ant_bootstrap::cache_store::"
BCS = CS + "BootstrapCacheStore"
CD = CS + "CacheData"
AB = "ant_bootstrap::"
SHRINKERS = ("::remove", "::retain", "::truncate", "::clear", "::pop", "::drain", "::swap_remove", "::retain_mut", "::split_off", "::dedup", "::remove_entry")


def run(R):
    from serdepair import serde_agreement
    serde_agreement(R, "C18.file.fields", ["ant_bootstrap::cache_store::CacheData"], 2)
    F = R.F
    # (1) single atomic writer
    R.who_may_call("C18.writer", ["atomic_write_file::OpenOptions::open", "atomic_write_file::AtomicWriteFile::open"], [BCS + "::write"], floor=1,
                   descr="AtomicWriteFile is opened only in BootstrapCacheStore::write")
    bad = []
    for b in F.bodies.values():
        if b.crate != "ant_bootstrap":
            continue
        for c in b.calls_raw:
            n = c["ncallee"] or ""
            if n in ("std::fs::write", "std::fs::File::create", "std::fs::File::create_new", "std::fs::OpenOptions::write", "std::fs::OpenOptions::append",
                     "std::fs::OpenOptions::truncate", "std::fs::OpenOptions::create", "std::fs::OpenOptions::create_new", "std::fs::rename", "std::fs::copy",
                     "std::fs::remove_file") or n.startswith("tokio::fs::"):
                bad.append((b, c))
    for b, c in bad:
        R.viol("C18.writer.other", "non-atomic-write:%s" % R.root_path(b), "%s writes files through %s (not the atomic writer)" % (R.root_path(b), c["ncallee"]), b, c["line"])
    R.inst("C18.writer.other", "K1 forbidden-callee", "no direct file-writing API is used anywhere in ant_bootstrap", sum(1 for b in F.bodies.values() if b.crate == "ant_bootstrap"), not bad)
    wr = R.body("C18.commit", BCS + "::write")
    if wr is not None:
        prep(wr)
        g = cfg_of(wr)
        commit = CallSink("atomic_write_file::AtomicWriteFile::commit")
        wfmt = CallSink("<atomic_write_file::AtomicWriteFile as std::io::Write>::write_fmt", "*AtomicWriteFile as std::io::Write>::write_all", "*AtomicWriteFile as std::io::Write>::write")
        okret = set(RetSink("Ok").blocks(wr))
        cb, wb = set(commit.blocks(wr)), set(wfmt.blocks(wr))
        ok = bool(cb) and bool(wb) and bool(okret) and not (g.reach((0,), avoid=cb) & okret) and not (g.reach((0,), avoid=wb) & cb) \
            and not (set(wb) & g.reach(tuple(cb)))
        if not ok:
            R.viol("C18.commit", "write-then-commit", "BootstrapCacheStore::write must write the data and then commit on every Ok path", wr, wr.lines[0])
        R.inst("C18.commit", "K5 must-follow", "write(): data written, then commit(), on every path to Ok", len(cb) + len(wb), ok)
        R.gate("C18.commit.ok", wr, RetSink("Ok"), [[CallGuard(["atomic_write_file::AtomicWriteFile::commit"], ("Ok",), "commit is Ok")],
                                                   [CallGuard(["serde_json::ser::to_string_pretty", "serde_json::ser::to_string", "serde_json::to_string_pretty"], ("Ok",), "serialisation is Ok")]],
               descr="write() reports Ok only after a successful serialise + commit")
        # serialises the cache data
        ta = Taint(wr, through="all")
        data = ta.closure({d for d, r, p in field_reads(wr, "data")})
        ser = [b for b in wr.blocks if b["term"]["k"] == "call" and (b["term"]["ncallee"] or "").startswith("serde_json::ser::to_string")]
        okd = bool(ser) and all(op_local(b["term"]["args"][0]) in data for b in ser)
        pth = ta.closure({d for d, r, p in field_reads(wr, "cache_path")})
        op = [b for b in wr.blocks if b["term"]["k"] == "call" and callee_matches(b["term"], ["atomic_write_file::OpenOptions::open"])]
        okd = okd and bool(op) and all(op_local(b["term"]["args"][1]) in pth for b in op)
        if not okd:
            R.viol("C18.commit.what", "what-where", "write() does not serialise self.data into self.cache_path", wr, wr.lines[0])
        R.inst("C18.commit.what", "K6 flows-to", "write(): serde_json(self.data) → AtomicWriteFile(self.cache_path)", len(ser), okd)

    # (2) well-formed entries
    aa = R.body("C18.add", BCS + "::add_addr")
    if aa is not None:
        prep(aa)
        ins = BlockSink(lambda b: [blk["id"] for blk in b.blocks if blk["term"]["k"] == "call" and not blk["cleanup"] and
                                   callee_matches(blk["term"], ["std::collections::hash::map::HashMap::insert", AB + "BootstrapAddresses::insert_addr"])], "insert into the cache")
        valid = CallGuard([AB + "craft_valid_multiaddr"], ("Some",), "craft_valid_multiaddr(addr,false) is Some",
                          arg_pred=lambda b, blk, t: t["args"][1][0] == "c" and t["args"][1][1] == "false")
        R.gate("C18.add.valid", aa, ins, [[valid]], descr="add_addr inserts only a crafted (dialable) address")
        # P2p component: the peer id used as key comes out of a Protocol::P2p match
        g = cfg_of(aa)
        tr = Tracker(aa)
        n = 0
        for blk in aa.blocks:
            for s in blk["stmts"]:
                if s["rv"]["k"] == "discr" and "Protocol" in aa.locals.get(str(s["rv"]["p"][0]), "") and "@Some" in s["rv"]["p"]:
                    pass
        finds = [b for b in aa.blocks if b["term"]["k"] == "call" and callee_matches(b["term"], ["core::iter::traits::iterator::Iterator::find"])]
        p2p = CallGuard(["core::iter::traits::iterator::Iterator::find"], ("Some",), "address has a P2p component")
        R.gate("C18.add.p2p", aa, ins, [[p2p]], descr="add_addr inserts only an address carrying a peer id")
        fcl = [c for c in F.item(BCS + "::add_addr") if c.kind == "closure" and c.nblocks < 20]
        okp = False
        for c in fcl:
            prep(c)
            for blk in c.blocks:
                for s in blk["stmts"]:
                    if s["rv"]["k"] == "discr":
                        t = blk["term"]
                        if t["k"] == "switch":
                            # Protocol::P2p has a fixed discriminant; the closure must single out exactly one variant
                            okp = len(t["targets"]) == 1
        if not okp:
            R.viol("C18.add.p2p.match", "p2p-match", "the component searched for in add_addr is not a single Protocol variant (P2p)", aa, aa.lines[0])
        R.inst("C18.add.p2p.match", "K7 table agreement", "find(|p| matches!(p, Protocol::P2p(_)))", len(fcl), okp)
        # what is stored (and looked up) is the crafted address, not the raw input that was merely checked
        crafted = Taint(aa, through="all").closure(call_results([AB + "craft_valid_multiaddr"])(aa))
        news = [b for b in aa.blocks if b["term"]["k"] == "call" and not b["cleanup"] and callee_matches(b["term"], [AB + "BootstrapAddr::new", AB + "BootstrapAddresses::get_addr_mut", AB + "BootstrapAddresses::get_addr"])]
        oks_ = bool(news) and all(any(op_local(a) in crafted for a in b["term"]["args"]) for b in news)
        if not oks_:
            R.viol("C18.add.stored", "raw-address-stored", "add_addr stores or looks up the raw input address instead of the one craft_valid_multiaddr returned (an un-normalised multiaddr enters the cache)", aa, aa.lines[0])
        R.inst("C18.add.stored", "K6 flows-to", "BootstrapAddr::new / get_addr_mut in add_addr take the crafted address", len(news), oks_)
        # (3) cleanup after every insertion
        insb = set(ins.blocks(aa))
        cl = set(CallSink(BCS + "::perform_cleanup", CD + "::perform_cleanup").blocks(aa))
        rets = {b["id"] for b in aa.blocks if b["term"]["k"] == "return"}
        okc = bool(insb) and bool(cl) and not (g.reach(tuple(insb), avoid=cl) & rets)
        if not okc:
            R.viol("C18.add.cleanup", "insert-without-cleanup", "add_addr can return after inserting without performing clean-up (bounds not re-established)", aa, aa.lines[0])
        R.inst("C18.add.cleanup", "K5 must-follow", "every inserting path of add_addr reaches perform_cleanup", len(insb), okc)
    cv = R.body("C18.craft", AB + "craft_valid_multiaddr")
    if cv is not None:
        prep(cv)
        g = cfg_of(cv)
        finds = [b for b in cv.blocks if b["term"]["k"] == "call" and not b["cleanup"] and callee_matches(b["term"], ["core::iter::traits::iterator::Iterator::find"])]
        some = AggSink("core::option::Option", "Some", dest_ty="Multiaddr")
        # which Protocol variant each `find` looks for: its closure singles out one discriminant (names from the multiaddr source
        # of the version Cargo.lock pins), so the order of the look-ups in the function does not matter
        from rules import closures_passed
        import facts as _facts
        pv = T.external_enum_variants(_facts.REPO, "multiaddr", "src/protocol.rs", "Protocol") or {}
        by_variant = {}
        for fb in finds:
            for c in closures_passed(F, cv, fb["term"]):
                prep(c)
                for blk in c.blocks:
                    t = blk["term"]
                    if t["k"] == "switch" and any(st["rv"]["k"] == "discr" for st in blk["stmts"]) and len(t["targets"]) == 1:
                        by_variant.setdefault(pv.get(int(t["targets"][0][0]), "?%s" % t["targets"][0][0]), []).append(fb["id"])

        def find_of(name):
            ids = set(by_variant.get(name, []))
            return CallGuard(["core::iter::traits::iterator::Iterator::find"], ("Some",), "%s found" % name, arg_pred=lambda b, blk, t, ids=ids: blk["id"] in ids)
        # IPv4 is mandatory
        okv = all(by_variant.get(n) for n in ("Ip4", "Udp", "Tcp", "P2p"))
        if okv:
            ip = find_of("Ip4")
            R.gate("C18.craft.ip", cv, some, [[ip]], descr="craft_valid_multiaddr returns Some only with an IPv4 component")
            udp = find_of("Udp")
            tcp = find_of("Tcp")
            R.gate("C18.craft.transport", cv, some, [[udp, tcp]], descr="… only with a UDP or TCP component")
            pid = find_of("P2p")

            class _Ignore:
                label = "ignore_peer_id"

                def edges(self, body):
                    tr = Tracker(body)
                    for l in Taint(body).closure(PL(body, 1)):  # (addr, ignore_peer_id)
                        tr.seed_bool(l, True)
                    tr.run()
                    return 1, tr.accept, tr.reject
            R.gate("C18.craft.peer", cv, some, [[pid, _Ignore()]], descr="… only with a peer id unless ignore_peer_id")
            okv = len(by_variant) >= 4 and all(len(set(by_variant[n])) >= 1 for n in ("Ip4", "Udp", "Tcp", "P2p"))
        if not okv:
            R.viol("C18.craft.variants", "craft-shape", "craft_valid_multiaddr no longer looks up P2p, Ip4, Udp, Tcp as four distinct single-variant searches", cv, cv.lines[0])
        R.inst("C18.craft.variants", "K7 table agreement", "four distinct Protocol variants (P2p, Ip4, Udp, Tcp) searched by single-variant matches", len(finds), okv)

    # (3) perform_cleanup contents
    pc = R.body("C18.cleanup", CD + "::perform_cleanup")
    if pc is not None:
        closures = [c for c in F.item(CD + "::perform_cleanup") if c.kind == "closure"]
        rel = [c for c in closures if any(x["ncallee"] == AB + "BootstrapAddr::is_reliable" for x in c.calls)]
        okr = False
        for c in rel:
            prep(c)
            exp = Taint(c, through="all").closure(call_results(["std::time::SystemTime::duration_since"])(c))
            lim = Taint(c).closure({d for d, r, p in field_reads(c, "addr_expiry_duration")})
            pol = any((op_local(s["a"]) in exp and op_local(s["b"]) in lim and s["op"] == "Lt") or (op_local(s["b"]) in exp and op_local(s["a"]) in lim and s["op"] == "Gt") for s in compare_sites(c))
            # both conditions are needed for `true`
            g = cfg_of(c)
            tr = Tracker(c)
            for l in call_results([AB + "BootstrapAddr::is_reliable"])(c):
                tr.seed_bool(l, True)
            tr.run()
            rt = set(RetSink("true").blocks(c))
            direct = any(blk["term"]["k"] == "call" and callee_matches(blk["term"], [AB + "BootstrapAddr::is_reliable"]) for blk in c.blocks)
            # the age compared is the element's own: duration_since is handed a `last_seen` read from the address under test in this very
            # closure — not a value computed outside (the newest last_seen of the peer's addresses keeps every stale address of a live peer)
            own = Taint(c, through="all").closure({d for d, r, p in field_reads(c, "last_seen")})
            ds = [blk for blk in c.blocks if blk["term"]["k"] == "call" and not blk["cleanup"] and callee_matches(blk["term"], ["std::time::SystemTime::duration_since", "std::time::SystemTime::elapsed"])]
            own_age = bool(ds) and all(any(op_local(a) in own for a in blk["term"]["args"]) for blk in ds)
            if not own_age:
                R.viol("C18.cleanup.retain", "age-of-another", "clean-up does not measure an address's age from that address's own last_seen", c, c.lines[0])
            okr = pol and direct and own_age
            # `a && b` lowers to: switch a → [false → _0 = false] [true → _0 = b]; accept: _0 is never `true` on the rejecting side
            if tr.reject:
                okr = okr and all(not (g.reach((d,)) & rt) for _, d in tr.reject)
            # exact predicate: kept ⇔ reliable ∧ duration_since is Ok ∧ elapsed < addr_expiry_duration
            def classify(b, cs, exp=exp, lim=lim):
                la, lb = op_local(cs["a"]), op_local(cs["b"])
                if la in exp and lb in lim and cs["op"] in ("Lt", "Gt"):
                    return ("L", cs["op"] == "Lt")
                if lb in exp and la in lim and cs["op"] in ("Lt", "Gt"):
                    return ("L", cs["op"] == "Gt")
                return None
            tt = closure_truth_table(c, classify, call_atoms={AB + "BootstrapAddr::is_reliable": "R"}, result_atoms={"std::time::SystemTime::duration_since": "D"})
            if tt is None:
                pass    # closure shape the interpreter cannot evaluate (e.g. combinator form): the polarity checks above decide
            else:
                atoms, table = tt
                for k, v in table.items():
                    e = dict(k)
                    if v != (e.get("R", False) and e.get("D", False) and e.get("L", False)):
                        okr = False
                okr = okr and set(atoms) == {"R", "D", "L"}
        if not okr and not any(v.rule == "C18.cleanup.retain" for v in R.violations):
            R.viol("C18.cleanup.retain", "retain-predicate", "clean-up does not keep exactly the addresses that are reliable and seen within addr_expiry_duration", pc, pc.lines[0])
        R.inst("C18.cleanup.retain", "K10 polarity", "addresses kept iff is_reliable() && now - last_seen < addr_expiry_duration", len(rel), okr)
        calls = {c["ncallee"] for b in F.item(CD + "::perform_cleanup") for c in b.calls}
        need = {"alloc::vec::Vec::retain": "per-peer address retain", "std::collections::hash::map::HashMap::retain": "drop peers without addresses",
                "alloc::vec::Vec::truncate": "truncate to max_addrs_per_peer", CD + "::try_remove_oldest_peers": "bound the number of peers"}
        okn = True
        for k, w in need.items():
            if k not in calls:
                okn = False
                R.viol("C18.cleanup.steps", "step-missing:%s" % k.split("::")[-1], "perform_cleanup no longer performs: %s" % w, pc, pc.lines[0])
        R.inst("C18.cleanup.steps", "K1 must-call", "perform_cleanup: retain, drop empty peers, truncate, try_remove_oldest_peers", len(need), okn)
        R.must_pass("C18.cleanup.peers", pc, [("try_remove_oldest_peers", CallSink(CD + "::try_remove_oldest_peers"))], descr="perform_cleanup always bounds the peer count")
        # the truncation (in the clean-up itself, in a helper inlined into it, or in the closure of a for_each) is to cfg.max_addrs_per_peer
        from rules import _captured_seeds
        prep(pc)
        mx_pc = Taint(pc, through="all").closure({d for d, r, p in field_reads(pc, "max_addrs_per_peer")})
        tc, okt = [], True
        for c in F.item(CD + "::perform_cleanup"):
            prep(c)
            tb = [blk for blk in c.blocks if blk["term"]["k"] == "call" and not blk["cleanup"] and callee_matches(blk["term"], ["alloc::vec::Vec::truncate"])]
            if not tb:
                continue
            tc.append(c)
            seeds = {d for d, r, p in field_reads(c, "max_addrs_per_peer")}
            if c.kind == "closure":
                seeds |= _captured_seeds(pc, c, mx_pc)
            mx = Taint(c, through="all").closure(seeds)
            if not all(op_local(blk["term"]["args"][1]) in mx for blk in tb):
                okt = False
        okt = okt and bool(tc)
        if not okt:
            R.viol("C18.cleanup.truncate", "truncate-arg", "addresses per peer are not truncated to cfg.max_addrs_per_peer", pc, pc.lines[0])
        R.inst("C18.cleanup.truncate", "K6 flows-to", "truncate(cfg.max_addrs_per_peer)", len(tc), okt)
        emp = [c for c in closures if any((x["ncallee"] or "").endswith("Vec::is_empty") for x in c.calls)]
        R.inst("C18.cleanup.empty", "K1 must-call", "peers.retain(|_, a| !a.is_empty())", len(emp), bool(emp))
        if not emp:
            R.viol("C18.cleanup.empty", "empty-peers", "peers with no address are no longer dropped", pc, pc.lines[0])
    ro = R.body("C18.maxpeers", CD + "::try_remove_oldest_peers")
    if ro is not None:
        prep(ro)
        g = cfg_of(ro)
        # after the function, len <= max_peers: every return is reached only from the not-greater side of `len > max_peers`
        over = CmpGuard(len_of("peers"), reads("max_peers"), "Le", "peers.len() <= max_peers", close=False)
        n_, acc, rej = over.edges(ro)
        rets = {b["id"] for b in ro.blocks if b["term"]["k"] == "return"}
        rm = set(BlockSink(lambda b: [blk["id"] for blk in b.blocks if blk["term"]["k"] == "call" and not blk["cleanup"] and callee_matches(blk["term"], ["std::collections::hash::map::HashMap::remove"])
                                      and op_local(blk["term"]["args"][0]) in Taint(b).closure({d for d, r, p in field_reads(b, "peers")})], "peers.remove").blocks(ro))
        ok = bool(acc) and bool(rm) and not (g.reach((0,), cut=acc) & rets)
        if not ok:
            R.viol("C18.maxpeers", "peer-bound", "try_remove_oldest_peers can return while peers.len() > max_peers (or removes nothing)", ro, ro.lines[0])
        R.inst("C18.maxpeers", "K10 polarity", "try_remove_oldest_peers returns only on the peers.len() <= max_peers side; removes from peers otherwise", n_, ok)
    ir = R.body("C18.reliable", AB + "BootstrapAddr::is_reliable")
    if ir is not None:
        prep(ir)
        ok = False
        for s in compare_sites(ir):
            sa = {p[-1] for d, r, p in field_reads(ir, "success_count") if d == op_local(s["a"])} | {"x"} if any(d == op_local(s["a"]) for d, r, p in field_reads(ir, "success_count")) else set()
            fa = any(d == op_local(s["b"]) for d, r, p in field_reads(ir, "failure_count"))
            sb = any(d == op_local(s["b"]) for d, r, p in field_reads(ir, "success_count"))
            fb = any(d == op_local(s["a"]) for d, r, p in field_reads(ir, "failure_count"))
            if (sa and fa and s["op"] == "Ge" and returned_directly(ir, s)) or (sb and fb and s["op"] == "Le" and returned_directly(ir, s)):
                ok = True
        if not ok:
            R.viol("C18.reliable", "reliable-polarity", "is_reliable is not success_count >= failure_count", ir, ir.lines[0])
        R.inst("C18.reliable", "K10 polarity", "is_reliable ⇔ success_count >= failure_count", 1, ok)

    # (4) merge never loses
    n = 0
    okm = True
    for fn in (CD + "::sync", AB + "BootstrapAddresses::sync", AB + "BootstrapAddr::sync", AB + "BootstrapAddresses::insert_addr", CD + "::insert"):
        for b in F.item(fn):
            n += 1
            for c in b.calls:
                nc = c["ncallee"] or ""
                if c.get("mac") in panics.LOG_MACROS:
                    continue
                if nc.startswith(("alloc::vec::Vec::", "std::collections::hash::map::HashMap::", "alloc::collections::")) and nc.endswith(SHRINKERS):
                    okm = False
                    R.viol("C18.merge", "merge-removes:%s" % fn.split("::")[-2] + "::" + fn.split("::")[-1], "%s calls %s: merging may lose a peer or address" % (fn, nc), b, c["line"])
        if not F.item(fn):
            okm = False
            R.viol("C18.merge", "anchor-missing:%s" % fn, "merge function not found: %s" % fn)
    R.inst("C18.merge", "K2 mutator whitelist", "sync / insert paths never remove, retain, truncate or clear", n, okm)
    # every peer / address of the other side is merged: the merge loop is reached on every path and no iteration skips the merge
    for fn, fld, sinks in ((CD + "::sync", "peers", [AB + "BootstrapAddresses::sync"]), (AB + "BootstrapAddresses::sync", "0", [AB + "BootstrapAddr::sync", AB + "BootstrapAddresses::insert_addr", "alloc::vec::Vec::push"])):   # (push: insert_addr written out)
        mb = R.body("C18.merge.every", fn)
        if mb is None:
            continue
        prep(mb)
        other = Taint(mb).closure(PL(mb, 1))
        def from_other(names, fields, mb=mb, other=other, fld=fld):
            return True
        R.every_iteration("C18.merge.every", mb, lambda names, fields: any(n.endswith(("::iter", "IntoIterator::into_iter", "IntoIterator>::into_iter")) for n in names),
                          CallSink(*sinks), "%s merges every entry of the other side" % fn.split("::")[-2], "the other side's entries")
        g2 = cfg_of(mb)
        nxt = set(b["id"] for b in mb.blocks if b["term"]["k"] == "call" and not b["cleanup"] and (b["term"]["ngen"] or "").endswith("iterator::Iterator::next"))
        rets2 = {b["id"] for b in mb.blocks if b["term"]["k"] == "return" and not b["cleanup"]}
        okl = bool(nxt) and not (g2.reach((0,), avoid=nxt) & rets2)
        if not okl:
            R.viol("C18.merge.always", "merge-skipped:%s" % fn.split("::")[-2], "%s can return without walking the other side's entries (an early return before the merge loop)" % fn, mb, mb.lines[0])
        R.inst("C18.merge.always", "K5 must-follow", "%s always walks the other side's entries" % fn.split("::")[-2], len(nxt), okl)
    # an address handed to insert_addr is never dropped: it is merged into the entry already held or pushed (no cap inside the merge —
    # the bounds are perform_cleanup's job, after the merge)
    ia = R.body("C18.merge.insert", AB + "BootstrapAddresses::insert_addr")
    if ia is not None:
        prep(ia)
        g3 = cfg_of(ia)
        keep = set(CallSink(AB + "BootstrapAddr::sync", "alloc::vec::Vec::push").blocks(ia))
        rets3 = {b["id"] for b in ia.blocks if b["term"]["k"] == "return" and not b["cleanup"]}
        oki = bool(keep) and not (g3.reach((0,), avoid=keep) & rets3)
        if not oki:
            R.viol("C18.merge.insert", "insert-dropped", "BootstrapAddresses::insert_addr can return without merging or pushing the address it was given: a merge can lose an address known to one side", ia, ia.lines[0])
        R.inst("C18.merge.insert", "K5 must-follow", "insert_addr always syncs into the held entry or pushes the new address", len(keep), oki)
    # ... and the only functions that add entries are the ones whose bounds are re-established afterwards: add_addr (clean-up on every
    # inserting path) and the merge functions (sync_and_flush_to_disk cleans up after the merge)
    R.who_may_call("C18.insert.who", [AB + "BootstrapAddresses::insert_addr", CD + "::insert"],
                   [BCS + "::add_addr", CD + "::insert", CD + "::sync", AB + "BootstrapAddresses::sync", AB + "BootstrapAddresses::insert_addr"], floor=2,
                   descr="addresses enter the cache only through add_addr and the merge functions (whose bounds are re-established by perform_cleanup)")
    # one cache file: write() replaces `self.cache_path`, the merge before it reads `self.config.cache_file_path` — they are the
    # same path because `new` copies the one into the other and nothing changes either afterwards (a store whose two paths differ
    # merges with one file and overwrites another: peers of the other writers are lost)
    BCFG = "ant_bootstrap::config::BootstrapCacheConfig"
    R.who_may_write("C18.path.store", BCS, "cache_path", [BCS + "::new"], floor=0, descr="BootstrapCacheStore.cache_path is set once, by `new`")
    nw = R.body("C18.path.one", BCS + "::new")
    if nw is not None:
        prep(nw)
        from props.C04 import agg_field_operands as _afo
        ops_p = _afo(nw, BCS, "cache_path")
        ops_c = _afo(nw, BCS, "config")
        cfgl = Taint(nw).closure(PL(nw, 0))
        src = Taint(nw, through="all").closure({d for d, r, p in field_reads(nw, "cache_file_path") if r in cfgl or True})
        okp = bool(ops_p) and bool(ops_c) and all(op_local(o) in src for _, _, o in ops_p) and all(op_local(o) in Taint(nw).closure(PL(nw, 0)) for _, _, o in ops_c)
        if not okp:
            R.viol("C18.path.one", "two-paths", "BootstrapCacheStore::new does not take cache_path from the cache_file_path of the config it keeps", nw, nw.lines[0])
        R.inst("C18.path.one", "K6 flows-to", "new: cache_path = config.cache_file_path, config kept whole", len(ops_p), okp)
    # the config's path is only changed before a store is built from it
    nfp = R.body("C18.path.config", BCS + "::new_from_peers_args")
    if nfp is not None:
        prep(nfp)
        g4 = cfg_of(nfp)
        news = set(CallSink(BCS + "::new").blocks(nfp))
        wr = {m["bb"] for m in nfp.field_mut if norm(m["adt"]) == BCFG and m["field"] == "cache_file_path"}
        after = g4.reach(tuple(d for n_ in news for d, _ in g4.succ[n_])) if news else set()
        okc2 = bool(news) and not (wr & after)
        if not okc2:
            R.viol("C18.path.config", "path-changed-after-new", "new_from_peers_args changes the config's cache_file_path after the store was built from it (or builds no store)", nfp, nfp.lines[0])
        R.inst("C18.path.config", "K5 must-not-follow", "--bootstrap-cache-dir is applied to the config before the store is built", len(wr), okc2)
    R.who_may_write("C18.path.config.who", BCFG, "cache_file_path", [BCS + "::new_from_peers_args", BCFG + "::with_cache_path", "ant_bootstrap::initial_peers::PeersArgs::get_bootstrap_addr"], floor=2,
                    descr="the configured cache file path is only set while a configuration is being put together")
    # the cache file is read whole
    lc = R.body("C18.load.whole", BCS + "::load_cache_data")
    if lc is not None:
        calls = [c["ncallee"] or "" for b in F.item(BCS + "::load_cache_data") for c in b.calls]
        partial = [c for c in calls if c.endswith(("io::Read::take", "Read>::take", "io::Read::read_exact", "Read>::read_exact", "io::Read::read", "Read>::read", "io::Read::bytes", "BufRead::read_line", "BufRead>::read_line", "BufRead::lines"))]
        whole = [c for c in calls if c.endswith(("read_to_string", "read_to_end", "serde_json::de::from_reader"))]
        okw = bool(whole) and not partial
        if not okw:
            R.viol("C18.load.whole", "partial-read", "load_cache_data does not read the whole cache file (%s): a large but legal cache is truncated, fails to parse and is overwritten" % (partial[:1] or "no whole-file read"), lc, lc.lines[0])
        R.inst("C18.load.whole", "K1 forbidden-callee", "the cache file is read to its end before parsing", len(whole) + len(partial), okw)
    sf = R.body("C18.flush", BCS + "::sync_and_flush_to_disk")
    if sf is not None:
        prep(sf)
        g = cfg_of(sf)
        ld = CallSink(BCS + "::load_cache_data").blocks(sf)
        sy = CallSink(CD + "::sync").blocks(sf)
        wr_ = CallSink(BCS + "::write").blocks(sf)
        ok = bool(ld) and bool(sy) and bool(wr_) and g.dominates(ld[0], wr_[0])
        # sync happens exactly on the Ok side of the load, with the loaded data; the Err side still writes
        gd = CallGuard([BCS + "::load_cache_data"], ("Ok",), "load_cache_data is Ok")
        n_, acc, rej = gd.edges(sf)
        rets_ = {b["id"] for b in sf.blocks if b["term"]["k"] == "return" and not b["cleanup"]}
        ok = ok and bool(acc) and not (set(sy) & g.reach((0,), cut=acc)) and all(not (g.reach((d,), avoid=set(sy)) & set(wr_)) for _, d in acc) \
            and all(g.reach((d,)) & set(wr_) for _, d in rej) \
            and all(not (g.reach((d,), avoid=set(wr_)) & rets_) for _, d in rej)   # *whatever* the load error, the file is overwritten (a corrupt / foreign file is ignored)
        if ok:
            loaded = Taint(sf, through="all").closure({g.term(ld[0])["d"][0]})
            ok = all(op_local(g.term(b)["args"][1]) in loaded for b in sy)
        if not ok:
            R.viol("C18.flush", "sync-before-write", "sync_and_flush_to_disk must merge the on-disk cache (when it loads) before write, and overwrite when it does not load", sf, sf.lines[0])
        R.inst("C18.flush", "K5 must-follow", "flush: load → (Ok ⇒ sync with it) → write; load Err ⇒ overwrite", 3, ok)
        # with_cleanup: the bounds are (re-)established on the *merged* data — between the sync and the write
        tr = Tracker(sf)
        for l in Taint(sf).closure(PL(sf, 1)):  # (self, with_cleanup)
            tr.seed_bool(l, True)
        tr.run()
        cl = set(CallSink(CD + "::perform_cleanup").blocks(sf))
        okc = bool(tr.accept) and bool(tr.reject) and bool(cl) and bool(sy) and not (set(wr_) & g.reach(tuple(sy), avoid=cl, cut=tr.reject))
        if not okc:
            R.viol("C18.flush.bounds", "merge-after-cleanup", "sync_and_flush_to_disk(with_cleanup = true) can write the merged cache without a clean-up *after* the merge: "
                   "the persisted file can exceed max_peers / max_addrs_per_peer", sf, sf.lines[0])
        R.inst("C18.flush.bounds", "K5 must-follow", "with_cleanup: perform_cleanup runs between the merge with the file and the write", len(cl), okc)
    # (5) corrupt file
    lc = R.body("C18.load", BCS + "::load_cache_data")
    if lc is not None:
        R.gate("C18.load.err", lc, RetSink("Ok"), [[CallGuard(["serde_json::de::from_str", "serde_json::from_str"], ("Ok",), "serde_json::from_str is Ok")],
                                                  [CallGuard(["std::fs::OpenOptions::open"], ("Ok",), "file opens")]],
               descr="load_cache_data returns Ok only for a file that opened and parsed")
        R.no_panic_reach("C18.load.nopanic", [BCS + "::load_cache_data"], floor_bodies=20)
