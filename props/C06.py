"""C06 — register replicas converge and accept only authorised writes."""
import panics as P
from cfg import cfg_of
from flow import Taint, Tracker, callee_matches, field_reads, op_local, prep
from rules import CallGuard, CallSink, CmpGuard, RetSink, REL_NEG, REL_SWAP, compare_sites, OrWrapperGuard
from rules import is_forward
from props.C04 import call_results

META = {
    "explanation_r6": 'Also (round 6): ops.len() reaches the entry-limit comparison of add_op / verify without a narrowing cast (C06.limit.width).',
    "explanation_more": "Also (round 4): can_write is true only for AnyoneCanWrite or a listed writer; an operation addressed to this register always reaches the CRDT, apply_op has no refusal of its own (C06.apply.*); what a node stores for a register is a verified copy or the verified merge (C07's rules as C06.node.*).",
    "explanation": "Decides: (1) SignedRegister.ops (a BTreeSet) is mutated only by merge / verified_merge (BTreeSet::extend with the other side's "
                   "ops) and add_op (BTreeSet::insert) — no remove/retain/clear — so replicated state is a grow-only set and merging is set "
                   "union (commutative, associative, idempotent by construction); (2) extend is cut by verify_is_mergeable == Ok (and by "
                   "other.verify() == Ok in verified_merge), insert by the count test, the size test and check_register_op == Ok; (3) "
                   "check_register_op returns Ok without a permission+signature check only when can_anyone_write(); verify_is_mergeable "
                   "compares address and permissions; (4) verify() returns Ok only after the owner signature verifies and every op passes "
                   "check_register_op and the size limit; (5) limit agreement: the largest ops.len() add_op can produce must be accepted by "
                   "verify(), and merges must not exceed it; (6) RegisterOp: the op signature covers address, crdt_op and source whole (not a field of them), "
                   "verify_signature is the BLS verdict over the op's own fields, new() signs what it stores; (7) RegisterCrdt hands everything to "
                   "the crdts crate: merge = MerkleReg::merge(self.data, other.data) and nothing else, apply_op applies op.crdt_op only to the "
                   "addressed register, read() presents all of MerkleReg::read(), and only merge/apply_op/write mutate the data. "
                   "Not decided: crdts::MerkleReg internals, BLS soundness.",
    "not_decided": ["MerkleReg (crdts crate) convergence of the derived current value", "BLS signature soundness"],
}

REG = "ant_registers::register::"
SR = REG + "SignedRegister"
RG = REG + "Register"
EXT = ["*alloc::collections::btree::set::BTreeSet<T, A> as core::iter::traits::collect::Extend<T>>::extend", "*BTreeSet<T, A> as core::iter::traits::collect::Extend<T>>::extend"]
INS = ["alloc::collections::btree::set::BTreeSet::insert"]


def ops_len(body):
    """locals holding ops.len()"""
    ta = Taint(body, through="all")
    reads = {d for d, r, p in field_reads(body, "ops")}
    out = set()
    for b in body.blocks:
        t = b["term"]
        if t["k"] == "call" and (t["ncallee"] or "").endswith("BTreeSet::len") and op_local(t["args"][0]) in Taint(body).closure(reads):
            out.add(t["d"][0])
    # copies, references and — component-precise — tuples: `match (self.ops.len(), entry.len()) { (n, _) if n >= MAX => … }` carries the
    # length as component 0 only
    vals, comps = set(out), set()
    changed = True
    while changed:
        changed = False
        for b in body.blocks:
            for st in b["stmts"]:
                if len(st["d"]) != 1:
                    continue
                d, rv = st["d"][0], st["rv"]
                if rv["k"] == "agg" and rv.get("ak") == "tuple":
                    for i_, o in enumerate(rv["ops"]):
                        if op_local(o) in vals and (d, ".%d" % i_) not in comps:
                            comps.add((d, ".%d" % i_))
                            changed = True
                    continue
                p = rv["a"][1] if rv["k"] in ("use", "cast") and rv["a"][0] in ("cp", "mv") else rv.get("p") if rv["k"] == "ref" else None
                if not p or d in vals:
                    continue
                proj = [e for e in p[1:] if e != "*"]
                if (not proj and p[0] in vals) or (len(proj) == 1 and (p[0], proj[0]) in comps):
                    vals.add(d)
                    changed = True
    return vals


_BITS = {"u8": 8, "i8": 8, "u16": 16, "i16": 16, "u32": 32, "i32": 32, "u64": 64, "i64": 64, "usize": 64, "isize": 64, "u128": 128, "i128": 128}


def narrowed_lengths(body):
    """casts of ops.len() (or a copy of it) to a narrower integer type: [(from, to, line)].  A truncated count compared with the entry
    limit accepts a register of 2^bits + k ops as one of k ops."""
    vals = ops_len(body)
    out = []
    for b in body.blocks:
        if b["cleanup"]:
            continue
        for st in b["stmts"]:
            rv = st["rv"]
            if rv["k"] != "cast" or len(st["d"]) != 1 or rv["a"][0] not in ("cp", "mv") or len(rv["a"][1]) != 1:
                continue
            src = rv["a"][1][0]
            if src not in vals:
                continue
            tf, tt_ = body.locals.get(str(src), ""), body.locals.get(str(st["d"][0]), "")
            if tf in _BITS and tt_ in _BITS and _BITS[tt_] < _BITS[tf]:
                out.append((tf, tt_, st.get("l") or body.lines[0]))
    return out


def accept_relation(F, body, sink_blocks, lens):
    """(relation, K) such that the branch towards the sink is taken iff `len <relation> K`."""
    prep(body)
    g = cfg_of(body)
    env = P.fold_consts(F, body)
    for c in compare_sites(body):
        la, lb = op_local(c["a"]), op_local(c["b"])
        ka, kb = P._const_int(c["a"], F, env), P._const_int(c["b"], F, env)
        if la in lens and kb is not None:
            rel, k = c["op"], kb
        elif lb in lens and ka is not None:
            rel, k = REL_SWAP[c["op"]], ka
        else:
            continue
        tr = Tracker(body)
        tr.seed_bool(c["d"], True)
        tr.run()
        if len(tr.accept) != 1 or len(tr.reject) != 1:
            continue
        (_, t_true), = tr.accept
        (_, t_false), = tr.reject
        r_true = bool(g.reach((t_true,)) & sink_blocks)
        r_false = bool(g.reach((t_false,)) & sink_blocks)
        if r_true and not r_false:
            return rel, k, c["line"]
        if r_false and not r_true:
            return REL_NEG[rel], k, c["line"]
    return None


def max_accepted(rel, k):
    return {"Lt": k - 1, "Le": k}.get(rel)


def register_rules(R, pfx="C06"):
    """Everything about which operations a register replica accepts and how replicas merge, except the entry-count limit agreement
    (shared with C07, C05 and C04, whose register clauses rest on SignedRegister::verify / merge)."""
    op_rules(R, pfx)
    crdt_rules(R, pfx)
    set_semantics_rules(R, pfx)
    F = R.F
    # (1) who writes ops, and only through extend/insert
    sites = R.who_may_write(pfx + ".ops", SR, "ops", [SR + "::merge", SR + "::verified_merge", SR + "::add_op"], floor=2,
                            descr="SignedRegister.ops is mutated only by merge, verified_merge and add_op")
    ok = True
    n = 0
    for b, m in sites:
        prep(b)
        if m["how"] == "assign":
            ok = False
            R.viol(pfx + ".ops.mutator", "assign:%s" % R.root_path(b), "SignedRegister.ops is overwritten in %s" % R.root_path(b), b, m["line"])
            continue
        # find the call receiving the &mut ops
        refs = set()
        for blk in b.blocks:
            for s in blk["stmts"]:
                if s["rv"]["k"] == "ref" and s["rv"]["mut"] and ".ops" in s["rv"]["p"][1:]:
                    refs.add(s["d"][0])
        refs = Taint(b).closure(refs)
        for blk in b.blocks:
            t = blk["term"]
            if t["k"] == "call" and not blk["cleanup"] and t["args"] and op_local(t["args"][0]) in refs:
                n += 1
                if not callee_matches(t, EXT + INS):
                    ok = False
                    R.viol(pfx + ".ops.mutator", "mutator:%s->%s" % (R.root_path(b), t["ncallee"]),
                           "SignedRegister.ops is mutated through %s in %s (only BTreeSet::extend/insert keep merge a set union)" % (t["ncallee"], R.root_path(b)), b, t["l"])
    R.inst(pfx + ".ops.mutator", "K2 mutator whitelist", "ops is only ever extended/inserted into (grow-only set ⇒ merge is union)", n, ok and n >= 2)
    if n < 2:   # three on the pinned tree; two when both merges share a helper
        R.viol(pfx + ".ops.mutator", "instance-floor", "only %d mutator calls on ops found (floor 2)" % n)

    # (2) gates
    G_MERGEABLE = CallGuard([RG + "::verify_is_mergeable"], ("Ok",), "verify_is_mergeable is Ok")
    from rules import union_sites, BlockSink as _BS
    R.gate(pfx + ".merge", SR + "::merge", _BS(lambda b: sorted(union_sites(F, b)[0]), "ops.extend(other.ops) / insert loop"), [[G_MERGEABLE]],
           descr="merge extends only a mergeable (same address+permissions) register")
    R.gate(pfx + ".verified_merge", SR + "::verified_merge", CallSink(*EXT),
           [[G_MERGEABLE], [CallGuard([SR + "::verify"], ("Ok",), "other.verify() is Ok")]],
           descr="verified_merge extends only after other.verify()")
    add = R.body(pfx + ".add_op", SR + "::add_op")
    if add is not None:
        R.gate(pfx + ".add_op", add, CallSink(*INS),
               [[CallGuard([RG + "::check_register_op"], ("Ok",), "check_register_op is Ok")],
                [CmpGuard(lambda b: ops_len(b), lambda b: set(), "Lt", "ops.len() below the entry limit", close=False)] if False else
                [_LenLimitGuard(F, "count")],
                [OrWrapperGuard(F, _SizeGuard(F), RG + "::check_register_op")]],
               descr="add_op inserts only permitted, in-limit, in-size ops")

    # (3) permission gate
    cro = R.body(pfx + ".check_op", RG + "::check_register_op")
    if cro is not None:
        prep(cro)
        VS = "ant_registers::register_op::RegisterOp::verify_signature"
        g_any = CallGuard(["ant_registers::permissions::Permissions::can_anyone_write"], ("true",), "can_anyone_write()")
        g_perm = CallGuard([RG + "::check_user_permissions"], ("Ok",), "check_user_permissions(op.source) is Ok")
        g_sig = CallGuard([VS], ("Ok",), "op.verify_signature(op.source) is Ok")
        # accepting returns: explicit Ok(()) and a forwarded verdict `_0 = verify_signature(..)`
        from rules import BlockSink
        ok_lits = BlockSink(lambda b: RetSink("Ok").blocks(b), "return Ok(())")
        fwd_sig = BlockSink(lambda b: [x["id"] for x in b.blocks if x["term"]["k"] == "call" and not x["cleanup"] and callee_matches(x["term"], [VS]) and is_forward(b, x["term"])],
                            "return op.verify_signature(..)")
        fwd_other = [x for x in cro.blocks if x["term"]["k"] == "call" and not x["cleanup"] and is_forward(cro, x["term"]) and not callee_matches(x["term"], [VS])
                     and not (x["term"]["ngen"] or "").endswith("FromResidual::from_residual")]  # the `?` error edge is not an accepting return
        if fwd_other:
            R.viol(pfx + ".check_op", "foreign-verdict", "check_register_op returns the verdict of %s" % fwd_other[0]["term"]["ncallee"], cro, fwd_other[0]["term"]["l"])
        if ok_lits.blocks(cro):
            # "anyone can write" may also be read off the enum directly: `match &self.permissions { AnyoneCanWrite => …`
            import tables as T_
            from rules import FieldOptGuard
            _pn = {v: k for k, v in (T_.variant_names(F, "ant_registers::permissions::Permissions") or {}).items()}
            g_any2 = FieldOptGuard("permissions", ("AnyoneCanWrite#%d" % _pn.get("AnyoneCanWrite", 0),), "permissions is AnyoneCanWrite")
            R.gate(pfx + ".check_op.ok", cro, ok_lits, [[g_any, g_any2, g_perm], [g_any, g_any2, g_sig]],
                   descr="Ok(()) only for an open register, or after permission and signature checks")
        if fwd_sig.blocks(cro):
            R.gate(pfx + ".check_op.sig", cro, fwd_sig, [[g_perm]], descr="the signature verdict is returned only for a permitted signer")
        if not ok_lits.blocks(cro) and not fwd_sig.blocks(cro):
            R.viol(pfx + ".check_op", "no-accepting-return", "check_register_op has no recognisable accepting return", cro, cro.lines[0])
        # both checks are about op.source
        ok = True
        src = Taint(cro).closure({d for d, r, p in field_reads(cro, "source")})
        for pats in ([VS], [RG + "::check_user_permissions"]):
            cs = [x for x in cro.blocks if x["term"]["k"] == "call" and not x["cleanup"] and callee_matches(x["term"], pats)]
            if not cs or not all(op_local(x["term"]["args"][1]) in src for x in cs):
                ok = False
        if not ok:
            R.viol(pfx + ".check_op.result", "signer-identity", "permission and signature are not both checked for op.source", cro, cro.lines[0])
        R.inst(pfx + ".check_op.result", "K6 flows-to", "check_user_permissions(op.source) and op.verify_signature(&op.source) concern the same signer", 2, ok)
    R.gate(pfx + ".user_perm", RG + "::check_user_permissions", RetSink("Ok", computed=True), [[CallGuard(["ant_registers::permissions::Permissions::can_write"], ("true",), "permissions.can_write(requester)")]],
           descr="check_user_permissions is Ok only for a listed writer")
    # ... and can_write itself: true only for an open register or for a user the writers set contains (an empty writers list
    # grants nothing)
    cw = R.body(pfx + ".can_write", "ant_registers::permissions::Permissions::can_write")
    if cw is not None:
        from rules import VariantGuard, PL
        import tables as T
        PERM = "ant_registers::permissions::Permissions"
        names_ = T.variant_names(R.F, PERM) or {}
        idx_ = {v: k for k, v in names_.items()}.get("AnyoneCanWrite", -1)
        g_open = VariantGuard(lambda b: PL(b, 0), "AnyoneCanWrite", idx_, "permissions are AnyoneCanWrite")
        g_in = CallGuard(["alloc::collections::btree::set::BTreeSet::contains", "*BTreeSet<T, A>::contains", "*::contains"], ("true",), "writers.contains(user)")
        R.gate(pfx + ".can_write", cw, RetSink("true", computed=True), [[g_open, g_in]], descr="can_write is true only for AnyoneCanWrite or a listed writer")
    vim = R.body(pfx + ".mergeable", RG + "::verify_is_mergeable")
    if vim is not None:
        R.gate(pfx + ".mergeable", vim, RetSink("Ok", computed=True),
               [[CmpGuard(call_results([RG + "::address"]), call_results([RG + "::address"]), "Eq", "same address")],
                [CmpGuard(lambda b: {d for d, r, p in field_reads(b, "permissions")}, lambda b: {d for d, r, p in field_reads(b, "permissions")}, "Eq", "same permissions")]],
               descr="registers are mergeable only with equal address and permissions")

    # (4) verify
    ver = R.body(pfx + ".verify", SR + "::verify")
    if ver is not None:
        R.gate(pfx + ".verify.owner", ver, RetSink("Ok", computed=True), [[CallGuard(["blsttc::PublicKey::verify"], ("true",), "owner().verify(signature, bytes)")]],
               descr="verify() is Ok only with a valid owner signature over the base register")
        R.gate_reject(pfx + ".verify.ops", ver, RetSink("Ok", computed=True),
                      [CallGuard([RG + "::check_register_op"], ("Ok",), "check_register_op(op) is Ok"), OrWrapperGuard(F, _SizeGuard(F), RG + "::check_register_op")],
                      descr="verify() is Ok only if every op is permitted and within the size limit")
        from rules import ForallGuard
        R.gate(pfx + ".verify.ops.every", ver, RetSink("Ok", computed=True), [[ForallGuard("ops", [RG + "::check_register_op"], ("Ok",), "every op of the register passed check_register_op")]],
               descr="verify() is Ok only after *every* op was checked (none is skipped)")
    return locals().get("add"), locals().get("ver")


def run(R):
    F = R.F
    add, ver = register_rules(R, "C06")
    # "only authorised writes" at a node: what a node stores for a register is a verified incoming copy, or the verified merge of it
    # into the copy it holds (rules of C07 on register_validation / validate_and_store_register)
    import props.C07 as _C07
    R.import_rules("C07", _C07.run, ["C07.reg."], "C06.node")
    # (5) limit agreement
    if add is not None and ver is not None:
        prep(add); prep(ver)
        a = accept_relation(F, add, set(CallSink(*INS).blocks(add)), ops_len(add))
        v = accept_relation(F, ver, set(RetSink("Ok", computed=True).blocks(ver)), ops_len(ver))
        ok = a is not None and v is not None
        detail = {"add_op_accepts_when": a and "len %s %d" % (a[0], a[1]), "verify_accepts_when": v and "len %s %d" % (v[0], v[1])}
        if not ok:
            R.viol("C06.limit", "limit-missing", "entry-count limit test not found in add_op/verify: %s" % detail, add, add.lines[0])
        else:
            reach = max_accepted(a[0], a[1])
            vmax = max_accepted(v[0], v[1])
            if reach is None or vmax is None:
                ok = False
                R.viol("C06.limit", "limit-shape", "entry-count tests are not upper bounds: %s" % detail, add, a[2])
            else:
                detail["largest_len_add_op_produces"] = reach + 1
                detail["largest_len_verify_accepts"] = vmax
                if reach + 1 > vmax:
                    ok = False
                    R.viol("C06.limit", "add-exceeds-verify", "add_op can produce a register with %d ops but verify() accepts at most %d" % (reach + 1, vmax), ver, v[2])
        R.inst("C06.limit", "K9 constant relation", "max ops.len() reachable through add_op is accepted by verify()", 2, ok, detail)
        # the count reaches the comparison with the limit un-narrowed (seed C06-r6: `ops.len() as u16` takes the count modulo 65536, and
        # a union of 64 full replicas — merge is unbounded, see the known finding — verifies and accepts further ops)
        nl = [(fn_, x) for fn_, b_ in (("add_op", add), ("verify", ver)) for x in narrowed_lengths(b_)]
        for fn_, (tf, tt_, ln) in nl:
            R.viol("C06.limit.width", "length-narrowed:%s:%s->%s" % (fn_, tf, tt_), "%s compares the entry limit with ops.len() truncated to %s: a register holding 2^%d + k ops "
                   "is taken for one holding k" % (fn_, tt_, _BITS[tt_]), add if fn_ == "add_op" else ver, ln)
        R.inst("C06.limit.width", "K6 flows-to (width)", "ops.len() reaches the entry-limit comparison of add_op / verify without a narrowing cast", len(ops_len(add)) + len(ops_len(ver)), not nl)
        # merges
        for fn in ("merge", "verified_merge"):
            b = R.body("C06.limit.merge", SR + "::" + fn)
            if b is None:
                continue
            prep(b)
            m = accept_relation(F, b, set(CallSink(*EXT).blocks(b)), ops_len(b))
            okm = m is not None
            if not okm:
                R.viol("C06.limit.merge", "merge-unbounded:%s" % fn,
                       "%s extends ops with no bound, so merged replicas can hold more ops than verify() accepts" % fn, b, b.lines[0])
            R.inst("C06.limit.merge", "K9 constant relation", "%s keeps ops.len() within what verify() accepts" % fn, 1, okm)


class _LenLimitGuard:
    """count test: accepting edge = the side of the `ops.len() ? MAX_REG_NUM_ENTRIES` comparison that reaches the insert"""

    def __init__(self, F, what):
        self.F = F
        self.label = "ops.len() within MAX_REG_NUM_ENTRIES"

    def edges(self, body):
        prep(body)
        env = P.fold_consts(self.F, body)
        lens = ops_len(body)
        tr = Tracker(body)
        n = 0
        for c in compare_sites(body):
            la, lb = op_local(c["a"]), op_local(c["b"])
            ka, kb = P._const_int(c["a"], self.F, env), P._const_int(c["b"], self.F, env)
            rel = None
            if la in lens and kb is not None:
                rel = c["op"]
            elif lb in lens and ka is not None:
                rel = REL_SWAP[c["op"]]
            if rel is None:
                continue
            n += 1
            if rel in ("Lt", "Le"):
                tr.seed_bool(c["d"], True)
            elif rel in ("Ge", "Gt"):
                tr.seed_bool(c["d"], False)
        tr.run()
        return n, tr.accept, tr.reject


class _SizeGuard:
    """size test: value.len() compared with MAX_REG_ENTRY_SIZE; accepting edge = `<=` side"""

    def __init__(self, F):
        self.F = F
        self.label = "op value within MAX_REG_ENTRY_SIZE"

    def edges(self, body):
        prep(body)
        env = P.fold_consts(self.F, body)
        ta = Taint(body, through="all")
        vals = ta.closure({d for d, r, p in field_reads(body, "value")})
        tr = Tracker(body)
        n = 0
        for c in compare_sites(body):
            la, lb = op_local(c["a"]), op_local(c["b"])
            ka, kb = P._const_int(c["a"], self.F, env), P._const_int(c["b"], self.F, env)
            want = int(self.F.consts.get(REG + "MAX_REG_ENTRY_SIZE", {"value": -1})["value"])
            rel = None
            if la in vals and kb == want:
                rel = c["op"]
            elif lb in vals and ka == want:
                rel = REL_SWAP[c["op"]]
            if rel is None:
                continue
            n += 1
            if rel in ("Le", "Lt"):
                tr.seed_bool(c["d"], True)
            elif rel in ("Gt", "Ge"):
                tr.seed_bool(c["d"], False)
        tr.run()
        return n, tr.accept, tr.reject


ROP = "ant_registers::register_op::RegisterOp"
CRDT = "ant_registers::reg_crdt::RegisterCrdt"


def op_rules(R, pfx="C06"):
    """RegisterOp: the signature covers address, crdt_op and source; verify_signature is the BLS verdict over the op's own
    fields; RegisterCrdt::apply_op applies only an op addressed to this register."""
    from flow import backward
    from rules import PL, AggSink
    F = R.F
    vs = R.body(pfx + ".op.sig", ROP + "::verify_signature")
    if vs is not None:
        R.gate(pfx + ".op.sig", vs, RetSink("Ok", computed=True), [[CallGuard(["blsttc::PublicKey::verify"], ("true",), "pk.verify(signature, bytes)")]],
               descr="verify_signature is Ok only if the BLS verification holds")
        prep(vs)
        ta = Taint(vs, through="all")
        sig = Taint(vs).closure({d for d, r, p in field_reads(vs, "signature")})
        msg = ta.closure(call_results([ROP + "::bytes_for_signing"])(vs))
        ver = [b for b in vs.blocks if b["term"]["k"] == "call" and callee_matches(b["term"], ["blsttc::PublicKey::verify"])]
        pk = Taint(vs).closure(PL(vs, 1))
        ok = bool(ver) and all(op_local(b["term"]["args"][0]) in pk and op_local(b["term"]["args"][1]) in sig and op_local(b["term"]["args"][2]) in msg for b in ver)
        if not ok:
            R.viol(pfx + ".op.sig.args", "op-verify-args", "verify_signature is not pk.verify(&self.signature, bytes_for_signing(..))", vs, vs.lines[0])
        R.inst(pfx + ".op.sig.args", "K6 flows-to", "verify_signature = pk.verify(self.signature, bytes_for_signing(self.address, self.crdt_op, self.source))", len(ver), ok)
        # the op's own fields are what is hashed
        cs = [b for b in vs.blocks if b["term"]["k"] == "call" and callee_matches(b["term"], [ROP + "::bytes_for_signing"])]
        order = ["address", "crdt_op", "source"]
        okf = len(cs) == 1
        covered = []
        if okf:
            for i, f in enumerate(order):
                reads = {d for d, r, p in field_reads(vs, f)}
                a = op_local(cs[0]["term"]["args"][i]) if i < len(cs[0]["term"]["args"]) else None
                if a is not None and (backward(vs, a) & reads):
                    covered.append(f)
                else:
                    okf = False
                    R.viol(pfx + ".op.signed", "unsigned-arg:%s" % f, "verify_signature does not pass self.%s as argument %d of bytes_for_signing" % (f, i), vs, vs.lines[0])
        adt = F.adts.get(ROP)
        fields = [f["name"] for f in adt["variants"][0]["fields"]] if adt else []
        unsigned = sorted(set(fields) - set(covered))
        if unsigned != ["signature"]:
            okf = False
            R.viol(pfx + ".op.signed", "unsigned-fields:%s" % ",".join(unsigned), "RegisterOp fields not covered by the op signature: %s (expected only `signature`)" % unsigned, vs, vs.lines[0])
        bs = R.body(pfx + ".op.signed", ROP + "::bytes_for_signing")
        if bs is not None:
            prep(bs)
            tb = Taint(bs, through="all")
            from flow import whole_value_reaches
            for i, f in enumerate(order):
                if 0 not in tb.closure(PL(bs, i)):
                    okf = False
                    R.viol(pfx + ".op.signed", "param-dropped:%s" % f, "bytes_for_signing drops its `%s` parameter" % f, bs, bs.lines[0])
                else:
                    whole, part = whole_value_reaches(bs, PL(bs, i))
                    if not whole:
                        okf = False
                        R.viol(pfx + ".op.signed", "param-partial:%s" % f, "bytes_for_signing hashes only part of `%s` (%s), not the whole value" % (f, ", ".join("." + x for x in sorted(part)) or "a projection"), bs, bs.lines[0])
        R.inst(pfx + ".op.signed", "K6 field coverage", "every RegisterOp field except `signature` is covered by the op signature", len(fields), okf, {"fields": fields, "signed": covered})
    nw = R.body(pfx + ".op.new", ROP + "::new")
    if nw is not None:
        prep(nw)
        ta = Taint(nw, through="all")
        cs = [b for b in nw.blocks if b["term"]["k"] == "call" and callee_matches(b["term"], [ROP + "::bytes_for_signing"])]
        aggs = [(b, st) for b in nw.blocks if not b["cleanup"] for st in b["stmts"] if st["rv"]["k"] == "agg" and st["rv"].get("adt", "").endswith("RegisterOp")]
        ok = len(cs) == 1 and len(aggs) == 1
        if ok:
            rv = aggs[0][1]["rv"]
            for i, f in enumerate(["address", "crdt_op", "source"]):
                stored = op_local(rv["ops"][rv["fields"].index(f)])
                signed = op_local(cs[0]["term"]["args"][i])
                # both derive from the same parameter / the same public_key() result
                roots_s = backward(nw, stored) if stored is not None else set()
                roots_g = backward(nw, signed) if signed is not None else set()
                if not (roots_s & roots_g):
                    ok = False
                    R.viol(pfx + ".op.new", "signed-differs:%s" % f, "RegisterOp::new signs a different `%s` than the one it stores" % f, nw, nw.lines[0])
            sg = op_local(rv["ops"][rv["fields"].index("signature")])
            signs = ta.closure(call_results(["blsttc::SecretKey::sign"])(nw))
            if sg not in signs:
                ok = False
                R.viol(pfx + ".op.new", "signature-source", "RegisterOp::new does not store signer.sign(bytes_for_signing(..))", nw, nw.lines[0])
        else:
            R.viol(pfx + ".op.new", "shape", "RegisterOp::new: expected one bytes_for_signing call and one RegisterOp literal", nw, nw.lines[0])
        R.inst(pfx + ".op.new", "K6 flows-to", "new() signs exactly the (address, crdt_op, source) it stores", 4, ok)
    ap = R.body(pfx + ".apply.addr", CRDT + "::apply_op")
    if ap is not None:
        def fld(name, root_idx):
            def f(body):
                roots = Taint(body).closure(PL(body, root_idx))
                return {d for d, r, p in field_reads(body, name) if r in roots or True and p and p[0] in roots}
            return f
        R.gate(pfx + ".apply.addr", ap, CallSink("*crdts::traits::CmRDT>::apply", "*CmRDT::apply"),
               [[CmpGuard(fld("address", 0), fld("address", 1), "Eq", "self.address == op.address", through="all")]],
               descr="apply_op applies an operation only if it is addressed to this register")
        # ... and refuses nothing else: an operation addressed to this register is always handed to the CRDT, whatever order it
        # arrives in (a cap on buffered out-of-order operations makes the replicas' state depend on delivery order)
        g_addr = CmpGuard(fld("address", 0), fld("address", 1), "Eq", "self.address == op.address", through="all")
        R.only_propagated_errors(pfx + ".apply.total", CRDT + "::apply_op", "apply_op answers Err only for an operation addressed to another register",
                                 allow=[("address mismatch", g_addr)])
        n_a, acc_a, _ = g_addr.edges(ap)
        if acc_a:
            R.must_pass(pfx + ".apply.always", ap, [("MerkleReg::apply(op.crdt_op)", CallSink("*crdts::traits::CmRDT>::apply", "*CmRDT::apply"))], from_blocks=tuple(d for _, d in acc_a),
                        descr="an operation addressed to this register always reaches the CRDT (no cap, no ordering requirement of the wrapper's own)")


def crdt_rules(R, pfx="C06"):
    """RegisterCrdt is a thin wrapper: convergence of the *presented values* is the crdts crate's MerkleReg, provided the wrapper
    hands it everything.  merge(other) = MerkleReg::merge(other.data) whole (orphans included), apply_op = MerkleReg::apply of the
    op's node, and nothing else mutates the data."""
    from rules import PL, _chain_calls, DROPPING_ADAPTORS
    from flow import whole_uses
    F = R.F
    R.who_may_write(pfx + ".crdt.own", CRDT, "data", [CRDT + "::merge", CRDT + "::apply_op", CRDT + "::write"], floor=2,
                    descr="RegisterCrdt.data is mutated only by merge, apply_op and write")
    mg = R.body(pfx + ".crdt.merge", CRDT + "::merge")
    if mg is not None:
        prep(mg)
        MERGE = "<crdts::merkle_reg::MerkleReg<T> as crdts::traits::CvRDT>::merge"
        calls = [b for b in mg.blocks if b["term"]["k"] == "call" and not b["cleanup"]]
        merges = [b for b in calls if callee_matches(b["term"], [MERGE, "*MerkleReg<T> as crdts::traits::CvRDT>::merge"])]
        others = [b["term"]["ncallee"] for b in calls if b not in merges and "crdts::" in (b["term"]["ncallee"] or "")]
        ok = len(merges) == 1 and not others
        if ok:
            t = merges[0]["term"]
            # receiver = self.data, argument = other.data taken whole
            recv = {d for d, r, p in field_reads(mg, "data") if r in PL(mg, 0) or p and p[0] in Taint(mg).closure(PL(mg, 0))}
            arg = op_local(t["args"][1])
            src_other = Taint(mg).closure(PL(mg, 1))
            # locals holding `other.data` (directly or after a destructuring `let Self { data, .. } = other`)
            od = {st["d"][0] for b_ in mg.blocks for st in b_["stmts"] if len(st["d"]) == 1 and st["rv"]["k"] == "use" and st["rv"]["a"][0] in ("cp", "mv")
                  and st["rv"]["a"][1][0] in src_other and st["rv"]["a"][1][-1] == ".data"}
            arg_is_other_data = arg in Taint(mg).closure(od) or (t["args"][1][0] in ("cp", "mv") and t["args"][1][1][0] in src_other and t["args"][1][1][-1] == ".data")
            ok = arg_is_other_data
        if not ok:
            R.viol(pfx + ".crdt.merge", "merge-delegation", "RegisterCrdt::merge is not exactly `self.data.merge(other.data)` (MerkleReg::merge also carries the other replica's orphans; "
                   "re-applying a selection of its nodes does not): %s" % (others[:3] or "argument is not other.data"), mg, mg.lines[0])
        R.inst(pfx + ".crdt.merge", "K1 must-call", "RegisterCrdt::merge = MerkleReg::merge(self.data, other.data), nothing else", len(merges), ok)
    ap = R.body(pfx + ".crdt.apply", CRDT + "::apply_op")
    if ap is not None:
        prep(ap)
        aps = [b for b in ap.blocks if b["term"]["k"] == "call" and not b["cleanup"] and callee_matches(b["term"], ["*crdts::traits::CmRDT>::apply"])]
        src_op = Taint(ap).closure(PL(ap, 1))
        ok = len(aps) == 1 and (aps[0]["term"]["args"][1][0] in ("cp", "mv")) and aps[0]["term"]["args"][1][1][0] in src_op and ".crdt_op" in aps[0]["term"]["args"][1][1] or \
            (len(aps) == 1 and any(st["d"] == [op_local(aps[0]["term"]["args"][1])] and st["rv"]["k"] == "use" and st["rv"]["a"][0] in ("cp", "mv") and st["rv"]["a"][1][0] in src_op
                                   and st["rv"]["a"][1][-1] == ".crdt_op" for b in ap.blocks for st in b["stmts"]))
        if not ok and len(aps) == 1:
            # … or a plain copy of it after a destructuring `let RegisterOp { crdt_op, .. } = op`
            from flow import copy_root
            root = copy_root(ap, aps[0]["term"]["args"][1])
            ok = bool(root) and root[0] in src_op and root[-1] == ".crdt_op"
        if not ok:
            R.viol(pfx + ".crdt.apply", "apply-delegation", "RegisterCrdt::apply_op does not apply exactly the op's own CRDT node", ap, ap.lines[0])
        R.inst(pfx + ".crdt.apply", "K6 flows-to", "apply_op applies op.crdt_op whole to the MerkleReg", len(aps), ok)
    rd = R.body(pfx + ".crdt.read", CRDT + "::read")
    if rd is not None:
        prep(rd)
        names, _f = _chain_calls(F, rd, 0)
        dropped = [n for n in names if any(n.endswith(x) or (x + "<") in n for x in DROPPING_ADAPTORS)]
        ok = "crdts::merkle_reg::MerkleReg::read" in names and not dropped
        if not ok:
            R.viol(pfx + ".crdt.read", "read-delegation", "RegisterCrdt::read does not present every current value of MerkleReg::read (%s)" % (dropped[:1] or "read() not on the chain"), rd, rd.lines[0])
        R.inst(pfx + ".crdt.read", "K6 flows-to", "read() = all of MerkleReg::read(), unfiltered", len(names), ok)


def set_semantics_rules(R, pfx="C06"):
    """`ops` is a BTreeSet<RegisterOp>: "the same set of operations" means what RegisterOp's Eq/Ord say.  They must be the derived
    ones (all fields, mutually consistent) — a hand-written Ord that ignores a field makes the set keep whichever of two
    different ops arrived first, so replicas no longer converge.  And a merge that reports Ok has extended the set."""
    F = R.F
    want = {"core::cmp::PartialEq": "eq", "core::cmp::PartialOrd": "partial_cmp", "core::cmp::Ord": "cmp"}
    ok = True
    n = 0
    for tr, m in want.items():
        b = F.body("<%s as %s>::%s" % (ROP, tr, m))
        if b is None:
            ok = False
            R.viol(pfx + ".op.ord", "impl-missing:%s" % tr.split("::")[-1], "RegisterOp has no %s impl in the analysed build" % tr)
            continue
        n += 1
        if b.mac != tr.split("::")[-1]:
            ok = False
            R.viol(pfx + ".op.ord", "hand-written:%s" % tr.split("::")[-1], "RegisterOp's %s is hand-written: the ops set (BTreeSet) no longer identifies an op by all of its fields consistently with Eq" % tr.split("::")[-1], b, b.lines[0])
    adt = F.adts.get(SR)
    ops_ty = next((f["ty"] for f in adt["variants"][0]["fields"] if f["name"] == "ops"), "") if adt else ""
    if "BTreeSet<ant_registers::register_op::RegisterOp>" not in ops_ty.replace(" ", ""):
        ok = False
        R.viol(pfx + ".op.ord", "ops-not-a-set", "SignedRegister.ops is not a BTreeSet<RegisterOp> (%s)" % ops_ty)
    R.inst(pfx + ".op.ord", "K7 table agreement", "RegisterOp's PartialEq / PartialOrd / Ord are the derived ones; ops is a BTreeSet<RegisterOp>", n, ok)
    for fn in ("merge", "verified_merge"):
        mb = R.body(pfx + ".merge.always", SR + "::" + fn)
        if mb is None:
            continue
        prep(mb)
        oks = set(RetSink("Ok", computed=True).blocks(mb))      # also the branch form of a forwarded `…​.map(|()| extend)`
        from rules import union_sites
        ext = union_sites(F, mb)[1]     # `ops.extend(other.ops)`, or the end of `for op in other.ops { ops.insert(op) }`
        g = cfg_of(mb)
        # every Ok return is behind the extend (an accepting path that skips it leaves the union incomplete)
        bad = oks & g.reach((0,), avoid=ext)
        okm = bool(oks) and bool(ext) and not bad
        if not okm:
            R.viol(pfx + ".merge.always", "ok-without-union:%s" % fn, "SignedRegister::%s can return Ok without extending ops with the other replica's ops" % fn, mb, mb.lines[0])
        R.inst(pfx + ".merge.always", "K5 must-follow", "%s: Ok only after ops.extend(other.ops)" % fn, len(oks), okm)
