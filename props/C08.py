"""C08 — replication fetching is bounded, duplicate-free, in-range (safety clauses)."""
import tables as T
from cfg import cfg_of
from flow import Taint, Tracker, callee_matches, field_reads, op_local, prep, backward, locals_of_type
from rules import CallGuard, CallSink, CmpGuard, RetSink, AggSink, BlockSink, FieldOptGuard, compare_sites
from rules import returned_directly
from rules import PL
from props.C04 import call_results
from props.C10 import _ConstCmp, len_of, reads
import panics as P

META = {
    "explanation_more": "Also (round 4): the two purges of set_farthest_on_full keep an entry exactly when distance(self, key) <= the *new* bound, evaluated as a truth table with the bound's provenance (also through a shared helper or predicate closure). Also (round 5): every retain on the in-flight set inside the pruning pass keeps exactly the entries whose own deadline has not passed, and nothing but retain removes from on_going_fetches (C08.leave.expired.inflight, C08.leave.only-retain).",
    "explanation": "Decides (safety only): (1) entries enter on_going_fetches only through a VacantEntry of that map or through an insert cut "
                   "by !on_going_fetches.contains_key((key,type)); (2) batch scheduling inserts only under on_going_fetches.len() < "
                   "MAX_PARALLEL_FETCH, re-checked on every loop iteration, returns early on >=, and MAX_PARALLEL_FETCH == K_VALUE (20); (3) a "
                   "key is admitted only if not locally stored, not already queued for that holder and, when the node is full, not farther "
                   "than farthest_acceptable_distance; multi-key lists are additionally filtered by distance <= distance_range; "
                   "set_farthest_on_full only ever shrinks the bound; (4) the scheduling sort compares d(self,a) with d(self,b) in that order "
                   "(ascending: closest first); (5) completion, early completion, expiry and local presence each retain() on_going_fetches, "
                   "every scheduled entry leaves to_be_fetched, an expired fetch's holder is collected, its queued entries dropped and "
                   "FailedToFetchHolders emitted; (6) a MaxRecords refusal shrinks the bound and every put notifies the fetcher. "
                   "Not decided: the liveness sentence (fetched after finitely many rounds).",
    "not_decided": ["liveness: an advertised in-range record is eventually fetched (depends on timers and peers)"],
}

RFM = "ant_networking::replication_fetcher::"
RF = RFM + "ReplicationFetcher"
HM = "std::collections::hash::map::HashMap::"
WRITERS = [RF + "::" + f for f in ("add_keys", "next_keys_to_fetch", "notify_about_new_put", "notify_fetch_early_completed",
                                    "prune_expired_keys_and_slow_nodes", "remove_stored_keys", "set_farthest_on_full")]


def on_field(callees, field, argi=0):
    def f(body):
        prep(body)
        refs = Taint(body).closure({d for d, r, p in field_reads(body, field)})
        return [b["id"] for b in body.blocks if b["term"]["k"] == "call" and not b["cleanup"] and callee_matches(b["term"], callees)
                and len(b["term"]["args"]) > argi and op_local(b["term"]["args"][argi]) in refs]
    return f


def run(R):
    liveness_rules(R)
    retain_rules(R)
    expired_rule(R)
    F = R.F
    R.who_may_write("C08.own.ongoing", RF, "on_going_fetches", WRITERS, floor=3, descr="on_going_fetches is touched only by the fetcher's own scheduling/completion functions")
    R.who_may_write("C08.own.queue", RF, "to_be_fetched", WRITERS, floor=4, descr="to_be_fetched is touched only by the fetcher's own functions")
    R.who_may_construct("C08.own.literal", RF, None, [RF + "::new"], floor=1)

    # (1) no duplicate in-flight: every insertion site (in the function or any closure of it) is either a VacantEntry of
    #     that map or is cut, in the same body, by !on_going_fetches.contains_key((key,type))
    ak = R.body("C08.dup", RF + "::add_keys")
    nk = R.body("C08.dup", RF + "::next_keys_to_fetch")
    n_ins = 0
    for fn in (RF + "::add_keys", RF + "::next_keys_to_fetch"):
        for b in F.item(fn):
            prep(b)
            ins = on_field([HM + "insert"], "on_going_fetches")(b)
            # a closure reaches the map through its captured `self`: any HashMap::insert on a map of that key type
            if b.kind == "closure":
                ins = [blk["id"] for blk in b.blocks if blk["term"]["k"] == "call" and not blk["cleanup"] and callee_matches(blk["term"], [HM + "insert"])
                       and "(libp2p_kad::record::Key, ant_protocol::storage::header::RecordType)" in b.locals.get(str(op_local(blk["term"]["args"][0])), "")
                       and "PeerId, " not in b.locals.get(str(op_local(blk["term"]["args"][0])), "").split("HashMap<")[-1].split(">")[0][:60].replace("RecordType), (libp2p_identity::peer_id::PeerId", "")]
            if ins:
                n_ins += len(ins)
                absent = CallGuard([HM + "contains_key"], ("false",), "!on_going_fetches.contains_key((key,type))",
                                   arg_pred=lambda body, blk, t: True if body.kind == "closure" else
                                   op_local(t["args"][0]) in Taint(body).closure({d for d, r, p in field_reads(body, "on_going_fetches")}))
                R.gate("C08.dup.insert", b, BlockSink(lambda body, s=ins: s, "on_going_fetches.insert"), [[absent]],
                       descr="%s inserts an in-flight entry only for an absent (key,type), checked against the current set" % b.npath.split("ReplicationFetcher::")[-1],
                       per_iteration=(b.kind != "closure"))
            ent = on_field([HM + "entry"], "on_going_fetches")(b)
            if ent:
                ta = Taint(b, through="all")
                e = ta.closure({cfg_of(b).term(x)["d"][0] for x in ent})
                vi = [blk for blk in b.blocks if blk["term"]["k"] == "call" and not blk["cleanup"] and (blk["term"]["ncallee"] or "").endswith("VacantEntry::insert")]
                oi = [blk for blk in b.blocks if blk["term"]["k"] == "call" and not blk["cleanup"] and ((blk["term"]["ncallee"] or "").endswith("OccupiedEntry::insert")
                      or (blk["term"]["ncallee"] or "").endswith("Entry::insert_entry") or (blk["term"]["ncallee"] or "").endswith("Entry::and_modify")
                      or (blk["term"]["ncallee"] or "").endswith("Entry::or_insert") or (blk["term"]["ncallee"] or "").endswith("OccupiedEntry::get_mut")
                      or (blk["term"]["ncallee"] or "").endswith("OccupiedEntry::into_mut") or (blk["term"]["ncallee"] or "").endswith("Entry::or_insert_with")
                      or (blk["term"]["ncallee"] or "").endswith("Entry::or_default")) and op_local(blk["term"]["args"][0]) in e]
                n_ins += len([x for x in vi if op_local(x["term"]["args"][0]) in e])
                ok = not oi
                if oi:
                    R.viol("C08.dup.entry", "occupied-overwrite", "an occupied on_going_fetches entry is overwritten in %s" % b.path, b, oi[0]["term"]["l"])
                R.inst("C08.dup.entry", "K2 mutator whitelist", "entry() on on_going_fetches is only filled through VacantEntry::insert", len(vi), ok)
    if n_ins < 2:
        R.viol("C08.dup", "instance-floor", "expected 2 insertion sites into on_going_fetches, found %d" % n_ins)

    # (2) cap
    if nk is not None:
        cap_val = int(F.consts.get(RFM + "MAX_PARALLEL_FETCH", {"value": -1})["value"])
        cap = _ConstCmp(F, len_of("on_going_fetches"), lambda v: v == cap_val, ("Lt",), "on_going_fetches.len() < MAX_PARALLEL_FETCH")
        if on_field([HM + "insert"], "on_going_fetches")(nk):
            R.gate("C08.cap", nk, BlockSink(on_field([HM + "insert"], "on_going_fetches"), "on_going_fetches.insert"), [[cap]],
                   descr="batch scheduling inserts only below MAX_PARALLEL_FETCH, re-checked every iteration", per_iteration=True)
        else:
            # insertion delegated to a closure: the number of elements handed to it must be bounded by the remaining capacity
            # Not an alarm: a count-bounded hand-over (e.g. `take(remaining_capacity)`) can keep the cap; the clause is simply
            # not decided for that shape and says so in the evidence.
            R.inst("C08.cap", "K4 gate", "batch scheduling inserts only below MAX_PARALLEL_FETCH — NOT EVALUATED: insertion is delegated to a closure", 0, None)
        R.const_rel("C08.cap.const", "MAX_PARALLEL_FETCH == K_VALUE (20)", lambda F_: (cap_val == 20, {"MAX_PARALLEL_FETCH": cap_val}))
        # early return on >=
        g = cfg_of(nk)
        srt = [b["id"] for b in nk.blocks if b["term"]["k"] == "call" and callee_matches(b["term"], ["*::sort_by", "alloc::slice::<impl [T]>::sort_by"])]
        R.gate("C08.cap.early", nk, BlockSink(lambda b, s=srt: s, "sort of the pending queue"), [[cap]], descr="no scheduling work at all when at the cap")
        # every scheduled entry leaves the queue
        # (in the `map` closure over the scheduled list, or in a plain loop over it in the function itself)
        from rules import _captured_seeds
        par_q = Taint(nk).closure({d for d, r, p in field_reads(nk, "to_be_fetched")})
        rem = []
        for b in F.item(RF + "::next_keys_to_fetch"):
            prep(b)
            seeds = {d for d, r, p in field_reads(b, "to_be_fetched")}
            if b.kind == "closure":
                seeds |= _captured_seeds(nk, b, par_q)     # a closure may capture `&mut self.to_be_fetched` itself
            recv = Taint(b).closure(seeds)
            rem += [blk_["term"] for blk_ in b.blocks if blk_["term"]["k"] == "call" and not blk_["cleanup"] and blk_["term"]["ncallee"] == HM + "remove"
                    and op_local(blk_["term"]["args"][0]) in recv]
        if not rem:
            R.viol("C08.leave.queue", "scheduled-not-removed", "scheduled entries are not removed from to_be_fetched", nk, nk.lines[0])
        R.inst("C08.leave.queue", "K1 must-call", "every scheduled entry is removed from to_be_fetched", len(rem), bool(rem))
        R.must_pass("C08.prune-first", nk, [("prune_expired_keys_and_slow_nodes", CallSink(RF + "::prune_expired_keys_and_slow_nodes"))],
                    descr="expired fetches are pruned before scheduling")

    # (3) admission
    if ak is not None:
        prep(ak)
        push = [b["id"] for b in ak.blocks if b["term"]["k"] == "call" and not b["cleanup"] and callee_matches(b["term"], ["alloc::vec::Vec::push"])
                and "Vec<(ant_protocol::NetworkAddress, ant_protocol::storage::header::RecordType)>" in ak.locals.get(str(op_local(b["term"]["args"][0])), "")]
        sink = BlockSink(lambda b, s=push: s, "new_incoming_keys.push")
        held = CallGuard([HM + "contains_key"], ("false",), "!locally_stored_keys.contains_key(key)",
                         arg_pred=lambda body, blk, t: op_local(t["args"][0]) in Taint(body).closure(PL(body, 3)))  # (self, holder, incoming_keys, locally_stored_keys)
        queued = CallGuard([HM + "contains_key"], ("false",), "!to_be_fetched.contains_key((key,type,holder))",
                           arg_pred=lambda body, blk, t: op_local(t["args"][0]) in Taint(body).closure({d for d, r, p in field_reads(body, "to_be_fetched")}))
        nofar = FieldOptGuard("farthest_acceptable_distance", ("None",), "no farthest bound set")

        def dists(b):
            return Taint(b).closure(call_results(["ant_protocol::NetworkAddress::distance"])(b))

        def far(b):
            ta = Taint(b)
            src = ta.closure({d for d, r, p in field_reads(b, "farthest_acceptable_distance")})
            out = set()
            for blk in b.blocks:
                for s in blk["stmts"]:
                    rv = s["rv"]
                    p = rv["a"][1] if rv["k"] == "use" and rv["a"][0] in ("cp", "mv") else rv.get("p") if rv["k"] == "ref" else None
                    if p and (p[0] in src or ".farthest_acceptable_distance" in p) and "@Some" in p:
                        out.add(s["d"][0])
            return ta.closure(out)
        within = CmpGuard(dists, far, "Le", "distance(self, key) <= farthest_acceptable_distance", close=False)
        R.gate("C08.admit", ak, sink, [[held], [queued], [nofar, within]], descr="add_keys admits only absent, unqueued keys within the full-node bound", min_sinks=1)
        # multi-key range filter
        rc = [c for c in F.item(RF + "::add_keys") if c.kind == "closure" and any(x["ncallee"] == "ant_protocol::convert_distance_to_u256" for x in c.calls)]
        ok = False
        for c in rc:
            prep(c)
            for s in compare_sites(c):
                conv = Taint(c).closure(call_results(["ant_protocol::convert_distance_to_u256"])(c))
                if op_local(s["a"]) in conv and s["op"] == "Le" and returned_directly(c, s):
                    ok = True
                if op_local(s["b"]) in conv and s["op"] == "Ge" and returned_directly(c, s):
                    ok = True
        if not ok:
            R.viol("C08.admit.range", "range-filter", "multi-key advertisements are not filtered by convert_distance_to_u256(distance) <= distance_range", ak, ak.lines[0])
        R.inst("C08.admit.range", "K10 polarity", "multi-key entries kept iff distance <= distance_range", len(rc), ok)
        # that filter runs before queuing
        g = cfg_of(ak)
        from rules import closures_passed
        ret = [b["id"] for b in ak.blocks if b["term"]["k"] == "call" and not b["cleanup"] and callee_matches(b["term"], ["alloc::vec::Vec::retain"])
               and "Vec<(ant_protocol::NetworkAddress, ant_protocol::storage::header::RecordType)>" in ak.locals.get(str(op_local(b["term"]["args"][0])), "")]
        # … or the same range predicate handed to `partition` / `filter` over the incoming keys
        ret += [b["id"] for b in ak.blocks if b["term"]["k"] == "call" and not b["cleanup"]
                and (b["term"].get("ngen") or b["term"].get("ncallee") or "").endswith(("Iterator::partition", "Iterator::filter"))
                and any(cl in rc for cl in closures_passed(F, ak, b["term"]))]
        fe = [b["id"] for b in ak.blocks if b["term"]["k"] == "call" and not b["cleanup"] and callee_matches(b["term"], ["core::iter::traits::iterator::Iterator::for_each"])]
        okq = bool(ret) and bool(fe)
        if okq:
            rng = FieldOptGuard("distance_range", ("None",), "no distance_range set")
            n_, acc, rej = rng.edges(ak)
            okq = bool(acc) and fe[0] not in g.reach((0,), cut=acc, avoid=set(ret))
        if not okq:
            R.viol("C08.admit.range.order", "range-before-queue", "with a distance_range set, keys can be queued without passing the range filter", ak, ak.lines[0])
        R.inst("C08.admit.range.order", "K5 must-follow", "with a range set, queuing is preceded by the range retain()", len(ret), okq)
    sf = R.body("C08.shrink", RF + "::set_farthest_on_full")
    if sf is not None:
        prep(sf)
        w = [b["id"] for b in sf.blocks for s in b["stmts"] if s["d"][-1] == ".farthest_acceptable_distance" and len(s["d"]) > 1]

        def newd(b):
            # the freshly computed distance: result of NetworkAddress::distance in the function body itself
            return Taint(b).closure(call_results(["ant_protocol::NetworkAddress::distance"])(b))

        def oldd(b):
            ta = Taint(b)
            out = set()
            for blk in b.blocks:
                for s in blk["stmts"]:
                    rv = s["rv"]
                    p = rv["a"][1] if rv["k"] == "use" and rv["a"][0] in ("cp", "mv") else rv.get("p") if rv["k"] == "ref" else None
                    if p and ".farthest_acceptable_distance" in p and "@Some" in p:
                        out.add(s["d"][0])
            return ta.closure(out)
        R.gate("C08.shrink", sf, BlockSink(lambda b, s=w: s, "farthest_acceptable_distance = new"),
               [[FieldOptGuard("farthest_acceptable_distance", ("None",), "no previous bound"), CmpGuard(newd, oldd, "Lt", "new < old", close=False)]],
               descr="the full-node bound is only ever set or shrunk")
        oks = True
        from rules import closure_truth_table, closures_passed, _captured_seeds
        new_parent = newd(sf)
        nret = 0
        for blk_ in sf.blocks:
            t_ = blk_["term"]
            if t_["k"] != "call" or blk_["cleanup"] or not (t_["ncallee"] or "").endswith("::retain"):
                continue
            for c in closures_passed(F, sf, t_):
                prep(c)
                nret += 1
                _db = {}

                def classify(b_, cs, _db=_db):
                    # per body (the retain closure itself, or a predicate closure of set_farthest_on_full it calls): D = distances
                    # computed there, B = values derived from the captured new bound
                    if b_.path not in _db:
                        prep(b_)
                        D_ = Taint(b_).closure(call_results(["ant_protocol::NetworkAddress::distance"])(b_))
                        _db[b_.path] = (D_, Taint(b_, through="all").closure(_captured_seeds(sf, b_, new_parent)) - D_)
                    D, B = _db[b_.path]
                    la, lb = op_local(cs["a"]), op_local(cs["b"])
                    if la in D and lb in B:
                        rel = cs["op"]
                    elif lb in D and la in B:
                        rel = {"Le": "Ge", "Ge": "Le", "Lt": "Gt", "Gt": "Lt"}.get(cs["op"], cs["op"])
                    else:
                        return None         # a comparison that is not distance-vs-new-bound
                    return {"Le": ("W", True), "Gt": ("W", False), "Lt": ("S", True), "Ge": ("S", False)}.get(rel)
                tt = closure_truth_table(c, classify)
                good = tt is not None and tt[0] == ["W"] and all(v == dict(k)["W"] for k, v in tt[1].items())
                if not good:
                    oks = False
                    R.viol("C08.shrink.retain", "retain-polarity", "set_farthest_on_full keeps entries by something other than distance(self, key) <= the new bound "
                           "(%s)" % ("closure not a function of that comparison" if tt is None else "kept iff %s" % sorted((sorted(dict(k).items()), v) for k, v in tt[1].items())), c, c.lines[0])
        if nret < 2:
            oks = False
            R.viol("C08.shrink.retain", "retain-missing", "set_farthest_on_full does not prune both the queue and the in-flight set with retain", sf, sf.lines[0])
        R.inst("C08.shrink.retain", "K10 polarity", "queued / in-flight entries kept iff distance <= new bound", 2, oks)

    # (4) closest first
    srt = [c for c in F.item(RF + "::next_keys_to_fetch") if c.kind == "closure" and any((x["ngen"] or "").endswith("cmp::Ord::cmp") for x in c.calls)]
    ok = False
    for c in srt:
        prep(c)
        for blk in c.blocks:
            t = blk["term"]
            if t["k"] == "call" and (t["ngen"] or "").endswith("cmp::Ord::cmp"):
                ba = backward(c, op_local(t["args"][0]), extra=["ant_protocol::NetworkAddress::distance", "ant_protocol::NetworkAddress::from_record_key"]) & {2, 3}
                bb = backward(c, op_local(t["args"][1]), extra=["ant_protocol::NetworkAddress::distance", "ant_protocol::NetworkAddress::from_record_key"]) & {2, 3}
                ok = ba == {2} and bb == {3} and t["d"] == [0]
    if not ok:
        R.viol("C08.order", "sort-order", "the scheduling sort is not ascending by distance to self (d(self,a).cmp(d(self,b)))", nk, nk.lines[0] if nk else None)
    R.inst("C08.order", "K10 polarity", "pending queue sorted ascending by distance to self", len(srt), ok)

    # (5) leaving the in-flight set
    for fn in ("notify_about_new_put", "notify_fetch_early_completed", "prune_expired_keys_and_slow_nodes", "remove_stored_keys"):
        b = R.body("C08.leave." + fn, RF + "::" + fn)
        if b is None:
            continue
        R.must_pass("C08.leave." + fn, b, [("on_going_fetches.retain", BlockSink(on_field([HM + "retain"], "on_going_fetches"), "on_going_fetches.retain"))],
                    descr="%s prunes the in-flight set on every path" % fn)
    pe = R.body("C08.expiry", RF + "::prune_expired_keys_and_slow_nodes")
    if pe is not None:
        prep(pe)
        # closure: kept ⇔ ¬(time_out < now); an expired entry's holder is recorded (pushed) before it is dropped
        from rules import closure_truth_table
        okc = False
        for c in F.item(RF + "::prune_expired_keys_and_slow_nodes"):
            if c.kind != "closure":
                continue
            prep(c)
            now = Taint(c).closure(call_results(["*Instant::now", "tokio::time::instant::Instant::now", "std::time::Instant::now"])(c))
            if not now:
                continue

            def classify(b_, cs, now=now):
                la, lb = op_local(cs["a"]), op_local(cs["b"])
                if lb in now and la not in now:
                    return {"Lt": ("E", True), "Ge": ("E", False)}.get(cs["op"])
                if la in now and lb not in now:
                    return {"Gt": ("E", True), "Le": ("E", False)}.get(cs["op"])
                return None
            tt = closure_truth_table(c, classify)
            if tt is None or tt[0] != ["E"] or any(v != (not dict(k)["E"]) for k, v in tt[1].items()):
                continue
            g = cfg_of(c)
            push = {b["id"] for b in c.blocks if b["term"]["k"] == "call" and not b["cleanup"] and callee_matches(b["term"], ["alloc::vec::Vec::push"])}
            rets = {b["id"] for b in c.blocks if b["term"]["k"] == "return" and not b["cleanup"]}
            tr = Tracker(c)
            for s_ in compare_sites(c):
                k_ = classify(c, s_)
                if k_:
                    tr.seed_bool(s_["d"], k_[1])
            tr.run()
            from rules import accepted_path_misses
            if tr.accept and push and not accepted_path_misses(g, tr.accept, tr.reject, push, rets):
                okc = True
        if not okc:
            R.viol("C08.expiry", "expiry-polarity", "an in-flight entry with time_out < now is not dropped and recorded as failed", pe, pe.lines[0])
        R.inst("C08.expiry", "K10 polarity", "time_out < now ⇒ entry dropped and holder recorded", 1, okc)
        R.must_pass("C08.expiry.holders", pe, [("to_be_fetched.retain(not failed holder)", BlockSink(on_field([HM + "retain"], "to_be_fetched"), "to_be_fetched.retain"))],
                    descr="a failed holder's queued entries are dropped")
        R.gate("C08.expiry.report", pe, AggSink("ant_networking::event::NetworkEvent", "FailedToFetchHolders"),
               [[CallGuard(["alloc::collections::btree::set::BTreeSet::is_empty"], ("false",), "failed_holders non-empty")]],
               descr="FailedToFetchHolders is emitted for a non-empty set of failed holders")
    # (6) wiring — shared with C10
    from props.C10 import run as _c10  # noqa
    hlc = R.body("C08.wiring", "ant_networking::cmd::<impl ant_networking::driver::SwarmDriver>::handle_local_cmd")
    if hlc is not None:
        R.must_call("C08.wiring.full", hlc.path, [RF + "::set_farthest_on_full"], "MaxRecords refusal reaches set_farthest_on_full")
        R.must_call("C08.wiring.notify", hlc.path, [RF + "::notify_about_new_put"], "every put notifies the fetcher")


RFP = "ant_networking::replication_fetcher::ReplicationFetcher::"


def liveness_rules(R, pfx="C08", only=None):
    """Clauses about fetches *leaving* the in-flight set and holders being reported:
    (a) an in-flight entry's deadline is fixed when the entry is created — nothing hands out `&mut` access to stored values of
        on_going_fetches (get_mut / iter_mut / values_mut / OccupiedEntry::get_mut), so a re-advertisement cannot keep a dead
        holder's fetch alive;
    (b) every holder of a timed-out fetch is reported and has its queue dropped: between the collection of the failed holders and
        their use nothing removes holders from the set;
    (c) set_replication_distance_range stores the range it is given;
    (d) add_keys always drops the queued entries of records that are now held (remove_stored_keys on every path to a return);
    (e) handle_local_cmd: the keys returned by notify_about_new_put are dispatched even when the store refused the record."""
    from flow import backward_calls
    from rules import _chain_calls
    F = R.F
    # (a)
    n, bad = 0, []
    for b in F.bodies.values():
        if b.crate != "ant_networking" or "::tests::" in b.path:
            continue
        for c in b.calls_raw:
            nc = c["ncallee"] or ""
            at = c.get("arg_tys") or []
            if at and "HashMap<(libp2p_kad::record::Key, ant_protocol::storage::header::RecordType), (libp2p_identity::peer_id::PeerId" in at[0]:
                n += 1
                if nc.endswith(("::get_mut", "::iter_mut", "::values_mut", "::get_many_mut", "::drain", "::extract_if")):
                    bad.append((b, c))
    for b, c in bad:
        R.viol(pfx + ".deadline.fixed", "deadline-writable:%s" % R.root_path(b).split("::")[-1], "%s obtains mutable access to stored in-flight entries (%s): a fetch's deadline can be pushed back" % (R.root_path(b), c["ncallee"].split("::")[-1]), b, c["line"])
    if n < 6:
        R.viol(pfx + ".deadline.fixed", "anchor-missing:on_going_fetches", "fewer than 6 uses of the in-flight map found (%d)" % n)
    R.inst(pfx + ".deadline.fixed", "K2 mutator whitelist", "no &mut access to stored in-flight entries: a deadline is fixed at insertion", n, not bad and n >= 6)
    # (b)
    pr = R.body(pfx + ".expiry.all", RFP + "prune_expired_keys_and_slow_nodes")
    if pr is not None:
        prep(pr)
        fh = set(locals_of_type(pr, "alloc::collections::btree::set::BTreeSet<libp2p_identity::peer_id::PeerId>", exact=True))
        refs = {l for l, roots in Taint(pr).ref_of.items() if roots & fh}
        shr = [blk for blk in pr.blocks if blk["term"]["k"] == "call" and not blk["cleanup"] and blk["term"]["args"] and op_local(blk["term"]["args"][0]) in refs | fh
               and (blk["term"]["ncallee"] or "").endswith(("::retain", "::remove", "::clear", "::take", "::pop_first", "::pop_last", "::split_off", "::drain", "::extract_if"))]
        ok = bool(fh) and not shr
        for blk in shr[:1]:
            R.viol(pfx + ".expiry.all", "holder-exempted", "prune_expired_keys_and_slow_nodes removes holders from the failed set before reporting them (%s)" % blk["term"]["ncallee"].split("::")[-1], pr, blk["term"]["l"])
        if not fh:
            R.viol(pfx + ".expiry.all", "anchor-missing:failed_holders", "no BTreeSet<PeerId> of failed holders in prune_expired_keys_and_slow_nodes", pr, pr.lines[0])
        R.inst(pfx + ".expiry.all", "K2 mutator whitelist", "every holder of a timed-out fetch stays in the reported set", len(fh), ok)
    # (c)
    sr = R.body(pfx + ".range.set", RFP + "set_replication_distance_range")
    if sr is not None:
        prep(sr)
        calls = [c["ncallee"] for c in sr.calls if not c.get("mac") and not any(t in (c["ncallee"] or "") for t in ("convert::From", "convert::Into", "clone::Clone", "option::Option::Some"))]
        ws = [st for blk in sr.blocks for st in blk["stmts"] if len(st["d"]) > 1 and st["d"][-1] == ".distance_range"]
        param = Taint(sr).closure(PL(sr, 1))
        somes = {st["d"][0]: st["rv"] for blk in sr.blocks for st in blk["stmts"] if st["rv"]["k"] == "agg" and st["rv"].get("variant") == "Some" and len(st["d"]) == 1}
        def _is_some_of_param(st):
            rv = st["rv"]
            if rv["k"] == "use" and rv["a"][0] in ("cp", "mv") and len(rv["a"][1]) == 1 and rv["a"][1][0] in somes:
                rv = somes[rv["a"][1][0]]
            if rv["k"] == "agg" and rv.get("variant") == "Some" and op_local(rv["ops"][0]) in param:
                return True
            # `= range.into()` / `Some(range).clone()`: the stored value derives from the parameter through conversions only
            return rv["k"] == "use" and op_local(rv["a"]) in Taint(sr, extra_transparent=["core::option::Option::Some"]).closure(param)
        okc = bool(ws) and not calls and all(_is_some_of_param(st) for st in ws)
        if not okc:
            R.viol(pfx + ".range.set", "range-not-stored", "set_replication_distance_range does not store exactly the range it is given (%s)" % (calls[:2] or "assignment changed"), sr, sr.lines[0])
        R.inst(pfx + ".range.set", "K6 flows-to", "distance_range = Some(the new range)", len(ws), okc)
    # (d0) the immediate-fetch shortcut of add_keys (which skips the range filter) applies to a list that reduced to exactly one new key
    ak0 = R.body(pfx + ".admit.single", RFP + "add_keys")
    if ak0 is not None:
        lens_ = lambda b: Taint(b).closure({blk["term"]["d"][0] for blk in b.blocks if blk["term"]["k"] == "call" and (blk["term"]["ncallee"] or "").endswith("Vec::len")})
        one = _ConstCmp(F, lens_, lambda v: v == 1, ("Eq",), "new_incoming_keys.len() == 1")
        # the immediate insertion into the in-flight map: through a VacantEntry, or `on_going_fetches.insert(..)` (cut by !contains_key: C08.dup)
        _vac = CallSink("*VacantEntry<'a, K, V, A>::insert", "*VacantEntry::insert", "std::collections::hash::map::VacantEntry::insert")
        _ins = on_field([HM + "insert"], "on_going_fetches")
        from rules import BlockSink as _BSink
        R.gate(pfx + ".admit.single", ak0, _BSink(lambda b: sorted(set(_vac.blocks(b)) | set(_ins(b))), "insertion into on_going_fetches"), [[one]],
               descr="add_keys starts a fetch directly (without the range filter) only for a single new key")
        # … and that "single key" is a statement about the *advertisement*: the list as it arrived has one entry (a freshly stored record
        # pushed by its holder).  A periodic multi-record list of which all entries but one are already held, queued or too far reduces to
        # one new key as well — that key is taken from a periodic advertisement and must pass the responsible-distance filter.
        def _adv_len(b):
            par = Taint(b).closure(set(PL(b, 2)))        # (self, holder, incoming_keys, locally_stored_keys)
            tref = Taint(b)
            out = set()
            for blk in b.blocks:
                t = blk["term"]
                if t["k"] == "call" and not blk["cleanup"] and (t["ncallee"] or "").endswith("Vec::len") and t["args"]:
                    a0 = op_local(t["args"][0])
                    if a0 in par or (tref.ref_of.get(a0, set()) & par):
                        out.add(t["d"][0])
            return Taint(b).closure(out)
        adv_one = _ConstCmp(F, _adv_len, lambda v: v == 1, ("Eq",), "incoming_keys.len() == 1 (the advertisement itself has one entry)")
        R.gate(pfx + ".admit.single.advertised", ak0, _BSink(lambda b: sorted(set(_vac.blocks(b)) | set(_ins(b))), "insertion into on_going_fetches"), [[adv_one]],
               descr="the immediate fetch that skips the range filter is taken only for an advertisement of exactly one key")
    # (c2) the report of failed holders is delivered: the task that send_event spawns reaches `event_sender.send(event)` on every
    #      path (no "channel is full → drop" exit), and the fetcher does not use try_send
    for c in [c for c in F.item(RFP + "send_event") if c.kind == "closure" and c.coroutine][:1]:
        R.reaches_except(pfx + ".report.delivered", c, CallSink("tokio::sync::mpsc::bounded::Sender::send", "tokio::sync::mpsc::Sender::send"), [],
                         "ReplicationFetcher::send_event hands every event to the channel (awaiting capacity), never drops it", key="event-dropped")
    if not [c for c in F.item(RFP + "send_event") if c.kind == "closure" and c.coroutine]:
        R.viol(pfx + ".report.delivered", "anchor-missing:send_event-task", "ReplicationFetcher::send_event no longer spawns a sending task")
    # (d)
    ak = R.body(pfx + ".admit.prune", RFP + "add_keys")
    if ak is not None:
        R.must_pass(pfx + ".admit.prune", ak, [("remove_stored_keys(locally_stored_keys)", CallSink(RFP + "remove_stored_keys"))],
                    descr="add_keys drops queued entries of records now held, on every path")
    # (e)
    hlc = R.body(pfx + ".wiring.dispatch", "ant_networking::cmd::<impl ant_networking::driver::SwarmDriver>::handle_local_cmd")
    if hlc is not None:
        prep(hlc)
        g = cfg_of(hlc)
        notif = [blk for blk in hlc.blocks if blk["term"]["k"] == "call" and not blk["cleanup"] and callee_matches(blk["term"], [RFP + "notify_about_new_put"])]
        send = set(CallSink("ant_networking::driver::SwarmDriver::send_event", "*SwarmDriver::send_event").blocks(hlc))
        oke = bool(notif)
        for blk in notif:
            ta = Taint(hlc, through="all")
            keys = ta.closure({blk["term"]["d"][0]})
            empties = CallGuard(["alloc::vec::Vec::is_empty"], ("true",), "nothing to fetch", arg_pred=lambda b_, bk, t, ks=keys: op_local(t["args"][0]) in ks)
            n_, acc_, _ = empties.edges(hlc)
            rets = {b2["id"] for b2 in hlc.blocks if b2["term"]["k"] == "return" and not b2["cleanup"]}
            # from the notification, a return is reachable only through "nothing to fetch" or through the dispatch
            nxt = tuple(d for d, _ in g.succ[blk["id"]])
            if rets & g.reach(nxt, avoid=send, cut=acc_):
                oke = False
                R.viol(pfx + ".wiring.dispatch", "keys-not-dispatched", "handle_local_cmd can return after notify_about_new_put scheduled fetches without dispatching them (KeysToFetchForReplication): "
                       "the entries sit in the in-flight set until they time out and their holders are blamed", hlc, blk["term"]["l"])
        R.inst(pfx + ".wiring.dispatch", "K5 must-follow", "fetches scheduled by notify_about_new_put are always dispatched", len(notif), oke)
        # the full-node bound is installed before the follow-up batch is chosen: set_farthest_on_full never comes after notify_about_new_put
        sf = set(CallSink(RFP + "set_farthest_on_full").blocks(hlc))
        okb = bool(sf) and bool(notif) and not (sf & g.reach(tuple(b_["id"] for b_ in notif)))
        if not okb:
            R.viol(pfx + ".wiring.bound-first", "batch-before-bound", "handle_local_cmd schedules the follow-up fetches (notify_about_new_put) before installing the full-node bound (set_farthest_on_full): "
                   "records farther than the farthest held one are fetched after the node is full", hlc, hlc.lines[0])
        R.inst(pfx + ".wiring.bound-first", "K5 must-precede", "set_farthest_on_full precedes notify_about_new_put in the PutLocalRecord arm", len(sf), okb)


def _kt(body, c):
    """classify a comparison inside a fetcher retain closure: K = the two record keys are equal, T = the two record types are equal"""
    ta_, tb_ = body.locals.get(str(op_local(c["a"])), ""), body.locals.get(str(op_local(c["b"])), "")
    if "RecordType" in ta_ and "RecordType" in tb_:
        return "T"
    if "libp2p_kad::record::Key" in ta_ and "libp2p_kad::record::Key" in tb_:
        return "K"
    return None


def expired_rule(R, pfx="C08"):
    # expiry: every retain on the in-flight set inside the pruning pass keeps exactly the entries whose own deadline has not passed
    # (a second sweep "drop whatever else the failed holder has in flight" removes fetches that are still running: they can then be
    # scheduled a second time and the parallel limit no longer bounds what is really in flight)
    def _expired(body, c):
        now = Taint(body).closure(call_results(["*Instant::now", "tokio::time::instant::Instant::now", "std::time::Instant::now"])(body))
        la, lb = op_local(c["a"]), op_local(c["b"])
        if lb in now and la not in now:
            return {"Lt": ("E", True), "Ge": ("E", False), "Le": ("E", True), "Gt": ("E", False)}.get(c["op"]) if c["op"] in ("Lt", "Ge") else None
        if la in now and lb not in now:
            return {"Gt": ("E", True), "Le": ("E", False)}.get(c["op"])
        return None
    # … and nothing leaves the in-flight set any other way: the only removing operation applied to on_going_fetches anywhere in the
    # fetcher is `retain` (each retain is decided by a truth-table rule of its function); `remove`, `clear`, `drain`, `extract_if`,
    # `mem::take` have no decided predicate
    REMOVERS = [HM + x for x in ("remove", "remove_entry", "clear", "drain", "extract_if")] + ["core::mem::take", "core::mem::replace", "core::mem::swap"]
    odd, scanned = [], 0
    for b_ in R.F.bodies.values():
        if b_.crate != "ant_networking" or "replication_fetcher" not in b_.path:
            continue
        scanned += 1
        for bid in on_field(REMOVERS, "on_going_fetches")(b_):
            odd.append((b_, bid))
    for b_, bid in odd[:3]:
        t_ = cfg_of(b_).term(bid)
        R.viol(pfx + ".leave.only-retain", "inflight-removed:%s:%s" % (b_.npath.split("::")[-1], (t_.get("ncallee") or "?").split("::")[-1]),
               "%s removes in-flight fetches with %s: no rule decides which entries leave" % (b_.path, (t_.get("ncallee") or "?")), b_, t_.get("l"))
    R.inst(pfx + ".leave.only-retain", "K2 mutator whitelist", "entries leave on_going_fetches only through retain (bodies of the fetcher scanned: %d)" % scanned, scanned, not odd and scanned >= 10)
    if scanned < 10:
        R.viol(pfx + ".leave.only-retain", "instance-floor", "fewer than 10 fetcher bodies scanned (%d)" % scanned)
    R.retain_polarity(pfx + ".leave.expired.inflight", RFP + "prune_expired_keys_and_slow_nodes", "on_going_fetches", lambda e: "E" in e and not e["E"],
                      "the pruning pass drops exactly the in-flight entries whose own deadline has passed", _expired)


def retain_rules(R, pfx="C08"):
    """Which entries leave the queue / the in-flight set when a record arrives, a fetch completes early, or keys turn out to be held
    (shared with C09): decided as truth tables of the retain closures over (key equal, type equal, key stored)."""
    notKT = lambda e: not (e.get("K", False) and e.get("T", False))
    R.retain_polarity(pfx + ".leave.put.queue", RFP + "notify_about_new_put", "to_be_fetched", notKT, "a stored record drops exactly the queued entries of its (key, type)", _kt)
    R.retain_polarity(pfx + ".leave.put.inflight", RFP + "notify_about_new_put", "on_going_fetches", lambda e: not e.get("K", False), "a stored record completes exactly the in-flight fetches of its key", _kt)
    R.retain_polarity(pfx + ".leave.early.queue", RFP + "notify_fetch_early_completed", "to_be_fetched", notKT, "an early-completed fetch drops exactly the queued entries of its (key, type)", _kt)
    R.retain_polarity(pfx + ".leave.early.inflight", RFP + "notify_fetch_early_completed", "on_going_fetches", notKT, "an early-completed fetch leaves the in-flight set exactly for its (key, type)", _kt)
    notST = lambda e: not (e.get("S", False) and e.get("T", False))
    R.retain_polarity(pfx + ".leave.stored.queue", RFP + "remove_stored_keys", "to_be_fetched", notST, "queued entries are dropped exactly when the key is held with the same type", _kt)
    R.retain_polarity(pfx + ".leave.stored.inflight", RFP + "remove_stored_keys", "on_going_fetches", notST, "in-flight entries are dropped exactly when the key is held with the same type", _kt)
