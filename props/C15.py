"""C15 — client reads are authenticated against the requested address."""
from cfg import cfg_of
from flow import Taint, callee_matches, op_local, prep, field_reads
from rules import CallGuard, CallSink, CmpGuard, RetSink, P, PL
from rules import returned_directly
from props.C04 import call_results

META = {
    "explanation_r6": 'Also (round 6): the vault gate is decided on the computed return form, so a forwarded `return try_deserialize_record(..)` of an error-path arm counts as a return of Ok.',
    "explanation_more": "Also (round 4): every version a holder answered with is recorded and kept for the split decision (C05.versions.* as C15.received.*); every chunk the data map lists is fetched and a fetched chunk's address is recomputed from its bytes (C14 / C12 rules as C15.content.*). Also (round 5): no finished chunk download can be dropped by the concurrency helper (C15.content.tasks.all.results).",
    "explanation": "Decides: (1) in Client::chunk_get the requested address reaches a comparison with the address of the deserialised chunk whose "
                   "equal side is the only way to Ok(chunk) (and Chunk's address is recomputed from its bytes on decode); (2) in "
                   "get_vault_from_network every Ok(pad) is cut by Scratchpad::is_valid() and by pad.address() == requested address, the "
                   "split-version candidates pass a retain/filter closure doing both checks before the counter sort, and the version picked "
                   "is the last after sort_by_key(count), and the network layer's own split resolution (handle_split_record_error) only ever replaces "
                   "its candidate by a validly signed version with a strictly higher counter and never clears it; (3) fetch_and_decrypt_vault decrypts only what (2) returned; (4) Scratchpad::is_valid "
                   "verifies the owner's signature over counter and encrypted-data hash and is false without a signature. "
                   "Not decided: BLS soundness, data-map-level integrity beyond chunk granularity.",
    "not_decided": ["BLS signature soundness", "integrity of multi-chunk data beyond per-chunk address checks (follows from 1)"],
}

CG = "autonomi::client::data::public::<impl autonomi::client::Client>::chunk_get"
GV = "autonomi::client::vault::<impl autonomi::client::Client>::get_vault_from_network"
FD = "autonomi::client::vault::<impl autonomi::client::Client>::fetch_and_decrypt_vault"
PAD = "ant_protocol::storage::scratchpad::Scratchpad"


def run(R):
    F = R.F
    # every client read of a record goes through one of the three authenticated readers (chunks and data maps: chunk_get)
    R.who_may_call("C15.readers", ["ant_networking::Network::get_record_from_network"],
                   [CG, GV, "autonomi::client::registers::<impl autonomi::client::Client>::register_get"], floor=3,
                   ignore_crates=("ant_node", "ant_networking"),
                   descr="client-side network reads happen only in chunk_get, get_vault_from_network and register_get")
    # data_get_public(addr): the data map decrypted is the chunk fetched (and address-checked) for *that* addr
    DGP = "autonomi::client::data::public::<impl autonomi::client::Client>::data_get_public"
    dg = R.body("C15.data", DGP + "::{closure#0}")
    if dg is not None:
        prep(dg)
        ta = Taint(dg, through="all")
        addr = Taint(dg).closure(PL(dg, 1))
        cgs = [b for b in dg.blocks if b["term"]["k"] == "call" and not b["cleanup"] and callee_matches(b["term"], [CG])]
        fdm = [b for b in dg.blocks if b["term"]["k"] == "call" and not b["cleanup"] and callee_matches(b["term"], ["*::fetch_from_data_map_chunk"])]
        fetched = ta.closure({b["term"]["d"][0] for b in cgs})
        okd = bool(cgs) and bool(fdm) and all(op_local(b["term"]["args"][1]) in addr for b in cgs) and all(op_local(b["term"]["args"][1]) in fetched for b in fdm)
        if not okd:
            R.viol("C15.data", "data-map-source", "data_get_public does not decrypt through the chunk that chunk_get returned for the requested address", dg, dg.lines[0])
        R.inst("C15.data", "K6 flows-to", "data_get_public(addr) = fetch_from_data_map_chunk(chunk_get(addr).value())", len(cgs) + len(fdm), okd)
    # when holders disagree the network layer resolves the split before get_vault_from_network sees a record: it must keep the
    # highest-counter validly signed version (rules shared with C05)
    from props.C05 import split_pad_rules, SPLIT
    spb = R.body("C15.split", SPLIT)
    if spb is not None:
        prep(spb)
        split_pad_rules(R, spb, "C15.split")
    chunk_get_rule(R, "C15")
    # ... and multi-chunk data is assembled only from chunks that went through it (rule shared with C14)
    from props.C14 import fetched_chunks_rule
    fetched_chunks_rule(R, "C15")
    # ... and the network layer hands a record straight back only when a single version was seen (otherwise the split resolution,
    # checked below, decides) — rule of C05 evaluated here because "highest-counter version among those received" rests on it
    from props.C05 import ACC, SRACT
    from props.C10 import _ConstCmp
    accb = R.body("C15.single", ACC)
    if accb is not None:
        one = _ConstCmp(F, lambda b: Taint(b).closure({blk["term"]["d"][0] for blk in b.blocks if blk["term"]["k"] == "call" and (blk["term"]["ncallee"] or "").endswith("HashMap::len")}),
                        lambda v: v == 1, ("Eq",), "result_map.len() == 1")
        R.gate("C15.single", accb, CallSink(SRACT), [[one]], descr="accumulate: a record is returned directly only when a single version was seen")
    # ... every version a holder answered with takes part in that decision (none capped away or dropped), every chunk the data map
    # lists is fetched, and the address of a fetched chunk is always recomputed from its bytes (rules of C05 / C14 / C12)
    import props.C05 as _C05
    import props.C14 as _C14
    R.import_rules("C05", _C05.run, ["C05.versions."], "C15.received")
    R.import_rules("C14", _C14.run, ["C14.fetch.all", "C14.tasks.all", "C14.chunk-literal", "C14.chunk-de", "C14.chunk-new"], "C15.content")
    gv = R.body("C15.vault", GV + "::{closure#0}")
    if gv is not None:
        prep(gv)

        def src_req(b):
            ta = Taint(b)
            return ta.closure(call_results(["ant_protocol::storage::address::scratchpad::ScratchpadAddress::new"])(b))

        def src_pad_addr(b):
            ta = Taint(b)
            return ta.closure(call_results([PAD + "::address", PAD + "::owner"])(b))
        R.gate("C15.vault", gv, RetSink("Ok", computed=True),
               [[CallGuard([PAD + "::is_valid"], ("true",), "pad.is_valid()")],
                [CmpGuard(src_pad_addr, src_req, "Eq", "pad.address() == requested address", close=False)]],
               descr="get_vault_from_network returns Ok(pad) only for a validly signed pad owned by the requested key")
        # split branch: candidates filtered by a closure doing both checks, before the counter sort
        filt = None
        for c in F.item(GV):
            if c.kind == "closure" and c.path != gv.path:
                names = {x["ncallee"] for x in c.calls}
                has_valid = (PAD + "::is_valid") in names
                has_addr = (PAD + "::address") in names or (PAD + "::owner") in names
                from rules import compare_sites
                prep(c)
                if has_valid and has_addr and any(x["op"] in ("Eq", "Ne") for x in compare_sites(c)):
                    filt = c
        g = cfg_of(gv)
        ok = False
        if filt is not None:
            # the call that consumes the closure
            use = None
            sort = None
            last = None
            for b in gv.blocks:
                t = b["term"]
                if b["cleanup"] or t["k"] != "call":
                    continue
                if callee_matches(t, ["alloc::vec::Vec::retain", "core::iter::traits::iterator::Iterator::filter"]):
                    ty = " ".join(gv.locals.get(str(op_local(a)), "") for a in t["args"] if op_local(a) is not None)
                    if "closure@" in ty and str(filt.lines[0]) in ty:
                        use = b["id"]
                if callee_matches(t, ["*::sort_by_key", "*::sort_unstable_by_key", "*::max_by_key"]):
                    sort = b["id"]
                if callee_matches(t, ["core::slice::<impl [T]>::last", "*::max_by_key"]):
                    last = b["id"]
            ok = use is not None and sort is not None and last is not None and g.dominates(use, sort) and g.dominates(sort, last)
        if not ok:
            R.viol("C15.vault.split", "unfiltered-candidates", "split-version candidates are not filtered by owner+signature before the highest-counter selection", gv, gv.lines[0])
        R.inst("C15.vault.split", "K5 must-follow", "split candidates: retain(owner && is_valid) dominates sort_by_key(count) dominates last()", 1 if filt else 0, ok)
        # key function of the sort is the counter
        cnt = any((PAD + "::count") in {x["ncallee"] for x in c.calls} for c in F.item(GV) if c.kind == "closure" and c.path != gv.path)
        if not cnt:
            R.viol("C15.vault.max", "sort-key", "the version sort is not keyed by Scratchpad::count", gv, gv.lines[0])
        R.inst("C15.vault.max", "K10 polarity", "versions ordered by count(); last (= highest) is taken", 1, cnt)
        # exact predicates of the two selection closures (truth tables): kept ⇔ owned by the requested key ∧ validly signed;
        # latest ⇔ count() == the maximum
        from rules import closure_truth_table, closures_passed
        okt, nt = True, 0
        for blk in gv.blocks:
            t = blk["term"]
            if t["k"] != "call" or blk["cleanup"]:
                continue
            nc = t["ncallee"] or ""
            is_retain = nc.endswith("Vec::retain")
            is_filter = (t["ngen"] or "").endswith("iterator::Iterator::filter")
            if not (is_retain or is_filter):
                continue
            for cl in closures_passed(F, gv, t):
                names = {x["ncallee"] for x in cl.calls}
                if (PAD + "::is_valid") in names:      # the authenticity predicate, whether handed to retain or to filter
                    nt += 1
                    tt = closure_truth_table(cl, lambda b, c: "A", call_atoms={PAD + "::is_valid": "V"})
                    if tt is None or any(v != (dict(k).get("A", False) and dict(k).get("V", False)) for k, v in tt[1].items()):
                        okt = False
                        R.viol("C15.vault.split.exact", "retain-predicate", "the split candidates are not kept exactly when owned by the requested key and validly signed", cl, cl.lines[0])
                elif (PAD + "::count") in names:       # the latest-version predicate
                    nt += 1
                    tt = closure_truth_table(cl, lambda b, c: "E")
                    if tt is None or any(v != dict(k).get("E", False) for k, v in tt[1].items()):
                        okt = False
                        R.viol("C15.vault.split.exact", "latest-predicate", "the latest versions are not selected exactly by count() == the maximum counter", cl, cl.lines[0])
        if nt < 2:
            okt = False
            R.viol("C15.vault.split.exact", "anchor-missing:selection-closures", "expected the retain(owner ∧ valid) and filter(count == max) closures in get_vault_from_network (found %d)" % nt, gv, gv.lines[0])
        R.inst("C15.vault.split.exact", "K10 polarity", "retain ⇔ owned ∧ valid; latest ⇔ count == max", nt, okt)
    fd = R.body("C15.decrypt", FD + "::{closure#0}")
    if fd is not None:
        prep(fd)
        ta = Taint(fd)
        src = ta.closure(call_results([GV])(fd) | set())
        # through the await plumbing
        ta2 = Taint(fd, through="all")
        pads = ta2.closure(call_results([GV])(fd))
        dec = [b for b in fd.blocks if b["term"]["k"] == "call" and callee_matches(b["term"], [PAD + "::decrypt_data"])]
        ok = bool(dec) and all(op_local(b["term"]["args"][0]) in pads for b in dec)
        if not ok:
            R.viol("C15.decrypt", "decrypt-source", "fetch_and_decrypt_vault decrypts a scratchpad that is not the one returned by get_vault_from_network", fd, fd.lines[0])
        R.inst("C15.decrypt", "K6 flows-to", "decrypt_data is applied to the authenticated pad", len(dec), ok)
    # (4) is_valid
    is_valid_rules(R, "C15")


def is_valid_rules(R, pfx):
    """Scratchpad::is_valid: true only with a signature present, verified with the owner's key over counter ‖ data hash.
    Accepts the `if let Some(sig) = &self.signature { verify } else { false }` form and Option-combinator forms."""
    from rules import FieldOptGuard, AggSink
    F = R.F
    iv = R.body(pfx + ".is_valid", PAD + "::is_valid")
    if iv is None:
        return
    prep(iv)
    VER = "blsttc::PublicKey::verify"
    holders = [b for b in F.item(PAD + "::is_valid") if any(c["ncallee"] == VER for c in b.calls)]
    if not holders:
        R.viol(pfx + ".is_valid", "missing:%s" % VER, "Scratchpad::is_valid no longer verifies a BLS signature", iv, iv.lines[0])
        R.inst(pfx + ".is_valid", "K6 flows-to", "is_valid: owner().verify(signature, counter ‖ data hash)", 0, False)
        return
    vb = holders[0]
    prep(vb)
    names = {c["ncallee"] for b in F.item(PAD + "::is_valid") for c in b.calls}
    ok = True
    # the verified message, followed through same-crate helpers (`self.bytes_for_signature()`): callees and fields on its chain
    from rules import _chain_calls
    ver0 = [b for b in vb.blocks if b["term"]["k"] == "call" and callee_matches(b["term"], [VER])]
    chain_names, chain_fields = set(), set()
    for b in ver0:
        for a in b["term"]["args"]:
            if op_local(a) is not None:
                n_, f_ = _chain_calls(F, vb, op_local(a), depth=2)
                chain_names |= set(n_)
                chain_fields |= f_
    names |= chain_names
    for k, w in ((PAD + "::owner", "with the owner's key"), (PAD + "::encrypted_data_hash", "over the data hash")):
        if k not in names:
            ok = False
            R.viol(pfx + ".is_valid", "missing:%s" % k, "Scratchpad::is_valid no longer verifies %s (%s)" % (w, k), vb, vb.lines[0])
    ver = [b for b in vb.blocks if b["term"]["k"] == "call" and callee_matches(b["term"], [VER])]

    def derived_from(field_or_call):
        """locals of vb derived from a field read / call result, directly or through a value the parent computed and the closure captured"""
        ta = Taint(vb, through="all")
        seeds = {d for d, r, p in field_reads(vb, field_or_call)} if not field_or_call.startswith("ant_") else call_results([field_or_call])(vb)
        out = ta.closure(seeds)
        if vb is not iv:
            tp = Taint(iv, through="all")
            pseeds = {d for d, r, p in field_reads(iv, field_or_call)} if not field_or_call.startswith("ant_") else call_results([field_or_call])(iv)
            pt = tp.closure(pseeds)
            for blk in iv.blocks:
                for st in blk["stmts"]:
                    if st["rv"]["k"] == "agg" and st["rv"]["ak"] == "closure" and st["rv"]["adt"] == vb.path:
                        for k, o in enumerate(st["rv"]["ops"]):
                            if op_local(o) in pt:
                                caps = {s2["d"][0] for b2 in vb.blocks for s2 in b2["stmts"] if s2["rv"]["k"] in ("use", "ref") and
                                        ((s2["rv"]["a"][1] if s2["rv"]["k"] == "use" and s2["rv"]["a"][0] in ("cp", "mv") else s2["rv"].get("p")) or [None, None])[:3][1:2] == ["*"] and
                                        ".upv%d" % k in ((s2["rv"]["a"][1] if s2["rv"]["k"] == "use" and s2["rv"]["a"][0] in ("cp", "mv") else s2["rv"].get("p")) or [])}
                                caps |= {s2["d"][0] for b2 in vb.blocks for s2 in b2["stmts"] if s2["rv"]["k"] in ("use", "ref") and
                                         ".upv%d" % k in ((s2["rv"]["a"][1] if s2["rv"]["k"] == "use" and s2["rv"]["a"][0] in ("cp", "mv") else s2["rv"].get("p")) or [])}
                                out |= ta.closure(caps)
        return out
    if not all(any(op_local(a) in derived_from("counter") for a in b["term"]["args"]) for b in ver) and "counter" not in chain_fields:
        ok = False
        R.viol(pfx + ".is_valid", "counter-unsigned", "the counter does not flow into the bytes verified by Scratchpad::is_valid", vb, vb.lines[0])
    if not all(any(op_local(a) in derived_from(PAD + "::encrypted_data_hash") for a in b["term"]["args"]) for b in ver) and (PAD + "::encrypted_data_hash") not in chain_names:
        ok = False
        R.viol(pfx + ".is_valid", "hash-unsigned", "the data hash does not flow into the bytes verified by Scratchpad::is_valid", vb, vb.lines[0])
    if not all(op_local(b["term"]["args"][0]) in derived_from(PAD + "::owner") for b in ver):
        ok = False
        R.viol(pfx + ".is_valid", "verify-key", "the signature is not verified with the scratchpad owner's key", vb, vb.lines[0])
    R.inst(pfx + ".is_valid", "K6 flows-to", "is_valid: owner().verify(signature, counter ‖ data hash)", len(ver), ok)
    # no signature ⇒ false
    okn = False
    why = None
    if vb is iv:
        # match form: the verdict is produced only on the Some side of the signature field
        g = cfg_of(iv)
        gd = FieldOptGuard("signature", ("Some",), "signature present")
        n_, acc, rej = gd.edges(iv)
        trues = set(b["id"] for b in ver) | set(RetSink("true").blocks(iv))
        okn = bool(acc) and bool(rej) and all(not (g.reach((d,)) & trues) for _, d in rej)
        why = "match on self.signature"
    else:
        comb = [c for c in iv.calls if (c["ncallee"] or "").startswith("core::option::Option::") and not (c["ncallee"] or "").endswith(("as_ref", "as_deref", "as_mut"))]
        kinds = [c["ncallee"].split("::")[-1] for c in comb]
        why = "Option::" + ",".join(kinds)
        good = {"is_some_and"}
        if kinds and all(k in good for k in kinds):
            okn = True
        elif kinds == ["map_or"]:
            # map_or(default, f): default must be the literal false
            okn = any(k[0] == 0 and k[1] == "false" for c in comb for k in c["consts"])
        elif set(kinds) <= {"map", "unwrap_or_default"} and "map" in kinds:
            okn = True
        elif set(kinds) <= {"map", "unwrap_or"} and "map" in kinds:
            okn = any(k[1] == "false" for c in comb if c["ncallee"].endswith("unwrap_or") for k in c["consts"])
        # the closure's value is the verify verdict
        cl_ok = any(b["term"]["k"] == "call" and callee_matches(b["term"], [VER]) and (returned_directly(vb, b["term"]["d"]) or 0 in Taint(vb).closure({b["term"]["d"][0]})) for b in vb.blocks)
        okn = okn and cl_ok
    # … and `true` comes from nowhere else: every `true` of is_valid is the verdict of that verify call
    if vb is iv:
        R.gate(pfx + ".is_valid.only", iv, RetSink("true", computed=True), [[CallGuard([VER], ("true",), "owner().verify(signature, ..) is true")]],
               descr="is_valid is true only where the signature verified")
    else:
        lit = RetSink("true").blocks(iv)
        if lit:
            R.viol(pfx + ".is_valid.only", "unconditional-true", "Scratchpad::is_valid has a `true` that is not the verdict of the signature check", iv, iv.lines[0])
        R.inst(pfx + ".is_valid.only", "K4 gate", "is_valid is true only where the signature verified", 1, not lit)
    if not okn:
        R.viol(pfx + ".is_valid.unsigned", "unsigned-valid", "Scratchpad::is_valid can return true for a scratchpad without a signature (%s)" % why, iv, iv.lines[0])
    R.inst(pfx + ".is_valid.unsigned", "K4r reject-edge", "no signature ⇒ is_valid() is false", 1, okn, {"form": why})


def _upvar_reads(body, name):
    """locals assigned from the coroutine/closure capture that debuginfo names `name`"""
    out = set()
    places = [v["v"] for v in body.vars if v["name"] == name and isinstance(v["v"], list) and len(v["v"]) > 1]
    for b in body.blocks:
        for s in b["stmts"]:
            rv = s["rv"]
            p = rv["a"][1] if rv["k"] == "use" and rv["a"][0] in ("cp", "mv") else rv.get("p") if rv["k"] == "ref" else None
            if p and any(p[:len(q)] == q for q in places) and len(s["d"]) == 1:
                out.add(s["d"][0])
    return out


def chunk_get_rule(R, pfx="C15"):
    """Client::chunk_get hands back a chunk only if the chunk's own (content-derived) address equals the requested one (shared with
    C14: a data map and its chunks are fetched through this function)."""
    F = R.F
    cg = R.body(pfx + ".chunk", CG + "::{closure#0}")
    if cg is not None:
        prep(cg)

        def src_addr(b):
            return Taint(b).closure(PL(b, 1))  # the requested `addr` parameter

        def src_chunk(b):
            ta = Taint(b, through="all")
            des = call_results(["ant_protocol::storage::header::try_deserialize_record"])(b)
            return ta.closure(des)
        R.gate(pfx + ".chunk", cg, RetSink("Ok", computed=True),
               [[CmpGuard(src_addr, src_chunk, "Eq", "fetched chunk's address == requested address", close=False)]],
               descr="chunk_get returns Ok(chunk) only when the chunk's own address equals the requested one")
        # ... and it hands back *every* chunk a holder answers with that is the one asked for: its only refusals of its own are the
        # address mismatch above and a record of another kind (seed C14-r6: a "hardening" `serialised_size() > MAX_CHUNK_SIZE` refusal —
        # an incompressible full-size slice is stored 16 bytes over that figure, so honestly stored data no longer downloads)
        import tables as T_

        class _KindIsChunk:
            label = "the record's kind is Chunk"

            def edges(self, body):
                names = T_.variant_names(F, "ant_protocol::storage::header::RecordKind") or {}
                idx = {v: k for k, v in names.items()}.get("Chunk")
                acc, rej, n = [], [], 0
                for blk in body.blocks:
                    t = blk["term"]
                    if blk["cleanup"] or t["k"] != "switch" or idx is None:
                        continue
                    on = op_local(t["on"])
                    # `if let RecordKind::Chunk = header.kind` switches on the field; `match header.kind { Chunk => .., other => .. }` may copy it first
                    if not any(st["d"] == [on] and st["rv"]["k"] == "discr" and (st["rv"]["p"][-1] == ".kind" or
                               (len(st["rv"]["p"]) == 1 and str(body.locals.get(str(st["rv"]["p"][0]), "")).endswith("RecordKind"))) for st in blk["stmts"]):
                        continue
                    n += 1
                    vals = {int(v): d for v, d in t["targets"]}
                    for v, d in vals.items():
                        (acc if v == idx else rej).append((blk["id"], d))
                    (rej if idx in vals else acc).append((blk["id"], t["otherwise"]))
                return n, acc, rej
        if pfx.startswith("C14"):
          R.only_propagated_errors(pfx + ".chunk.total", CG, "chunk_get refuses a fetched record only for a wrong kind or a wrong address (no limit of its own on an honestly stored chunk)",
                                 allow=[("address", CmpGuard(src_addr, src_chunk, "Eq", "fetched chunk's address == requested address", close=False)), ("kind", _KindIsChunk())])
