#!/bin/sh
# Builds the fact extractor and warms the dependency target dir + fact cache for the current tree. Offline.
set -e
cd "$(dirname "$0")"
export CARGO_NET_OFFLINE=true
(cd engine/antfacts && cargo build --release --offline)
./check --warm
