#!/bin/sh
# Runs the repository's pinned baseline suite (guard off: there are no hooks) and reports which of the 135 stable tests did not pass.
cd /repo && CARGO_NET_OFFLINE=true cargo nextest run --workspace --no-fail-fast --tool-config-file pb:/w/lib/nextest.toml --profile pb --test-threads 8 --offline > /tmp/baseline.log 2>&1
python3 - <<'PY'
import json,re,xml.etree.ElementTree as ET,glob
base=json.load(open('/root/.vp/BASELINE.json'))['stable_pass']
f=glob.glob('/repo/target/nextest/pb/junit.xml')[0]
ok=set()
for tc in ET.parse(f).getroot().iter('testcase'):
    name=tc.get('classname')+'::'+tc.get('name')
    if tc.find('failure') is None and tc.find('error') is None: ok.add(name)
miss=[b for b in base if b not in ok]
print('baseline stable tests passing: %d/%d'%(len(base)-len(miss),len(base)))
for m in miss: print('  NOT PASSING:',m)
PY
