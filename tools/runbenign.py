import json,re,sys,subprocess
import os as _os; _os.environ["VERIF_NO_EVIDENCE"] = "1"   # never let a run against a modified tree rewrite evidence/
bid=sys.argv[1]; ids=sys.argv[2:]
bv=[b for b in json.load(open('/verif/selftest/benign.json')) if b['id']==bid][0]
p='/repo/'+bv['file']; text=open(p).read()
i=text.index(bv['start']); j=text.index(bv['end'], i+len(bv['start']))
seg=re.sub(bv['pattern'], bv['repl'], text[i:j], flags=re.S if bv.get('flags')=='s' else 0)
for a,b in bv.get('pre',[]): 
    assert a in seg, a
    seg=seg.replace(a,b)
open(p,'w').write(text[:i]+seg+text[j:])
try:
    crate=bv['file'].split('/')[0]
    r=subprocess.run(['cargo','check','--offline','-q','-p',crate],cwd='/repo',stdout=subprocess.PIPE,stderr=subprocess.STDOUT,text=True)
    errs=[l for l in r.stdout.splitlines() if l.startswith('error')]
    print('compile:', 'OK' if not errs else errs[:3])
    for c in ids or bv['properties']:
        r=subprocess.run(['/verif/check',c],stdout=subprocess.PIPE,stderr=subprocess.STDOUT,text=True)
        print('\n'.join(l[:260] for l in r.stdout.splitlines() if not l.startswith(('    key','VIOLATION','[facts]','KNOWN')))[-900:])
finally:
    subprocess.check_call(['git','-C','/repo','checkout','--',bv['file']])
