#!/usr/bin/env python3
"""mut.py <file> <old> <new> -- <check ids...> : apply a textual mutation to /repo (in place), run checks, revert."""
import subprocess, sys
import os as _os; _os.environ["VERIF_NO_EVIDENCE"] = "1"   # never let a run against a modified tree rewrite evidence/
args = sys.argv[1:]
i = args.index("--")
f, old, new = args[0], args[1], args[2]
ids = args[i + 1:]
p = "/repo/" + f
s = open(p).read()
if s.count(old) < 1:
    print("MUTATION DOES NOT APPLY"); sys.exit(3)
open(p, "w").write(s.replace(old, new, 1))
try:
    for cid in ids:
        r = subprocess.run(["/verif/check", cid], stdout=subprocess.PIPE, stderr=subprocess.STDOUT, text=True)
        lines = [l for l in r.stdout.splitlines() if not l.startswith(("    key", "VIOLATION", "[facts]", "KNOWN-FINDING"))]
        print("exit=%d" % r.returncode); print("\n".join(l[:260] for l in lines[-8:]))
finally:
    subprocess.check_call(["git", "-C", "/repo", "checkout", "--", f])
