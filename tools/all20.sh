#!/bin/sh
# all20.sh : run the 20 quick checks in parallel against $VERIF_REPO (default /repo) without touching evidence/; one line each
export VERIF_NO_EVIDENCE=1
for i in 01 02 03 04 05 06 07 08 09 10 11 12 13 14 15 16 17 18 19 20; do
  ( /verif/check C$i --tier quick > /tmp/all20_C$i.$$.log 2>&1; rc=$?; echo "C$i exit=$rc $(grep -v '^    \|KNOWN\|VIOLATION' /tmp/all20_C$i.$$.log | grep '\[C' | cut -c1-260 | head -4 | tr '\n' ';')"; rm -f /tmp/all20_C$i.$$.log ) &
done
wait
