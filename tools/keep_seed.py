#!/usr/bin/env python3
"""keep_seed.py <wtid> <dest e.g. C07-r4> <round> <first_run text> <caught_by comma list> : copy a confirmed seeded change from
/tmp/seed/<wtid>/ (patch.diff, demo.diff, meta.json, confirm.log written by tools/confirm_seed.sh) to /verif/seeded/<dest>/ and
record what the builder ran."""
import json, os, shutil, sys
wt, dest, rnd, first, caught = sys.argv[1:6]
src = "/tmp/seed/%s" % wt
dst = "/verif/seeded/%s" % dest
os.makedirs(dst, exist_ok=True)
for f in ("patch.diff", "demo.diff"):
    shutil.copy(os.path.join(src, f), os.path.join(dst, f))
m = json.load(open(os.path.join(src, "meta.json")))
m["property"] = dest[:3]
m["round"] = int(rnd)
m["confirmed_by_builder"] = True
log = open(os.path.join(src, "confirm.log")).read() if os.path.exists(os.path.join(src, "confirm.log")) else ""
m["builder_ran"] = "tools/confirm_seed.sh in the agent's scratch worktree (demo with patch / demo without patch / existing tests with patch only): " + " | ".join(l.strip() for l in log.splitlines() if l.startswith(("==", "test result")))
m["caught_by"] = [c for c in caught.split(",") if c]
m["first_run"] = first
json.dump(m, open(os.path.join(dst, "meta.json"), "w"), indent=1)
print("kept", dst)
